#include <nstd/Process.hpp>
#include <nstd/List.hpp>
#include <nstd/Map.hpp>
#include <nstd/String.hpp>
#include <stdio.h>
#include <string.h>
int main()
{
  Map<String, String> env; env.insert("NSTD_PROBE", "42");
  List<String> args; args.append("sh"); args.append("-c"); args.append("echo probe=$NSTD_PROBE");
  Process p;
  if(!p.open("/bin/sh", args, Process::stdoutStream, env)) return 2;
  char buf[64] = {0}; p.read(buf, sizeof(buf) - 1); uint32 code; p.join(code);
  printf("%s", buf);
  return strcmp(buf, "probe=42\n") == 0 ? 0 : 1;
}
