#include <nstd/File.hpp>
#include <nstd/String.hpp>
#include <stdio.h>
int main()
{
  const char* paths[] = {"dir/a.tar.gz", "a.b.c", "x/.hidden", "x/name.", "plain", "d.d/file"};
  int bad = 0;
  for(auto p : paths)
  {
    String path(p, String::length(p));
    String stem = File::getStem(path), ext = File::getExtension(path), base = File::getBaseName(path);
    String re = stem; if(!ext.isEmpty() || base.endsWith(".")) { re.append('.'); re.append(ext); }
    printf("%-14s stem=%-8s ext=%-5s base=%-10s recomposed=%s %s\n", p, (const char*)stem, (const char*)ext, (const char*)base, (const char*)re, re == base ? "" : "MISMATCH");
    if(!(re == base)) ++bad;
  }
  return bad ? 1 : 0;
}
