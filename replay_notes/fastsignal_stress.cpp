// Demo for seeded defect C10g: a client thread starts many more futures than the shared pool's
// job queue can hold (256 slots), with bursts of long jobs followed by many short ones, so that
// start() keeps running into the full queue while workers dequeue at a high rate.
// Property C10: every call runs exactly once (with its arguments), the call record is released
// once, and every start()/join() returns provided the started functions terminate.
//
// usage: demo [rounds [spin]]
// exit 0 = property observed to hold, 1 = hang (watchdog), 2 = wrong execution counts,
//      3 = crash (double free / use after free of a call record)
// (no C++ standard library headers: nstd/Base.hpp declares its own operator new/delete)
#include <nstd/Future.hpp>

#include <pthread.h>
#include <signal.h>
#include <string.h>
#include <stdio.h>
#include <stdlib.h>
#include <time.h>
#include <unistd.h>

static const int producers = 8; // a single client thread: see note in meta.json about concurrent blocked clients
static const int perProducer = 4000; // many more jobs than the 256 queue slots + workers
static int rounds = 6;
static int spin = 20000;

static volatile int executed[producers][perProducer];
static volatile int errors = 0;
static volatile int producersDone = 0;

static void job(int p, int i)
{
  if (p < 0 || p >= producers || i < 0 || i >= perProducer)
  {
    __sync_fetch_and_add(&errors, 1);
    return;
  }
  // Bimodal job length: a burst of 16 long jobs occupies the workers so that the queue runs
  // full behind them, then the workers drain short jobs quickly (many dequeues per microsecond)
  // while the client is still pushing against the full queue.
  int n = (i & 511) < 16 ? spin * 20 : spin / 50;
  for (volatile int k = 0; k < n; ++k) // terminates, waits on no other future
    ;
  __sync_fetch_and_add(&executed[p][i], 1);
}

static void* producer(void* arg)
{
  int p = (int)(long)arg;
  Future<void>* futures = new Future<void>[perProducer];
  for (int i = 0; i < perProducer; ++i)
    futures[i].start(&job, p, i);
  for (int i = 0; i < perProducer; ++i)
  {
    futures[i].join();
    if (!futures[i].isFinished() || futures[i].isAborted())
      __sync_fetch_and_add(&errors, 1);
  }
  delete[] futures;
  __sync_fetch_and_add(&producersDone, 1);
  return 0;
}

static void crashed(int sig)
{
  // a call record executed twice is also deleted twice, which usually corrupts the heap
  int twice = 0;
  for (int p = 0; p < producers; ++p)
    for (int i = 0; i < perProducer; ++i)
      if (executed[p][i] > 1)
        ++twice;
  char buf[160];
  int n = snprintf(buf, sizeof(buf), "FAIL: crashed with signal %d (heap corruption / use after free of a call record); %d jobs were seen executing more than once, %d with garbage arguments\n", sig, twice, errors);
  if (write(1, buf, n)) {}
  _exit(3);
}

static double now()
{
  struct timespec ts;
  clock_gettime(CLOCK_MONOTONIC, &ts);
  return ts.tv_sec + ts.tv_nsec * 1e-9;
}

int main(int argc, char* argv[])
{
  if (argc > 1) rounds = atoi(argv[1]);
  if (argc > 2) spin = atoi(argv[2]);
  signal(SIGSEGV, &crashed);
  signal(SIGABRT, &crashed);
  signal(SIGBUS, &crashed);
  for (int round = 0; round < rounds; ++round)
  {
    producersDone = 0;
    for (int p = 0; p < producers; ++p)
      for (int i = 0; i < perProducer; ++i)
        executed[p][i] = 0;
    __sync_synchronize();

    pthread_t threads[producers];
    for (int p = 0; p < producers; ++p)
      pthread_create(&threads[p], 0, &producer, (void*)(long)p);

    // watchdog: a round needs well under a second
    double deadline = now() + 20.;
    while (__sync_fetch_and_add(&producersDone, 0) != producers)
    {
      if (now() > deadline)
      {
        int done = 0;
        for (int p = 0; p < producers; ++p)
          for (int i = 0; i < perProducer; ++i)
            done += executed[p][i];
        printf("FAIL: round %d: hang, only %d of %d client threads returned from start()/join(); %d of %d jobs executed\n",
               round, producersDone, producers, done, producers * perProducer);
        fflush(stdout);
        _exit(1);
      }
      usleep(1000);
    }
    for (int p = 0; p < producers; ++p)
      pthread_join(threads[p], 0);

    int bad = errors;
    for (int p = 0; p < producers; ++p)
      for (int i = 0; i < perProducer; ++i)
        if (executed[p][i] != 1)
          ++bad;
    if (bad)
    {
      printf("FAIL: round %d: %d jobs not executed exactly once / wrong state after join\n", round, bad);
      return 2;
    }
  }
  printf("OK: %d rounds of %d futures from %d threads all ran exactly once and joined\n", rounds, producers * perProducer, producers);
  return 0;
}
