#include <nstd/Document/Json.hpp>
#include <nstd/String.hpp>
#include <stdio.h>
int main()
{
  String in("a /* x * y */ b\n/* l1\n * l2\n */c");
  String out = Json::stripComments(in);
  String want("a  b\n\n\nc");
  printf("[%s]\n", (const char*)out);
  return out == want ? 0 : 1;
}
