#!/bin/bash
# tools/mut.sh <Cxx> <file-relative-to-/repo> <perl -0pe expression>   : ad-hoc mutant, run check, undo
cd /repo && git diff --quiet || { echo "/repo dirty"; exit 2; }
perl -0pi -e "$3" "$2"
if git diff --quiet; then echo "MUTATION DID NOT CHANGE ANYTHING"; exit 2; fi
cd /verif && NSTD_EVIDENCE_DIR=/var/tmp/nstd-verif-scratch-evidence ./check $1 | grep -E "VIOLATION|ANALYSIS-BROKEN|^  C" | cut -c1-260 | head -6
git -C /repo checkout -- .
