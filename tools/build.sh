#!/bin/sh
# Builds the libTooling front end (offline; clang 14 + llvm-14 dev files from the image).
set -e
cd "$(dirname "$0")/.."
mkdir -p build
SRC=tools/extract/nstd_extract.cc
OUT=build/nstd_extract
if [ -x "$OUT" ] && [ "$OUT" -nt "$SRC" ]; then
  echo "nstd_extract up to date"; exit 0
fi
clang++ $(llvm-config-14 --cxxflags) -fno-rtti -O1 "$SRC" -o "$OUT.tmp" \
  /usr/lib/llvm-14/lib/libclang-cpp.so.14 /usr/lib/llvm-14/lib/libLLVM-14.so
mv "$OUT.tmp" "$OUT"
echo "built $OUT"
