#!/usr/bin/env python3
"""tools/dump.py <substring of signature> [--list] : print CFG + rendered statements (debug aid)"""
import os, sys
sys.path.insert(0, os.path.dirname(os.path.dirname(os.path.abspath(__file__))))
from engine import facts
prog = facts.load_program(ndebug="--debug" not in sys.argv)
pat = sys.argv[1]
for sig, f in sorted(prog.functions.items()):
    if pat in sig:
        if "--list" in sys.argv:
            print(sig, f.file, f.line)
        else:
            f.dump(brief='--brief' in sys.argv)
if "--errors" in sys.argv:
    for u, d in prog.errors[:40]:
        print("ERR", u, d)
