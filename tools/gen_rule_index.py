#!/usr/bin/env python3
"""tools/gen_rule_index.py : write /verif/RULES.md - every rule of every check with its text, instance count on the current tree and
floor, taken from the evidence files of the last run (tools/run_all.sh)"""
import json, glob, os
V = os.path.dirname(os.path.dirname(os.path.abspath(__file__)))
out = ["# Rule index (generated from evidence/*.json by tools/gen_rule_index.py)", "",
       "One line per rule: id, instances on the current tree / floor, rule text.  A rule is a necessary condition of its property;",
       "what it does not decide is said in DESIGN.md section 3 and in each evidence file's `explanation`.", ""]
tot = 0
for p in sorted(glob.glob(os.path.join(V, "evidence", "C*.json"))):
    e = json.load(open(p))
    rules = e.get("coverage", {}).get("rules", {})
    out.append("## %s (%d rules, %d obligations)" % (e["property_id"], len(rules), e.get("coverage", {}).get("obligations", 0)))
    out.append("")
    def keyf(k):
        import re
        m = re.match(r"C\d+\.([a-z]+|[A-Z]+)?(\d+)?(.*)", k)
        return (m.group(1) or "", int(m.group(2) or 0), m.group(3)) if m else (k, 0, "")
    for rid in sorted(rules, key=keyf):
        r = rules[rid]
        out.append("- **%s** (%d / floor %d): %s" % (rid, r["instances"], r["floor"], " ".join(r["text"].split())))
        tot += 1
    out.append("")
out.insert(4, "Total: %d rules." % tot)
open(os.path.join(V, "RULES.md"), "w").write("\n".join(out) + "\n")
print("rules:", tot)
