#!/usr/bin/env python3
"""tools/benign_par.py [patch ...] : apply each behaviour-preserving patch to its own scratch copy of /repo's include/ and src/
(never to /repo), extract once, run ALL property modules on it; anything that is not silent is a false alarm of a rule.
Runs patches in parallel.  Default corpus: selftest/benign/*.patch."""
import glob
import importlib
import json
import os
import shutil
import subprocess
import sys
import tempfile
import traceback
from multiprocessing import Pool

sys.path.insert(0, os.path.dirname(os.path.dirname(os.path.abspath(__file__))))
from engine import facts, report  # noqa: E402

VERIF = facts.VERIF


def one(patch):
    name = os.path.basename(patch)
    scratch = tempfile.mkdtemp(prefix="nstd-verif-benign-", dir="/var/tmp")
    out = []
    try:
        for sub in ("include", "src"):
            shutil.copytree(os.path.join(facts.REPO, sub), os.path.join(scratch, sub))
        p = subprocess.run(["patch", "-p1", "-s", "-f", "-d", scratch, "-i", patch], capture_output=True, text=True)
        if p.returncode != 0:
            return name, ["PATCH-DOES-NOT-APPLY"]
        try:
            prog = facts.load_program(repo=scratch, ndebug=True, cache=False)
        except facts.AnalysisBroken as e:
            return name, ["extract: " + str(e)[:200]]
        m = json.load(open(os.path.join(VERIF, "MANIFEST.json")))
        for c in m["checks"]:
            pid = c["property_id"]
            mod = importlib.import_module("engine.props." + pid.lower())
            chk = report.Check(pid, "quick")
            try:
                mod.run(prog, chk)
                for rid, r in chk.rules.items():
                    if chk.counts.get(rid, 0) < r["floor"]:
                        chk.broke("rule %s matched %d instances, floor is %d" % (rid, chk.counts.get(rid, 0), r["floor"]))
            except facts.AnalysisBroken as e:
                out.append("%s ANALYSIS-BROKEN %s" % (pid, str(e)[:160]))
                continue
            except Exception:
                out.append("%s CRASH %s" % (pid, traceback.format_exc().splitlines()[-1][:160]))
                continue
            known = set((e.get("rule"), e.get("function"), e.get("tag")) for e in chk._known())
            new = [k for k in chk.viol if k not in known]
            for k in new[:3]:
                out.append("%s %s %s in %s" % (pid, k[0], k[2], k[1]))
            if getattr(chk, "broken", None):
                out.append("%s ANALYSIS-BROKEN %s" % (pid, str(chk.broken)[:160]))
    finally:
        shutil.rmtree(scratch, ignore_errors=True)
    return name, out


def main():
    patches = [os.path.abspath(x) for x in sys.argv[1:]] or sorted(glob.glob(os.path.join(VERIF, "selftest", "benign", "*.patch")))
    with Pool(16) as pool:
        bad = 0
        for name, out in pool.imap_unordered(one, patches):
            if out:
                bad += 1
                print("%s FALSE-ALARM" % name)
                for o in out:
                    print("    " + o)
            else:
                print("%s SILENT" % name)
    print("%d patches, %d not silent" % (len(patches), bad))
    return 1 if bad else 0


if __name__ == "__main__":
    sys.exit(main())
