#!/usr/bin/env python3
"""Regenerates /verif/MANIFEST.json from the table below (claimed checks = those with a module in engine/props)."""
import json
import os

V = os.path.dirname(os.path.dirname(os.path.abspath(__file__)))

CLAIMS = {
    "C01": ("static necessary conditions of the sorted/threaded AVL containers: equal-range contract between MultiMap::find and its forward-scanning consumers, sentinel-guarded walks, rebalance loop on every structural path of insert/remove, list threading, hinted-insert cell choice evaluated over all key orderings, cell-based descent started below the root only with an established key range, double-rotation decision table of shiftl/shiftr over child slope -1/0/+1, direction table of the descent, mirror symmetry of the rotations; updateHeightAndSlope and the rebal dispatch evaluated over all child-height / slope / parent-link configurations; the agreement with a reference map over all histories and the numeric height bound are NOT decided",
            "MPT/DOM path rules + finite ordering enumeration over clang AST/CFG", "3 C01"),
    "C02": ("static necessary conditions for HashMap/HashSet/PoolMap: members instantiate for T != V (compile witness), find-then-link dominance, bucket-chain back-pointer pairing, order-list link/unlink on all paths, clear resets bucket heads, swap hands over completely, bucket index reduced by the sizing capacity; operator== walks both insertion-order lists in step comparing key and value under equal sizes; no step of the iterator after `it = remove(it)` in one iteration; agreement with a reference ordered map over all histories is NOT decided",
            "compile witness + MPT/DOM/PAIRF rules over clang AST/CFG", "3 C02"),
    "C03": ("static necessary conditions for List/Array/PoolList: members instantiate (compile witness), link/unlink idioms complete on all paths with the documented returned iterator, clear/swap complete, Array storage discipline (reserve dominates construction, allocation sized by capacity, shifting removal destroys exactly the vacated slot, removal by index only under index < size()); List::operator== compares position by position under equal sizes; self-referential arguments of Array/List growth (rule shared with C04, 4 known findings); element-wise agreement with a reference sequence and sort order are NOT decided",
            "compile witness + MPT/DOM/CNT rules over clang AST/CFG", "3 C03"),
    "C04": ("pairing rules on all paths of all eight containers: rule of three, self-assignment order, construct only into fresh slots, destroy exactly once then recycle, only the destructor frees and it frees everything, Array growth pairing, ALIAS rule for arguments that may refer into the container (4 known findings), removal unlinks the destroyed node from the order list and its bucket chain; close to the structural content of the statement, but leak freedom over all histories still rests on unproved shape invariants; Array::reserve frees the old block on every path on which it is not null",
            "class facts + ORD/CNT/MPT/WHO/ALIAS rules over clang AST/CFG", "3 C04"),
    "C05": ("who-may-relocate rules: only the destructor frees blocks, placement-new only into fresh slots, no payload assignment between nodes, destroy-then-recycle of a removed slot, swap is a complete pointer hand-over, pool containers instantiate fully for a non-copyable element and cannot be copied (compile witnesses), pool node/element offsets agree with the Item layout; self-assignment of a node container touches no node; the position argument of an insertion is not read after `_begin` was re-seated; these are the code-shape facts from which address stability follows, the per-history statement itself is NOT decided",
            "WHO/DOM effect rules + compile witnesses", "3 C05"),
    "C06": ("detach-before-write discipline on every String member: writes to the text block dominated by detach()/exclusive-owner test/fresh allocation, in-place detach only for count one and sufficient capacity (finite valuations), length stores paired with NUL stores, allocation shape sizeof(Data)+(c+1) with capacity c, sharing only of counted blocks, C-string view terminator check, ALIAS rule for self-referential arguments (2 known findings), join appends token (separator token)* on every path, detach(copyLength, minCapacity) called only with copyLength <= minCapacity; raw text pointers reach NUL-dependent readers only after detach(); no pointer into the text block is used after a call that may detach; last-occurrence searches restart one byte behind a hit; byte equality with a reference string and search/format results are NOT decided",
            "DOM/PAIRF/FIN/ALIAS rules over clang AST/CFG", "3 C06"),
    "C07": ("tag<->payload table read from the constructors, every payload cast dominated by the matching tag (valuation over all tags), clear() exhaustive, mutable access to the current payload only for ref<=1 and matching tag (valuations), clones built in the fresh block, no pointer comparison of class operands, reference-count idioms, self-assignment order, no read of the own payload between release and re-seat; assignment operators take everything from their argument before releasing the own payload; coercion tables and equality over all values are NOT decided",
            "TAG/FIN/DOM rules over clang AST/CFG", "3 C07"),
    "C09": ("the reference-counting safety argument reduced to code-shape facts on String, Variant, Xml::Variant, RefCount::Ptr: atomic-only counter updates, release only under `Atomic::decrement(..) == 0` evaluated in the condition, increment on every share, release before overwrite, acquire before release, paired handle fields, rule of three, clone target, exclusive-owner valuations, no in-place String text write without detach()/sole-owner test/fresh block; these imply exactly-once release under every interleaving of threads owning distinct handles, given full-barrier __sync builtins; no read of an assignment's argument after the release of the own payload (the argument may live inside it); every path through an increment stores that block into the handle; weak-memory effects and misuse of one handle by two threads are NOT decided",
            "WHO/DOM/MPT/ORD/PAIRF/FIN rules over clang AST/CFG", "3 C09"),
    "C10": ("protocol-shape rules on Future.hpp/Future.cpp: publication order (call once -> result -> state -> signal -> delete; join before reading; startProc prepares the future before handing the job over), reset-and-recheck before every queue wait, wake-up after every hand-off, atomic-only ring indices with fill-before-publish and ticket-before-CAS, one dispatch per pop counted only for real jobs, thread count paired with worker creation / retire tickets, spin-lock release and re-read in the lazy pool creation, worker list under the mutex; the result conversion has no way around join() unless the state is reset per run; one hand-over per job (no push after a successful push before the wake-up); FastSignal::reset re-validates the flag after resetting the Signal; liveness (every join eventually returns), lock-freedom and exactly-once under all interleavings of the ring are NOT decided",
            "ORD/MPT/DOM/WHO path rules over clang AST/CFG", "3 C10"),
    "C12": ("structural rules on Callback: slot fields consulted only under a state test, physical removal only with no active emission and marking sets dirty, both sides updated together, all nine emit arities test state before and `invalidated` after each invocation and agree with each other, activation chain push/pop/propagation, ~Emitter invalidates first, every unlinking loop matches a record on all its identity fields, liveness table of the state tests (connected where invoked, connected+connecting where matched or torn down), Emitter/Listener not copyable; `dirty` is cleared only where no emission is active; the invocation log against a model of live connections over all nested histories is NOT decided",
            "DOM/MPT/PAIRF rules + sibling comparison over clang AST/CFG", "3 C12"),
    "C13": ("structural rules on the Server client write path: direct send only without backlog, buffered remainder is the exact complement of what send returned, every `return true` accounts for all bytes and failures queue the close, interest flags equal (read iff not suspended | write iff backlog) under all open valuations at every registration, would-block convention agrees between Socket::send/recv and their three consumers, postponed size, onWrite after drain and interest update with no use of the client afterwards, Poll::set prunes just-removed flags from the buffered epoll round (suspend); Socket::send returns the accepted byte count for every outcome sequence of the primitive; `buffer = 0` paired with `_capacity = 0` in the send backlog's Buffer; a new client is registered before it is handed to user code; the byte stream at the peer for all OS send outcomes is NOT decided",
            "DOM/MPT/FIN/TBL rules over clang AST/CFG", "3 C13"),
    "C14": ("structural rules on the event loop: equal-range contract of MultiMap::find for forward-scanning consumers, unregister-before-destroy in every remove(), pruning of buffered poll events on remove/set, dispatch cast agrees with the registered type per flag, no use of an object after its callback (timers re-queued first), interrupt flag under its mutex and stored before the wake-up, deferred close after failed I/O, default timer always present; client registrations keep write interest while a backlog exists (registration table shared with C13); a new client is registered before it is handed to user code; timing (never before due, order of due times), eventual dispatch and epoll behaviour are NOT decided",
            "ORD/MPT/TAG/typestate rules over clang AST/CFG", "3 C14"),
    "C11": ("protocol-shape rules on the POSIX implementation: lock-state dataflow (pairing on every path, condition waits only with the lock), flag accesses inside the critical section, waits re-check in a loop and Monitor consumes the flag, set publishes under the lock then notifies (broadcast vs signal), timed waits fail only through the timed primitive, deadline arithmetic by dimension typing + interval analysis + sibling agreement, recursive mutex attribute, Thread handle/join discipline, storage sizes, thin Semaphore mapping; the contracts under all interleavings as such, fairness and the pthread primitives' behaviour are NOT decided",
            "lock-state dataflow + DOM/MPT rules + unit typing + interval analysis over clang AST/CFG", "3 C11"),
    "C15": ("parser-cursor abstract interpretation (bytes known non-NUL at the cursor, join = min) over readToken/skipSpace/stripComments: no advance or offset read beyond what dominating tests establish, every tokenizer loop cycle advances; table agreement between the string reader's special bytes and the writer's escapes with round-trip of each escape; serialiser/parser exhaustiveness over tags and token kinds; agreement of the bytes counted as line breaks with the bytes that stop the error-column walk, stripComments output bound, string-mode typestate and agreement of its literal loop with the JSON literal automaton on all 341 texts of up to 4 bytes over 4 byte classes; every byte the escape writer stops at has an emitting arm; comment scans of stripComments stop at every line-break byte; member counters that are raised and lowered have one net effect per function on all successful paths; equality of re-parsed trees in general and recursion depth are NOT decided",
            "CUR abstract interpretation + TBL/TAG table rules over clang AST/CFG", "3 C15"),
    "C16": ("parser-cursor abstract interpretation over the XML tokenizer (bounds and per-loop progress), a save/rewind-aware progress argument for the content loop of parseElement with callee summaries, escape-table agreement between reader stop sets and writer escapes (tables read from the initialisers), stale-pointer rule for raw String buffers across reallocating calls, copy-on-write rules for element values (shared with C09), line/lineStart pairing (1 known finding), prolog test evaluated only after skipSpace(), parser state reset at the entry of parse(), no look-behind past a scan origin; Xml::Variant assignment acquires before it releases; no read of an assignment's argument after the release of the own payload; character references are inserted only after escaping; text is read from the position saved before the look-ahead on every outcome; structural equality of re-parsed element trees in general is NOT decided",
            "CUR abstract interpretation + TBL/ALIAS/PAIRF rules over clang AST/CFG", "3 C16"),
    "C18": ("the bounds-safety clauses: value-set analysis (byte domain exact, signed char, casts, masks, dominating guards, return-set summaries) of every non-constant index into a constant-size table; (pointer,length) reads covered by the length guards with lock-step advance and bounded fall-through consumption in the UTF-8 decoder/validator; encoder range tests agree with the decoder's length table on representatives of every range; base64 output index bounded by the input index; each String::to<Integer> uses a C parser whose result type covers the return type, unguarded snprintf lengths have room for the longest output; the first byte of a (pointer,length) range is read only when the range is non-empty; that encoder and decoder are inverse on all code points, integer round trips and the hex/base64 values are NOT decided",
            "VSA (value sets/intervals) + PAIRF/CNT/FIN rules over clang AST/CFG", "3 C18"),
    "C19": ("failure discipline and tree confinement on File.cpp/Directory.cpp: created files are unlinked on every failing path (1 known finding for File::copy), Directory::create returns true only on mkdir success / '.'-'..' / verified existence and fails when the parent cannot be made, File::open keeps no handle on failure and maps each of the 16 flag sets to open(2) flags without O_APPEND / stray O_TRUNC / stray O_CREAT and seeks to the end exactly for appendFlag, recursive unlink calls nothing that follows links and recurses only for DT_DIR entries with the stream closed on every exit; File::size() restores the caller's position after its SEEK_END probe unless it already was the size; File::copy opens its destination create+write with O_EXCL iff failIfExists and O_TRUNC otherwise; the path algebra (simplifyPath, recomposition, getRelativePath), byte fidelity of file I/O and the file system's behaviour are NOT decided",
            "MPT/DOM/WHO rules over clang AST/CFG", "3 C19"),
    "C20": ("parser-cursor abstract interpretation of Process::Arguments (option cursor stays inside the argument strings; 1 known finding for short-option clusters) and of the command-line splitter (bounds + progress; typestate: a quote-opened word is emitted before the next separator / return even when empty), the option/value decision table of the matched-option arms evaluated over all flag/'='/rest/next-argv combinations against getopt_long, option table walk bounds, close/zero pairing of every stored descriptor, pipe-end discipline after vfork (parent closes the child's ends, child dup2 before close before exec, null-terminated argv), reap-then-close in join/kill; prepareEnv emits one NAME=value per map entry and start()/open() size, fill, terminate and pass the pointer array; reads through the argv cursor under a strict order test; select()'s nfds exceeds every registered descriptor for all masks and descriptor orders; select() arguments are set up again before every call; what the child receives, exit codes and stream contents are NOT decided",
            "CUR abstract interpretation + FIN decision table + MPT/ORD rules over clang AST/CFG", "3 C20"),
    "C08": ("path and pairing rules over every Buffer member: terminator after every end update on owning paths, ownership<->capacity pairing, allocation X+1 with _capacity X, release/re-seat pairing, complete swap, rule of three, ALIAS (a source that may lie in the buffer's own storage is not read after the storage changed; 3 known findings) with a guarded self-assignment, and linear-inequality entailment (own Fourier-Motzkin over dominating guards + class invariant) that every copy/move target and terminator store lies inside the allocation; a window that swap creates (instead of handing over) gets its terminator; content equality with a reference byte queue is NOT decided",
            "MPT/PAIRF path rules + linear-inequality abstract domain over clang AST/CFG", "3 C08"),
}

NA = {
    "C17": "numerical equality with FIPS 180-4 / RFC 2104 for every message, chunking and key length; no sound static abstraction short of evaluating the function, and the available structural comparisons are frozen-fragment proxies (DESIGN.md section 3, C17)",
}

NOTE = ("trusted base: clang 14 parser/Sema/CFG construction, tools/extract/nstd_extract.cc (serialisation only), the Python rule "
        "interpreter under engine/, the stated semantics of libc/pthread calls named in rules; analysed configuration: Linux x86-64, "
        "the real build's flags (NDEBUG); each rule is a necessary condition of the property, the remainder of the statement is not decided")


def main():
    props = [json.loads(l) for l in open(os.path.join(V, "properties.jsonl"))]
    checks = []
    na = []
    for p in props:
        pid = p["id"]
        mod = os.path.join(V, "engine", "props", pid.lower() + ".py")
        if pid in CLAIMS and os.path.exists(mod):
            text, tech, ref = CLAIMS[pid]
            checks.append({
                "property_id": pid,
                "quick_cmd": "./check %s --tier quick" % pid,
                "thorough_cmd": "./check %s --tier thorough" % pid,
                "evidence_file": "/verif/evidence/%s.json" % pid,
                "replay_cmd_template": "./check %s --replay {path}" % pid,
                "engine": "nstd-static",
                "level_claimed": {"category": "other", "text": "static analysis, necessary-condition rules: " + text, "design_ref": "DESIGN.md section " + ref},
                "level_note": NOTE,
                "technique": "static analysis: " + tech,
            })
        else:
            na.append({"property_id": pid, "reason": NA.get(pid, "checker not built yet (work in progress); not claimed")})
    m = {
        "version": 1,
        "setup_cmd": "./tools/build.sh",
        "hooks": {
            "guard": "NSTD_VERIF",
            "enable": "none needed: the checks parse /repo's unmodified sources with the real build's flags; no hook commits exist",
            "baseline_off_cmd": "cmake --build /repo/_build && ctest --test-dir /repo/_build -j8 --timeout 900",
            "source_commits": [],
            "add_only": True,
        },
        "engines": [{"name": "nstd-static", "path": "/verif/check",
                     "serves_properties": [c["property_id"] for c in checks],
                     "kind_free_text": "libTooling extractor (AST + clang::CFG per function, incl. template instantiations) + Python rule engines (path, dominance, effect, finite-valuation, table, cursor and linear-inequality rules) + compile witnesses"}],
        "checks": checks,
        "not_applicable": na,
        "notes": "exit codes: 0 holds / 1 VIOLATION / 2 analysis broken (anchor vanished). known_findings.json lists recorded and fixed defects. seeded/ holds confirmed breaking changes used to validate the checks.",
    }
    with open(os.path.join(V, "MANIFEST.json"), "w") as fh:
        json.dump(m, fh, indent=1)
    print("claimed:", [c["property_id"] for c in checks])


if __name__ == "__main__":
    main()
