#!/bin/bash
# tools/proc_seed.sh <id> : confirm a finished sub-agent seed, collect it, and run the property's check against it
ID=$1
[ -s /tmp/seed/$ID/_seed/meta.json ] || { echo "$ID not finished (no meta.json)"; exit 1; }
/verif/tools/confirm_seed.sh /tmp/seed/$ID > /tmp/seed/$ID.confirm 2>&1
if ! grep -q "^CONFIRMED" /tmp/seed/$ID.confirm; then echo "$ID NOT CONFIRMED: $(tail -n 3 /tmp/seed/$ID.confirm | tr '\n' ' ')"; exit 1; fi
/verif/tools/collect_seed.sh $ID >/dev/null || { echo "$ID collect failed"; exit 1; }
echo "$ID CONFIRMED+COLLECTED"
