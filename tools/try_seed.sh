#!/bin/bash
# tools/try_seed.sh <seed-id-or-patch> <Cxx> [tier] : apply a seeded change to /repo, run a check, undo
P=$1; [ -f "$P" ] || P=/verif/seeded/$1/patch.diff
cd /repo && git diff --quiet || { echo "/repo has local changes"; exit 2; }
git apply "$P" || { echo "patch does not apply"; exit 2; }
cd /verif && NSTD_EVIDENCE_DIR=/var/tmp/nstd-verif-scratch-evidence ./check $2 --tier ${3:-quick} | grep -E "VIOLATION|ANALYSIS-BROKEN|^  C|^C[0-9]+:" | head -${LINES_MAX:-12}
git -C /repo checkout -- . 
