#!/bin/bash
# tools/run_all.sh [tier] : run every registered check on /repo as it is; summary line per property
cd /verif
TIER=${1:-quick}
fail=0
for p in $(python3 -c "import json;print(' '.join(c['property_id'] for c in json.load(open('MANIFEST.json'))['checks']))"); do
  out=$(./check $p --tier $TIER 2>&1); rc=$?
  echo "$p rc=$rc $(echo "$out" | tail -1)"
  [ $rc -ne 0 ] && { fail=1; echo "$out" | grep -E "VIOLATION|ANALYSIS-BROKEN" | head -5; }
done
exit $fail
