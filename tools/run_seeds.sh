#!/bin/bash
# tools/run_seeds.sh [tier] : apply every seeded change in /verif/seeded to /repo in turn, run the check of its property, undo.
# prints one line per seed: DETECTED / MISSED / BROKEN
cd /repo && git diff --quiet || { echo "/repo has local changes"; exit 2; }
TIER=${1:-quick}
IDX=/verif/seeded/INDEX.tmp; : > $IDX
for d in /verif/seeded/*/; do
  id=$(basename $d); [ -f $d/patch.diff ] || continue
  pid=$(python3 -c "import json;print(json.load(open('$d/meta.json')).get('property','${id:0:3}'))" 2>/dev/null || echo ${id:0:3})
  if ! git -C /repo apply $d/patch.diff 2>/dev/null; then echo "$id $pid PATCH-DOES-NOT-APPLY"; continue; fi
  out=$(cd /verif && NSTD_EVIDENCE_DIR=/var/tmp/nstd-verif-scratch-evidence ./check $pid --tier $TIER 2>&1); rc=$?
  if [ $rc -eq 0 ] && [ "$TIER" = quick ] && grep -q "def run_thorough" /verif/engine/props/$(echo $pid | tr A-Z a-z).py; then
    # rules that run in the thorough tier only (sibling comparisons): engine call without the self-test
    out=$(cd /verif && NSTD_EVIDENCE_DIR=/var/tmp/nstd-verif-scratch-evidence python3 -c "
import sys; sys.path.insert(0,'/verif')
from engine import facts, report
import importlib
mod = importlib.import_module('engine.props.$(echo $pid | tr A-Z a-z)')
prog = facts.load_program(); chk = report.Check('$pid', 'thorough')
mod.run(prog, chk); mod.run_thorough(prog, chk)
sys.exit(chk.finish())" 2>&1); rc=$?
    [ $rc -eq 1 ] && out=$(echo "$out" | sed 's/^  \(C[0-9]*\.\)/  (thorough) \1/')
  fi
  git -C /repo checkout -- .
  rule=$(echo "$out" | grep -E "^  (\(thorough\) )?C[0-9]+\." | head -1 | cut -c3-70)
  case $rc in 1) echo "$id $pid DETECTED  $rule"; echo "$id $pid detected $rule" >> $IDX;; 0) echo "$id $pid MISSED"; echo "$id $pid blind-spot" >> $IDX;; *) echo "$id $pid BROKEN(rc=$rc) $(echo "$out" | grep ANALYSIS | head -1)"; echo "$id $pid blind-spot" >> $IDX;; esac
done
python3 - <<'PY'
import json
idx={}
for l in open('/verif/seeded/INDEX.tmp', errors='replace'):
    p=l.split(None,3)
    if len(p)>=3: idx[p[0]]={"property":p[1],"status":p[2],"reported":(p[3].strip().split(' — ')[0].rstrip('\ufffd ') if len(p)>3 else "")}
json.dump(idx,open('/verif/seeded/INDEX.json','w'),indent=1,sort_keys=True)
PY
rm -f /verif/seeded/INDEX.tmp
