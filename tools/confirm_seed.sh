#!/bin/bash
# tools/confirm_seed.sh <worktree> : confirm a seeded change independently
#   unmodified tree: builds, demo passes;  modified tree: builds, all 34 tests pass, demo fails
# writes <worktree>/_seed/confirm.log; exit 0 when confirmed
WT=$1
cd "$WT" || exit 2
LOG=_seed/confirm.log
: > $LOG
P=_seed/patch.diff
[ -s $P ] || { echo "no patch" | tee -a $LOG; exit 2; }
git checkout -q -- include src 2>>$LOG
[ -d _build ] || cmake -G Ninja -B _build -DCMAKE_BUILD_TYPE=RelWithDebInfo -DCMAKE_CXX_FLAGS=-Wno-error >/dev/null
cmake --build _build >>$LOG 2>&1 || { echo "unmodified build failed" | tee -a $LOG; exit 2; }
timeout 600 bash _seed/run_demo.sh >>$LOG 2>&1; D0=$?
echo "demo on unmodified tree: exit $D0" | tee -a $LOG
git apply $P || { echo "patch does not apply" | tee -a $LOG; exit 2; }
cmake --build _build >>$LOG 2>&1 || { echo "modified build failed" | tee -a $LOG; exit 2; }
T=$(ctest --test-dir _build -j8 --timeout 900 2>&1 | grep "tests passed")
echo "ctest on modified tree: $T" | tee -a $LOG
timeout 600 bash _seed/run_demo.sh >>$LOG 2>&1; D1=$?
echo "demo on modified tree: exit $D1" | tee -a $LOG
case "$T" in "100% tests passed, 0 tests failed out of 34") ;; *) echo "NOT CONFIRMED (tests)" | tee -a $LOG; exit 1;; esac
if [ $D0 -eq 0 ] && [ $D1 -ne 0 ]; then echo CONFIRMED | tee -a $LOG; exit 0; fi
echo "NOT CONFIRMED" | tee -a $LOG; exit 1
