#!/bin/bash
# tools/benign_round.sh <suffix e.g. r5> : collect every finished agent worktree /tmp/benign/Cxx<suffix> (has _benign/notes.json) and run its patches
S=$1
new=()
for d in /tmp/benign/C??$S; do
  [ -f $d/_benign/notes.json ] || continue
  k=$(basename $d)
  /verif/tools/collect_benign.sh $k >/dev/null && for f in /verif/selftest/benign/agent-$k-*.patch; do new+=($f); done
done
[ ${#new[@]} -gt 0 ] && /verif/tools/benign_par.py "${new[@]}" | grep -v SILENT
echo "collected ${#new[@]} patches"
