#!/usr/bin/env python3
"""tools/uncovered.py : development aid — functions of the anchored files that no rule instance mentions"""
import importlib, json, os, sys
sys.path.insert(0, os.path.dirname(os.path.dirname(os.path.abspath(__file__))))
from engine import facts, report
prog = facts.load_program()
cov = set()
for c in json.load(open(os.path.join(facts.VERIF, "MANIFEST.json")))["checks"]:
    pid = c["property_id"]
    mod = importlib.import_module("engine.props." + pid.lower())
    chk = report.Check(pid, "quick")
    try:
        mod.run(prog, chk)
    except Exception as e:
        print("ERR", pid, e)
    for o in chk.obligations:
        cov.add(str(o[1]))
files = set()
for l in open(os.path.join(facts.VERIF, "properties.jsonl")):
    d = json.loads(l)
    for f in d["anchors"]["files"]:
        files.add(os.path.basename(f))
seen = {}
for f in prog.functions.values():
    if os.path.basename(f.file) not in files or not f.blocks:
        continue
    key = report.generic_fkey(f) if hasattr(report, "generic_fkey") else f.gname
    if key in cov or f.gname in cov or f.sig in cov:
        continue
    seen.setdefault(os.path.basename(f.file), set()).add("%s (%d nodes)" % (key, len(f.nodes)))
for k in sorted(seen):
    print(k, len(seen[k]))
    for x in sorted(seen[k]):
        print("    ", x)
