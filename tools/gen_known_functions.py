#!/usr/bin/env python3
"""tools/gen_known_functions.py : write engine/known_functions.json = qualified names (template arguments stripped) of every function
of /repo's current tree and the witness unit.  Run after a deliberate change of /repo (fix commits); the rules are written against
these functions, anything else is treated as a new helper and inlined into its callers (engine/inline.py)."""
import json, os, sys
sys.path.insert(0, os.path.dirname(os.path.dirname(os.path.abspath(__file__))))
from engine import facts, inline
prog = facts.load_program(inline_helpers=False)
names = sorted(set(inline.strip_targs(f.name) for f in prog.functions.values()))
json.dump(names, open(inline.KNOWN_FILE, "w"), indent=0)
print("%d function names" % len(names))
refs = {}
for f in prog.functions.values():
    r = inline.ref_locals(f.d)
    if r:
        refs.setdefault(inline.strip_targs(f.name), [])
        refs[inline.strip_targs(f.name)] = sorted(set(refs[inline.strip_targs(f.name)]) | set(r))
json.dump(refs, open(inline.KNOWN_REFS_FILE, "w"), indent=0, sort_keys=True)
print("%d functions with reference locals" % len(refs))
ptrs = {}
for f in prog.functions.values():
    r = inline.ptr_locals(f.d)
    if r:
        k = inline.strip_targs(f.name)
        ptrs[k] = sorted(set(ptrs.get(k, [])) | set(r))
json.dump(ptrs, open(inline.KNOWN_PTRS_FILE, "w"), indent=0, sort_keys=True)
print("%d functions with pointer locals" % len(ptrs))
