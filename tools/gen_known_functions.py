#!/usr/bin/env python3
"""tools/gen_known_functions.py : write engine/known_functions.json = qualified names (template arguments stripped) of every function
of /repo's current tree and the witness unit.  Run after a deliberate change of /repo (fix commits); the rules are written against
these functions, anything else is treated as a new helper and inlined into its callers (engine/inline.py)."""
import json, os, sys
sys.path.insert(0, os.path.dirname(os.path.dirname(os.path.abspath(__file__))))
from engine import facts, inline
prog = facts.load_program(inline_helpers=False)
names = sorted(set(inline.strip_targs(f.name) for f in prog.functions.values()))
json.dump(names, open(inline.KNOWN_FILE, "w"), indent=0)
print("%d function names" % len(names))
