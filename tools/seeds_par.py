#!/usr/bin/env python3
"""tools/seeds_par.py [seed-id ...] : like tools/run_seeds.sh, but each seeded change is applied to its own scratch copy of /repo's
include/ and src/ (never to /repo) and the seeds run in parallel.  Writes seeded/INDEX.json when run over the whole corpus."""
import glob
import importlib
import json
import os
import shutil
import subprocess
import sys
import tempfile
import traceback
from multiprocessing import Pool

sys.path.insert(0, os.path.dirname(os.path.dirname(os.path.abspath(__file__))))
from engine import facts, report  # noqa: E402

VERIF = facts.VERIF


def one(sid):
    d = os.path.join(VERIF, "seeded", sid)
    try:
        pid = json.load(open(os.path.join(d, "meta.json"))).get("property", sid[:3])
    except Exception:
        pid = sid[:3]
    scratch = tempfile.mkdtemp(prefix="nstd-verif-seed-", dir="/var/tmp")
    try:
        for sub in ("include", "src"):
            shutil.copytree(os.path.join(facts.REPO, sub), os.path.join(scratch, sub))
        p = subprocess.run(["patch", "-p1", "-s", "-f", "-d", scratch, "-i", os.path.join(d, "patch.diff")], capture_output=True, text=True)
        if p.returncode != 0:
            return sid, pid, "PATCH-DOES-NOT-APPLY", ""
        try:
            prog = facts.load_program(repo=scratch, ndebug=True, cache=False)
        except facts.AnalysisBroken as e:
            return sid, pid, "BROKEN", "extract: " + str(e)[:160]
        mod = importlib.import_module("engine.props." + pid.lower())
        for tier in ("quick", "thorough"):
            if tier == "thorough" and not hasattr(mod, "run_thorough"):
                break
            chk = report.Check(pid, tier)
            try:
                mod.run(prog, chk)
                if tier == "thorough":
                    mod.run_thorough(prog, chk)
                for rid, r in chk.rules.items():
                    if chk.counts.get(rid, 0) < r["floor"]:
                        chk.broke("rule %s matched %d instances, floor is %d" % (rid, chk.counts.get(rid, 0), r["floor"]))
            except facts.AnalysisBroken as e:
                return sid, pid, "BROKEN", str(e)[:160]
            except Exception:
                return sid, pid, "BROKEN", "CRASH " + traceback.format_exc().splitlines()[-1][:160]
            known = set((e.get("rule"), e.get("function"), e.get("tag")) for e in chk._known())
            new = [k for k in chk.viol if k not in known]
            if new:         # (as in ./check: a reported violation outranks a floor that the same change also upset)
                k = new[0]
                return sid, pid, "DETECTED", ("(thorough) " if tier == "thorough" else "") + "%s: %s in %s" % (k[0], k[2], k[1])
            if getattr(chk, "broken", None):
                return sid, pid, "BROKEN", str(chk.broken)[:160]
        return sid, pid, "MISSED", ""
    finally:
        shutil.rmtree(scratch, ignore_errors=True)


def main():
    whole = not sys.argv[1:]
    ids = sys.argv[1:] or sorted(os.path.basename(os.path.dirname(x)) for x in glob.glob(os.path.join(VERIF, "seeded", "*", "patch.diff")))
    res = {}
    with Pool(16) as pool:
        for sid, pid, st, what in pool.imap_unordered(one, ids):
            res[sid] = (pid, st, what)
    bad = 0
    for sid in sorted(res):
        pid, st, what = res[sid]
        if st != "DETECTED":
            bad += 1
        print("%s %s %s  %s" % (sid, pid, st, what[:110]))
    print("%d seeds, %d not detected" % (len(res), bad))
    if whole:
        idx = {sid: {"property": pid, "status": "detected" if st == "DETECTED" else "blind-spot", "reported": what[:68]} for sid, (pid, st, what) in res.items()}
        json.dump(idx, open(os.path.join(VERIF, "seeded", "INDEX.json"), "w"), indent=1, sort_keys=True)
    return 1 if bad else 0


if __name__ == "__main__":
    sys.exit(main())
