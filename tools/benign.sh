#!/bin/bash
# tools/benign.sh : apply every behaviour-preserving edit of selftest/benign to /repo in turn and run ALL checks;
# any VIOLATION or ANALYSIS-BROKEN is a false alarm of a rule.
cd /repo && git diff --quiet || { echo "/repo has local changes"; exit 2; }
for p in /verif/selftest/benign/*.patch; do
  n=$(basename $p .patch)
  git -C /repo apply $p 2>/dev/null || { echo "$n PATCH-DOES-NOT-APPLY"; continue; }
  bad=""
  for c in $(python3 -c "import json;print(' '.join(c['property_id'] for c in json.load(open('/verif/MANIFEST.json'))['checks']))"); do
    out=$(cd /verif && NSTD_EVIDENCE_DIR=/var/tmp/nstd-verif-scratch-evidence ./check $c 2>&1); rc=$?
    [ $rc -ne 0 ] && bad="$bad $c(rc=$rc): $(echo "$out" | grep -E '^  C|ANALYSIS' | head -2 | cut -c1-160)"
  done
  git -C /repo checkout -- .
  if [ -z "$bad" ]; then echo "$n SILENT"; else echo "$n FALSE-ALARM $bad"; fi
done
