#!/bin/bash
# tools/collect_benign.sh <Cxx> : copy the agent-made behaviour-preserving edits of /tmp/benign/<Cxx>/_benign into selftest/benign/agent-<Cxx>-N.patch
P=$1; D=/tmp/benign/$P/_benign; T=${2:-$P}
[ -d $D ] || { echo "no $D"; exit 1; }
for f in $D/edit*.patch; do
  n=$(basename $f .patch | sed 's/edit//')
  [ -s $f ] && cp $f /verif/selftest/benign/agent-$T-$n.patch
done
[ -f $D/notes.json ] && cp $D/notes.json /verif/selftest/benign/agent-$T.notes.json
git -C /repo worktree remove --force /tmp/benign/$P && echo "collected $P"
