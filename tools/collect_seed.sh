#!/bin/bash
# tools/collect_seed.sh <id> : copy a confirmed seeded change into /verif/seeded/<id> and drop its worktree
ID=$1; WT=/tmp/seed/$ID
grep -q CONFIRMED $WT/_seed/confirm.log || { echo "$ID not confirmed"; exit 1; }
mkdir -p /verif/seeded/$ID
for f in $WT/_seed/*; do
  case "$(file -b --mime-type "$f")" in application/x-executable|application/x-pie-executable|application/x-sharedlib|application/x-object) continue;; esac
  [ $(stat -c %s "$f") -gt 300000 ] && continue
  cp "$f" /verif/seeded/$ID/
done
python3 - "$ID" <<'PY'
import json,sys
i=sys.argv[1]; p='/verif/seeded/%s/meta.json'%i
try: m=json.load(open(p))
except Exception: m={}
m['confirmed']={'by':'tools/confirm_seed.sh in the scratch worktree (unmodified: demo exit 0; modified: 34/34 ctest, demo exit != 0)','log':open('/verif/seeded/%s/confirm.log'%i).read().strip().splitlines()[-4:]}
json.dump(m,open(p,'w'),indent=1)
PY
git -C /repo worktree remove --force $WT && echo "collected $ID"
