// nstd_extract — libTooling front end for the /verif static checkers.
//
// For one translation unit it writes a JSON file with
//   * every non-dependent function definition located under the given roots
//     (ordinary functions, inline members, members of class template
//     specialisations) as a compact statement/expression tree plus the
//     clang::CFG built with setAllAlwaysAdd() and implicit destructors;
//   * every complete, non-dependent record under the roots: fields, bases,
//     special members and the list of methods;
//   * all diagnostics (errors) of the unit.
//
// It adds no semantics: it only serialises what clang's Sema resolved.
//
// usage: nstd_extract --out=FILE --root=/repo [--root=...] [--headers] SRC -- flags
//   --headers : also emit functions defined in files other than the main file
//               (used for the witness unit; ordinary units emit main-file
//               functions and template instantiations only).

#include "clang/AST/ASTConsumer.h"
#include "clang/AST/ASTContext.h"
#include "clang/AST/DeclCXX.h"
#include "clang/AST/DeclTemplate.h"
#include "clang/AST/Expr.h"
#include "clang/AST/ExprCXX.h"
#include "clang/AST/ParentMap.h"
#include "clang/AST/RecursiveASTVisitor.h"
#include "clang/AST/StmtCXX.h"
#include "clang/Analysis/CFG.h"
#include "clang/Basic/Diagnostic.h"
#include "clang/Basic/SourceManager.h"
#include "clang/Frontend/CompilerInstance.h"
#include "clang/Frontend/FrontendAction.h"
#include "clang/Frontend/TextDiagnosticPrinter.h"
#include "clang/Lex/Lexer.h"
#include "clang/Tooling/CommonOptionsParser.h"
#include "clang/Tooling/Tooling.h"
#include "llvm/Support/CommandLine.h"
#include "llvm/Support/JSON.h"
#include "llvm/Support/raw_ostream.h"

#include <map>
#include <set>
#include <string>
#include <vector>

using namespace clang;
using namespace clang::tooling;
namespace json = llvm::json;

static llvm::cl::OptionCategory Cat("nstd_extract options");
static llvm::cl::opt<std::string> OutFile("out", llvm::cl::desc("output json"), llvm::cl::Required, llvm::cl::cat(Cat));
static llvm::cl::list<std::string> Roots("root", llvm::cl::desc("source roots"), llvm::cl::cat(Cat));
static llvm::cl::opt<bool> Headers("headers", llvm::cl::desc("emit header-defined functions too"), llvm::cl::cat(Cat));

namespace {

struct DiagCollector : public DiagnosticConsumer {
  json::Array diags;
  void HandleDiagnostic(DiagnosticsEngine::Level L, const Diagnostic &Info) override {
    DiagnosticConsumer::HandleDiagnostic(L, Info);
    if (L < DiagnosticsEngine::Warning)
      return;
    llvm::SmallString<256> msg;
    Info.FormatDiagnostic(msg);
    json::Object o;
    o["level"] = L >= DiagnosticsEngine::Error ? "error" : "warning";
    o["msg"] = msg.str().str();
    o["id"] = (int64_t)Info.getID();
    if (Info.hasSourceManager() && Info.getLocation().isValid()) {
      const SourceManager &SM = Info.getSourceManager();
      PresumedLoc P = SM.getPresumedLoc(SM.getExpansionLoc(Info.getLocation()));
      if (P.isValid()) {
        o["file"] = std::string(P.getFilename());
        o["line"] = (int64_t)P.getLine();
      }
    }
    diags.push_back(std::move(o));
  }
};

static DiagCollector *TheDiags = nullptr;

class Emitter {
public:
  ASTContext &Ctx;
  const SourceManager &SM;
  PrintingPolicy PP;
  std::string MainFile;

  Emitter(ASTContext &C) : Ctx(C), SM(C.getSourceManager()), PP(C.getLangOpts()) {
    PP.SuppressTagKeyword = true;
    PP.Bool = true;
    PP.SuppressUnwrittenScope = true;
    PP.FullyQualifiedName = true;
    PP.PrintCanonicalTypes = true;
  }

  std::string fileOf(SourceLocation L) {
    if (L.isInvalid())
      return "";
    PresumedLoc P = SM.getPresumedLoc(SM.getExpansionLoc(L));
    if (!P.isValid())
      return "";
    return P.getFilename();
  }
  unsigned lineOf(SourceLocation L) {
    if (L.isInvalid())
      return 0;
    return SM.getExpansionLineNumber(L);
  }
  unsigned colOf(SourceLocation L) {
    if (L.isInvalid())
      return 0;
    return SM.getExpansionColumnNumber(L);
  }
  bool underRoots(const std::string &f) {
    for (auto &r : Roots)
      if (f.compare(0, r.size(), r) == 0)
        return true;
    return false;
  }
  std::string normPath(std::string f) {
    // collapse "/x/../" sequences so /repo/src/../include/... == /repo/include/...
    for (;;) {
      size_t p = f.find("/../");
      if (p == std::string::npos || p == 0)
        break;
      size_t q = f.rfind('/', p - 1);
      if (q == std::string::npos)
        break;
      f = f.substr(0, q) + f.substr(p + 3);
    }
    return f;
  }

  std::string typeStr(QualType T) {
    if (T.isNull())
      return "";
    return T.getAsString(PP);
  }

  std::string declId(const Decl *D) {
    if (!D)
      return "";
    return llvm::utostr((uint64_t)(uintptr_t)D->getCanonicalDecl(), false);
  }

  // qualified name with template arguments of enclosing specialisations
  std::string tname(const NamedDecl *D) {
    std::string s;
    llvm::raw_string_ostream os(s);
    D->getNameForDiagnostic(os, PP, true);
    os.flush();
    // getNameForDiagnostic only appends the decl's own template args; build
    // the qualifier by hand so enclosing specialisations are visible too.
    return s;
  }

  std::string qualWithArgs(const DeclContext *DC) {
    std::vector<std::string> parts;
    while (DC && !DC->isTranslationUnit()) {
      if (auto *ND = dyn_cast<NamedDecl>(DC)) {
        std::string s;
        if (auto *Spec = dyn_cast<ClassTemplateSpecializationDecl>(DC)) {
          llvm::raw_string_ostream os(s);
          os << Spec->getName();
          printTemplateArgumentList(os, Spec->getTemplateArgs().asArray(), PP);
          os.flush();
        } else if (auto *NS = dyn_cast<NamespaceDecl>(DC)) {
          s = NS->isAnonymousNamespace() ? "(anon)" : NS->getNameAsString();
        } else if (auto *FD = dyn_cast<FunctionDecl>(DC)) {
          s = FD->getNameAsString();
        } else {
          s = ND->getNameAsString();
        }
        if (!s.empty())
          parts.push_back(s);
      }
      DC = DC->getParent();
    }
    std::string r;
    for (auto it = parts.rbegin(); it != parts.rend(); ++it) {
      if (!r.empty())
        r += "::";
      r += *it;
    }
    return r;
  }

  std::string funcTName(const FunctionDecl *FD) {
    std::string q = qualWithArgs(FD->getDeclContext());
    std::string s;
    llvm::raw_string_ostream os(s);
    os << FD->getNameAsString();
    if (const TemplateArgumentList *TA = FD->getTemplateSpecializationArgs())
      printTemplateArgumentList(os, TA->asArray(), PP);
    os.flush();
    return q.empty() ? s : q + "::" + s;
  }

  std::string funcSig(const FunctionDecl *FD) {
    std::string s = funcTName(FD) + "(";
    bool first = true;
    for (const ParmVarDecl *P : FD->parameters()) {
      if (!first)
        s += ", ";
      first = false;
      s += typeStr(P->getType());
    }
    s += ")";
    if (auto *MD = dyn_cast<CXXMethodDecl>(FD))
      if (MD->isConst())
        s += " const";
    return s;
  }

  std::string recordTName(const RecordDecl *RD) {
    std::string q = qualWithArgs(RD->getDeclContext());
    std::string s;
    if (auto *Spec = dyn_cast<ClassTemplateSpecializationDecl>(RD)) {
      llvm::raw_string_ostream os(s);
      os << Spec->getName();
      printTemplateArgumentList(os, Spec->getTemplateArgs().asArray(), PP);
      os.flush();
    } else
      s = RD->getNameAsString();
    return q.empty() ? s : q + "::" + s;
  }

  // ---------------------------------------------------------------- functions

  struct FnState {
    std::map<const Stmt *, int> ids;
    json::Array nodes;
    int next = 0;
  };

  std::string macroOf(SourceLocation L) {
    if (!L.isMacroID())
      return "";
    return Lexer::getImmediateMacroName(L, SM, Ctx.getLangOpts()).str();
  }

  json::Value refOf(const ValueDecl *VD) {
    json::Object r;
    r["id"] = declId(VD);
    r["n"] = VD->getNameAsString();
    std::string dk = "other";
    if (isa<ParmVarDecl>(VD))
      dk = "parm";
    else if (auto *V = dyn_cast<VarDecl>(VD)) {
      if (V->isLocalVarDecl())
        dk = V->isStaticLocal() ? "static_local" : "local";
      else if (V->isStaticDataMember())
        dk = "static_member";
      else
        dk = "global";
    } else if (isa<FieldDecl>(VD))
      dk = "field";
    else if (isa<FunctionDecl>(VD))
      dk = "func";
    else if (isa<EnumConstantDecl>(VD))
      dk = "enumconst";
    r["dk"] = dk;
    r["t"] = typeStr(VD->getType());
    if (dk == "global" || dk == "static_member" || dk == "func" || dk == "enumconst") {
      if (auto *FD = dyn_cast<FunctionDecl>(VD)) {
        r["q"] = FD->getQualifiedNameAsString();
        r["sig"] = funcSig(FD);
      } else
        r["q"] = VD->getQualifiedNameAsString();
    }
    if (auto *EC = dyn_cast<EnumConstantDecl>(VD))
      r["v"] = (int64_t)EC->getInitVal().getExtValue();
    return std::move(r);
  }

  void calleeInfo(json::Object &o, const FunctionDecl *FD) {
    if (!FD)
      return;
    o["callee"] = FD->getQualifiedNameAsString();
    o["csig"] = funcSig(FD);
    if (auto *MD = dyn_cast<CXXMethodDecl>(FD)) {
      o["ccls"] = recordTName(MD->getParent());
      o["cclsq"] = MD->getParent()->getQualifiedNameAsString();
      if (isa<CXXDestructorDecl>(MD))
        o["cdtor"] = true;
      if (MD->isVirtual())
        o["cvirt"] = true;
    }
    if (FD->getBuiltinID())
      o["builtin"] = true;
  }

  int emitStmt(FnState &S, const Stmt *St) {
    if (!St)
      return -1;
    auto it = S.ids.find(St);
    if (it != S.ids.end())
      return it->second;
    int id = S.next++;
    S.ids[St] = id;
    S.nodes.push_back(nullptr); // placeholder, filled below
    json::Object o;
    o["i"] = id;
    o["k"] = St->getStmtClassName();
    SourceLocation B = St->getBeginLoc();
    o["l"] = (int64_t)lineOf(B);
    o["col"] = (int64_t)colOf(B);
    {
      std::string f = normPath(fileOf(B));
      if (!f.empty())
        o["f"] = f;
    }
    std::string mac = macroOf(B);
    if (!mac.empty())
      o["mac"] = mac;

    json::Array kids;
    if (auto *E = dyn_cast<Expr>(St)) {
      o["t"] = typeStr(E->getType());
      if (E->isLValue())
        o["lv"] = true;
      // constant value, cheap attempt for scalar rvalues
      if (!E->isValueDependent() && !E->isTypeDependent() && E->getType()->isIntegralOrEnumerationType() &&
          !isa<InitListExpr>(E)) {
        Expr::EvalResult R;
        if (E->isPRValue() && E->EvaluateAsInt(R, Ctx, Expr::SE_NoSideEffects)) {
          if (R.Val.isInt()) {
            llvm::APSInt V = R.Val.getInt();
            if (V.isSigned() ? V.isSignedIntN(63) : V.isIntN(63))
              o["cv"] = (int64_t)V.getExtValue();
          }
        }
      }
    }

    if (auto *DRE = dyn_cast<DeclRefExpr>(St)) {
      o["ref"] = refOf(DRE->getDecl());
    } else if (auto *ME = dyn_cast<MemberExpr>(St)) {
      const ValueDecl *MD = ME->getMemberDecl();
      o["m"] = MD->getNameAsString();
      o["arrow"] = ME->isArrow();
      o["mid"] = declId(MD);
      if (auto *FD = dyn_cast<FieldDecl>(MD)) {
        o["mk"] = "field";
        o["mcls"] = recordTName(FD->getParent());
        o["mclsq"] = FD->getParent()->getQualifiedNameAsString();
        o["midx"] = (int64_t)FD->getFieldIndex();
      } else if (auto *M = dyn_cast<CXXMethodDecl>(MD)) {
        o["mk"] = "method";
        o["mcls"] = recordTName(M->getParent());
        o["mclsq"] = M->getParent()->getQualifiedNameAsString();
      } else if (auto *V = dyn_cast<VarDecl>(MD)) {
        o["mk"] = "static";
        o["mq"] = V->getQualifiedNameAsString();
      } else
        o["mk"] = "other";
    } else if (auto *BO = dyn_cast<BinaryOperator>(St)) {
      o["op"] = BO->getOpcodeStr().str();
    } else if (auto *UO = dyn_cast<UnaryOperator>(St)) {
      o["op"] = UnaryOperator::getOpcodeStr(UO->getOpcode()).str();
      if (UO->isPostfix())
        o["post"] = true;
    } else if (auto *IL = dyn_cast<IntegerLiteral>(St)) {
      o["v"] = (int64_t)IL->getValue().getLimitedValue(INT64_MAX);
    } else if (auto *CL = dyn_cast<CharacterLiteral>(St)) {
      o["v"] = (int64_t)CL->getValue();
    } else if (auto *BL = dyn_cast<CXXBoolLiteralExpr>(St)) {
      o["v"] = (int64_t)BL->getValue();
    } else if (auto *SL = dyn_cast<clang::StringLiteral>(St)) {
      if (SL->getCharByteWidth() == 1) {
        json::Array bytes;
        for (unsigned char c : SL->getBytes())
          bytes.push_back((int64_t)c);
        o["bytes"] = std::move(bytes);
      }
      o["len"] = (int64_t)SL->getLength();
    } else if (auto *CE = dyn_cast<CastExpr>(St)) {
      o["ck"] = CE->getCastKindName();
      if (auto *CD = dyn_cast_or_null<CXXConversionDecl>(CE->getConversionFunction()))
        o["conv"] = funcSig(CD);
    } else if (auto *UE = dyn_cast<UnaryExprOrTypeTraitExpr>(St)) {
      o["op"] = UE->getKind() == UETT_SizeOf ? "sizeof" : "trait";
      o["argt"] = typeStr(UE->getTypeOfArgument());
    } else if (auto *NE = dyn_cast<CXXNewExpr>(St)) {
      o["arr"] = NE->isArray();
      o["placement"] = (int64_t)NE->getNumPlacementArgs();
      o["alloct"] = typeStr(NE->getAllocatedType());
      if (NE->getOperatorNew())
        o["opnew"] = NE->getOperatorNew()->getQualifiedNameAsString();
      if (auto *CC = NE->getConstructExpr())
        if (CC->getConstructor())
          o["ctor"] = funcSig(CC->getConstructor());
      {
        json::Array pl;
        for (unsigned k = 0; k < NE->getNumPlacementArgs(); ++k)
          pl.push_back(emitStmt(S, NE->getPlacementArg(k)));
        o["place"] = std::move(pl);
        if (NE->isArray() && NE->getArraySize() && *NE->getArraySize())
          o["asize"] = emitStmt(S, *NE->getArraySize());
        if (NE->getInitializer())
          o["init"] = emitStmt(S, NE->getInitializer());
      }
    } else if (auto *DE = dyn_cast<CXXDeleteExpr>(St)) {
      o["arr"] = DE->isArrayForm();
      o["delt"] = typeStr(DE->getDestroyedType());
    } else if (auto *CC = dyn_cast<CXXConstructExpr>(St)) {
      calleeInfo(o, CC->getConstructor());
      if (CC->getConstructor()->isCopyConstructor())
        o["copyctor"] = true;
      if (CC->isElidable())
        o["elidable"] = true;
    } else if (auto *PD = dyn_cast<CXXPseudoDestructorExpr>(St)) {
      o["destroyed"] = typeStr(PD->getDestroyedType());
      o["arrow"] = PD->isArrow();
    } else if (auto *Call = dyn_cast<CallExpr>(St)) {
      calleeInfo(o, Call->getDirectCallee());
      if (auto *OC = dyn_cast<CXXOperatorCallExpr>(St))
        o["oop"] = getOperatorSpelling(OC->getOperator());
    } else if (auto *DS = dyn_cast<DeclStmt>(St)) {
      json::Array decls;
      for (const Decl *D : DS->decls()) {
        if (auto *VD = dyn_cast<VarDecl>(D)) {
          json::Object d;
          d["id"] = declId(VD);
          d["n"] = VD->getNameAsString();
          d["t"] = typeStr(VD->getType());
          if (VD->isStaticLocal())
            d["static"] = true;
          decls.push_back(std::move(d));
        }
      }
      o["decls"] = std::move(decls);
    } else if (auto *CS = dyn_cast<CaseStmt>(St)) {
      Expr::EvalResult R;
      if (CS->getLHS() && CS->getLHS()->EvaluateAsInt(R, Ctx))
        o["v"] = (int64_t)R.Val.getInt().getExtValue();
      if (CS->getRHS() && CS->getRHS()->EvaluateAsInt(R, Ctx))
        o["vhi"] = (int64_t)R.Val.getInt().getExtValue();
    } else if (auto *LS = dyn_cast<LabelStmt>(St)) {
      o["label"] = LS->getName();
    } else if (auto *GS = dyn_cast<GotoStmt>(St)) {
      o["label"] = GS->getLabel()->getNameAsString();
    } else if (auto *TE = dyn_cast<CXXTemporaryObjectExpr>(St)) {
      (void)TE;
    } else if (auto *SE = dyn_cast<CXXScalarValueInitExpr>(St)) {
      (void)SE;
    }

    // children, in source order
    if (auto *DS = dyn_cast<DeclStmt>(St)) {
      // children() of a DeclStmt yields initialisers; record which decl each belongs to
      json::Array decls = std::move(*o["decls"].getAsArray());
      size_t k = 0;
      for (const Decl *D : DS->decls()) {
        if (auto *VD = dyn_cast<VarDecl>(D)) {
          if (VD->hasInit()) {
            int c = emitStmt(S, VD->getInit());
            kids.push_back(c);
            (*decls[k].getAsObject())["init"] = c;
          }
          ++k;
        }
      }
      o["decls"] = std::move(decls);
    } else if (auto *LE = dyn_cast<LambdaExpr>(St)) {
      (void)LE; // bodies of lambdas are not descended into (none in libnstd)
    } else {
      for (const Stmt *C : St->children())
        kids.push_back(emitStmt(S, C));
    }
    o["c"] = std::move(kids);
    S.nodes[id] = std::move(o);
    return id;
  }

  json::Value emitCFG(FnState &S, const FunctionDecl *FD, const Stmt *Body) {
    CFG::BuildOptions BO;
    BO.setAllAlwaysAdd();
    BO.AddImplicitDtors = true;
    BO.AddInitializers = true;
    BO.AddTemporaryDtors = false;
    BO.AddEHEdges = false;
    BO.PruneTriviallyFalseEdges = true;
    std::unique_ptr<CFG> G = CFG::buildCFG(FD, const_cast<Stmt *>(Body), &Ctx, BO);
    if (!G)
      return nullptr;
    json::Object g;
    g["entry"] = (int64_t)G->getEntry().getBlockID();
    g["exit"] = (int64_t)G->getExit().getBlockID();
    json::Array blocks;
    for (const CFGBlock *B : *G) {
      json::Object b;
      b["id"] = (int64_t)B->getBlockID();
      json::Array el;
      for (const CFGElement &E : *B) {
        switch (E.getKind()) {
        case CFGElement::Statement:
        case CFGElement::Constructor:
        case CFGElement::CXXRecordTypedCall: {
          const Stmt *St = E.castAs<CFGStmt>().getStmt();
          auto it = S.ids.find(St);
          if (it == S.ids.end()) {
            // synthetic DeclStmt (one per declarator) or not in tree: emit it now
            int id = emitStmt(S, St);
            json::Object x;
            x["s"] = id;
            x["synthetic"] = true;
            el.push_back(std::move(x));
          } else
            el.push_back((int64_t)it->second);
          break;
        }
        case CFGElement::Initializer: {
          const CXXCtorInitializer *I = E.castAs<CFGInitializer>().getInitializer();
          json::Object x;
          x["k"] = "init";
          if (I->isAnyMemberInitializer())
            x["field"] = I->getAnyMember()->getNameAsString();
          else if (I->isBaseInitializer())
            x["base"] = typeStr(QualType(I->getBaseClass(), 0));
          x["e"] = emitStmt(S, I->getInit());
          el.push_back(std::move(x));
          break;
        }
        case CFGElement::AutomaticObjectDtor: {
          auto D = E.castAs<CFGAutomaticObjDtor>();
          json::Object x;
          x["k"] = "autodtor";
          x["var"] = declId(D.getVarDecl());
          x["n"] = D.getVarDecl()->getNameAsString();
          x["t"] = typeStr(D.getVarDecl()->getType());
          if (const CXXDestructorDecl *DD = D.getDestructorDecl(Ctx))
            x["csig"] = funcSig(DD);
          if (D.getTriggerStmt())
            x["l"] = (int64_t)lineOf(D.getTriggerStmt()->getEndLoc());
          el.push_back(std::move(x));
          break;
        }
        case CFGElement::MemberDtor: {
          auto D = E.castAs<CFGMemberDtor>();
          json::Object x;
          x["k"] = "memberdtor";
          x["field"] = D.getFieldDecl()->getNameAsString();
          x["t"] = typeStr(D.getFieldDecl()->getType());
          el.push_back(std::move(x));
          break;
        }
        case CFGElement::BaseDtor: {
          auto D = E.castAs<CFGBaseDtor>();
          json::Object x;
          x["k"] = "basedtor";
          x["t"] = typeStr(D.getBaseSpecifier()->getType());
          el.push_back(std::move(x));
          break;
        }
        default: {
          json::Object x;
          x["k"] = "other";
          el.push_back(std::move(x));
        }
        }
      }
      b["el"] = std::move(el);
      if (const Stmt *T = B->getTerminatorStmt()) {
        b["term"] = emitStmt(S, T);
        b["tk"] = T->getStmtClassName();
      }
      if (const Stmt *C = B->getTerminatorCondition(false)) {
        auto it = S.ids.find(C);
        if (it != S.ids.end())
          b["cond"] = (int64_t)it->second;
      }
      if (const Stmt *L = B->getLabel())
        b["label"] = emitStmt(S, L);
      json::Array succ;
      for (auto I = B->succ_begin(); I != B->succ_end(); ++I) {
        if (const CFGBlock *SB = I->getReachableBlock())
          succ.push_back((int64_t)SB->getBlockID());
        else
          succ.push_back(nullptr);
      }
      b["succ"] = std::move(succ);
      if (B->hasNoReturnElement())
        b["noreturn"] = true;
      blocks.push_back(std::move(b));
    }
    g["blocks"] = std::move(blocks);
    return std::move(g);
  }

  std::set<std::string> seenFns;
  json::Array functions;
  json::Array globals;
  std::set<std::string> seenGlobals;

  struct LitCollector : public RecursiveASTVisitor<LitCollector> {
    json::Array strings;
    bool VisitStringLiteral(clang::StringLiteral *SL) {
      if (SL->getCharByteWidth() == 1) {
        json::Array bytes;
        for (unsigned char c : SL->getBytes())
          bytes.push_back((int64_t)c);
        strings.push_back(std::move(bytes));
      }
      return true;
    }
  };

  void handleGlobal(const VarDecl *VD) {
    if (!VD->hasGlobalStorage() || VD->isStaticLocal() || !VD->hasInit() || VD->getInit()->isValueDependent())
      return;
    if (VD->isInvalidDecl())
      return;
    std::string f = normPath(fileOf(VD->getLocation()));
    if (!underRoots(f))
      return;
    std::string qn = VD->getQualifiedNameAsString();
    if (!seenGlobals.insert(qn).second)
      return;
    json::Object g;
    g["name"] = qn;
    g["t"] = typeStr(VD->getType());
    g["file"] = f;
    g["line"] = (int64_t)lineOf(VD->getLocation());
    if (const auto *AT = Ctx.getAsConstantArrayType(VD->getType()))
      g["array_size"] = (int64_t)AT->getSize().getLimitedValue();
    LitCollector LC;
    LC.TraverseStmt(const_cast<Expr *>(VD->getInit()));
    g["strings"] = std::move(LC.strings);
    if (auto *IL = dyn_cast<InitListExpr>(VD->getInit()->IgnoreImplicit()))
      g["init_count"] = (int64_t)IL->getNumInits();
    globals.push_back(std::move(g));
  }
  json::Array records;
  std::set<std::string> seenRecs;

  bool isInstantiation(const FunctionDecl *FD) {
    if (FD->isTemplateInstantiation())
      return true;
    const DeclContext *DC = FD->getDeclContext();
    while (DC) {
      if (isa<ClassTemplateSpecializationDecl>(DC))
        return true;
      DC = DC->getParent();
    }
    return false;
  }

  void handleFunction(const FunctionDecl *FD) {
    if (!FD->doesThisDeclarationHaveABody())
      return;
    if (FD->isDependentContext())
      return;
    if (FD->isInvalidDecl())
      return;
    std::string f = normPath(fileOf(FD->getLocation()));
    if (!underRoots(f))
      return;
    bool inMain = SM.isInMainFile(SM.getExpansionLoc(FD->getLocation()));
    if (!inMain && !Headers && !isInstantiation(FD))
      return;
    std::string sig = funcSig(FD);
    if (!seenFns.insert(sig).second)
      return;
    const Stmt *Body = FD->getBody();
    if (!Body)
      return;

    json::Object fo;
    fo["sig"] = sig;
    fo["name"] = FD->getQualifiedNameAsString();
    fo["tname"] = funcTName(FD);
    fo["short"] = FD->getNameAsString();
    fo["file"] = f;
    fo["line"] = (int64_t)lineOf(FD->getLocation());
    fo["endline"] = (int64_t)lineOf(Body->getEndLoc());
    fo["ret"] = typeStr(FD->getReturnType());
    fo["inst"] = isInstantiation(FD);
    if (auto *MD = dyn_cast<CXXMethodDecl>(FD)) {
      fo["cls"] = recordTName(MD->getParent());
      fo["clsq"] = MD->getParent()->getQualifiedNameAsString();
      {
        json::Array targs;
        const DeclContext *DC = MD->getParent();
        while (DC) {
          if (auto *Spec = dyn_cast<ClassTemplateSpecializationDecl>(DC)) {
            for (const TemplateArgument &TA : Spec->getTemplateArgs().asArray()) {
              std::string s;
              llvm::raw_string_ostream os(s);
              TA.print(PP, os, true);
              os.flush();
              targs.push_back(s);
            }
            break;
          }
          DC = DC->getParent();
        }
        fo["targs"] = std::move(targs);
      }
      fo["const"] = MD->isConst();
      fo["static"] = MD->isStatic();
      fo["access"] = (int64_t)MD->getAccess();
      {
        // a public member of a nested class that is itself private/protected in its enclosing class is not callable from outside
        int64_t oa = 0;
        for (const DeclContext *D2 = MD->getParent(); D2 && isa<CXXRecordDecl>(D2); D2 = D2->getParent()) {
          auto *RD2 = cast<CXXRecordDecl>(D2);
          if (isa<CXXRecordDecl>(RD2->getDeclContext())) {
            auto a2 = RD2->getAccess();
            if (a2 == AS_private || a2 == AS_protected)
              oa = (int64_t)a2;
          }
        }
        fo["outer_access"] = oa;
      }
      if (isa<CXXConstructorDecl>(MD)) {
        fo["kind"] = "ctor";
        if (cast<CXXConstructorDecl>(MD)->isCopyConstructor())
          fo["copyctor"] = true;
      } else if (isa<CXXDestructorDecl>(MD))
        fo["kind"] = "dtor";
      else if (MD->isCopyAssignmentOperator())
        fo["kind"] = "copyassign";
      else if (isa<CXXConversionDecl>(MD))
        fo["kind"] = "conv";
      else
        fo["kind"] = "method";
    } else
      fo["kind"] = "func";
    json::Array params;
    for (const ParmVarDecl *P : FD->parameters()) {
      json::Object p;
      p["id"] = declId(P);
      p["n"] = P->getNameAsString();
      p["t"] = typeStr(P->getType());
      params.push_back(std::move(p));
    }
    fo["params"] = std::move(params);

    FnState S;
    // constructor initialisers first so they are part of the tree
    json::Array inits;
    if (auto *CD = dyn_cast<CXXConstructorDecl>(FD)) {
      for (const CXXCtorInitializer *I : CD->inits()) {
        json::Object io;
        if (I->isAnyMemberInitializer())
          io["field"] = I->getAnyMember()->getNameAsString();
        else if (I->isBaseInitializer())
          io["base"] = typeStr(QualType(I->getBaseClass(), 0));
        io["written"] = I->isWritten();
        io["e"] = emitStmt(S, I->getInit());
        inits.push_back(std::move(io));
      }
    }
    fo["inits"] = std::move(inits);
    fo["body"] = emitStmt(S, Body);
    fo["cfg"] = emitCFG(S, FD, Body);
    fo["nodes"] = std::move(S.nodes);
    functions.push_back(std::move(fo));
  }

  static const char *smState(const CXXMethodDecl *M) {
    if (!M)
      return "none";
    if (M->isDeleted())
      return "deleted";
    if (M->isDefaulted())
      return M->isImplicit() ? "implicit" : "defaulted";
    if (M->isImplicit())
      return "implicit";
    if (!M->isDefined() && !M->isInlined() && M->getAccess() == AS_private)
      return "private_undefined";
    if (!M->isDefined())
      return M->getAccess() == AS_private ? "private_undefined" : "declared";
    return "user";
  }

  void handleRecord(const CXXRecordDecl *RD) {
    if (!RD->isCompleteDefinition() || RD->isDependentContext() || RD->isInvalidDecl())
      return;
    if (RD->isLambda() || RD->isInjectedClassName())
      return;
    std::string f = normPath(fileOf(RD->getLocation()));
    if (!underRoots(f))
      return;
    std::string tn = recordTName(RD);
    if (!seenRecs.insert(tn).second)
      return;
    json::Object ro;
    ro["tname"] = tn;
    ro["name"] = RD->getQualifiedNameAsString();
    ro["file"] = f;
    ro["line"] = (int64_t)lineOf(RD->getLocation());
    ro["inst"] = isa<ClassTemplateSpecializationDecl>(RD) ||
                 (RD->getDeclContext() && [&] {
                   const DeclContext *DC = RD->getDeclContext();
                   while (DC) {
                     if (isa<ClassTemplateSpecializationDecl>(DC))
                       return true;
                     DC = DC->getParent();
                   }
                   return false;
                 }());
    ro["size"] = (int64_t)(RD->isInvalidDecl() ? 0 : Ctx.getTypeSizeInChars(QualType(RD->getTypeForDecl(), 0)).getQuantity());
    json::Array fields;
    for (const FieldDecl *F : RD->fields()) {
      json::Object fo;
      fo["n"] = F->getNameAsString();
      fo["t"] = typeStr(F->getType());
      fo["idx"] = (int64_t)F->getFieldIndex();
      fo["off"] = (int64_t)(Ctx.getFieldOffset(F) / 8);
      fo["access"] = (int64_t)F->getAccess();
      fields.push_back(std::move(fo));
    }
    ro["fields"] = std::move(fields);
    json::Array bases;
    for (const CXXBaseSpecifier &B : RD->bases())
      bases.push_back(typeStr(B.getType()));
    ro["bases"] = std::move(bases);

    const CXXMethodDecl *copyAssign = nullptr;
    const CXXConstructorDecl *copyCtor = nullptr;
    json::Array methods;
    for (const Decl *D : RD->decls()) {
      const CXXMethodDecl *M = dyn_cast<CXXMethodDecl>(D);
      if (!M)
        continue;
      if (auto *C = dyn_cast<CXXConstructorDecl>(M))
        if (C->isCopyConstructor())
          copyCtor = C;
      if (M->isCopyAssignmentOperator())
        copyAssign = M;
      if (M->isImplicit())
        continue;
      json::Object mo;
      mo["n"] = M->getNameAsString();
      mo["sig"] = funcSig(M);
      mo["access"] = (int64_t)M->getAccess();
      mo["const"] = M->isConst();
      mo["defined"] = M->isDefined();
      mo["deleted"] = M->isDeleted();
      mo["ret"] = typeStr(M->getReturnType());
      mo["line"] = (int64_t)lineOf(M->getLocation());
      methods.push_back(std::move(mo));
    }
    ro["methods"] = std::move(methods);
    json::Object sm;
    sm["dtor"] = RD->getDestructor() ? smState(RD->getDestructor()) : (RD->hasUserDeclaredDestructor() ? "user" : "implicit");
    sm["copyctor"] = copyCtor ? smState(copyCtor) : (RD->hasUserDeclaredCopyConstructor() ? "user" : "implicit");
    sm["copyassign"] = copyAssign ? smState(copyAssign) : (RD->hasUserDeclaredCopyAssignment() ? "user" : "implicit");
    sm["copyctor_usable"] = !RD->defaultedCopyConstructorIsDeleted() || (copyCtor && !copyCtor->isDeleted());
    ro["special"] = std::move(sm);
    records.push_back(std::move(ro));
  }
};

class Visitor : public RecursiveASTVisitor<Visitor> {
public:
  Emitter &E;
  explicit Visitor(Emitter &E) : E(E) {}
  bool shouldVisitTemplateInstantiations() const { return true; }
  bool shouldVisitImplicitCode() const { return false; }
  bool VisitFunctionDecl(FunctionDecl *FD) {
    E.handleFunction(FD);
    return true;
  }
  bool VisitCXXRecordDecl(CXXRecordDecl *RD) {
    E.handleRecord(RD);
    return true;
  }
  bool VisitVarDecl(VarDecl *VD) {
    E.handleGlobal(VD);
    return true;
  }
};

class Consumer : public ASTConsumer {
public:
  void HandleTranslationUnit(ASTContext &Ctx) override {
    Emitter E(Ctx);
    Visitor V(E);
    V.TraverseDecl(Ctx.getTranslationUnitDecl());
    json::Object top;
    const SourceManager &SM = Ctx.getSourceManager();
    if (auto FE = SM.getFileEntryForID(SM.getMainFileID()))
      top["main"] = FE->getName().str();
    top["functions"] = std::move(E.functions);
    top["records"] = std::move(E.records);
    top["globals"] = std::move(E.globals);
    if (TheDiags)
      top["diags"] = std::move(TheDiags->diags);
    std::error_code EC;
    llvm::raw_fd_ostream os(OutFile, EC);
    if (EC) {
      llvm::errs() << "cannot write " << OutFile << ": " << EC.message() << "\n";
      return;
    }
    os << json::Value(std::move(top));
    os << "\n";
  }
};

class Action : public ASTFrontendAction {
public:
  std::unique_ptr<ASTConsumer> CreateASTConsumer(CompilerInstance &CI, StringRef) override {
    return std::make_unique<Consumer>();
  }
};

} // namespace

int main(int argc, const char **argv) {
  auto Exp = CommonOptionsParser::create(argc, argv, Cat);
  if (!Exp) {
    llvm::errs() << Exp.takeError();
    return 2;
  }
  CommonOptionsParser &OP = Exp.get();
  ClangTool Tool(OP.getCompilations(), OP.getSourcePathList());
  DiagCollector DC;
  TheDiags = &DC;
  Tool.setDiagnosticConsumer(&DC);
  int rc = Tool.run(newFrontendActionFactory<Action>().get());
  return rc ? 3 : 0; // 3 = unit had errors (output is still written)
}
