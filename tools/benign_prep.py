#!/usr/bin/env python3
"""tools/benign_prep.py <suffix> <focus.json> : create the scratch worktrees /tmp/benign/Cxx<suffix> and the sub-agent prompts
/tmp/benign/prompts/Cxx<suffix>.txt from selftest/BENIGN_PROMPT_TEMPLATE.txt; focus.json maps property id -> list of functions that at
least three of the four edits should touch"""
import json, os, subprocess, sys
suf, focus = sys.argv[1], json.load(open(sys.argv[2]))
tmpl = open("/verif/selftest/BENIGN_PROMPT_TEMPLATE.txt").read()
props = [json.loads(l) for l in open("/verif/properties.jsonl") if l.strip()]
os.makedirs("/tmp/benign/prompts", exist_ok=True)
for p in props:
    pid = p["id"]
    if pid == "C17":
        continue
    wt = "/tmp/benign/%s%s" % (pid, suf)
    if not os.path.isdir(wt):
        subprocess.run(["git", "-C", "/repo", "worktree", "add", "--detach", wt], check=True, capture_output=True)
    fo = focus.get(pid)
    ft = (" At least three of the four edits should be in: %s (POSIX code paths only where the file has #ifdef _WIN32).\n" % fo) if fo else ""
    open("/tmp/benign/prompts/%s%s.txt" % (pid, suf), "w").write(tmpl.format(wt=wt, prop=json.dumps(p, indent=1), pid=pid, focus=ft))
    print(pid + suf)
