#!/usr/bin/env python3
"""tools/seed_round.py <suffix e.g. i> : create the scratch worktrees /tmp/seed/Cxx<suffix> and the sub-agent prompts
/tmp/seed/prompts/Cxx<suffix>.txt (template + the list of earlier seeds of that property, so that a new round looks elsewhere)"""
import json, os, subprocess, sys, glob
suf = sys.argv[1]
tmpl = open("/verif/seeded/AGENT_PROMPT_TEMPLATE.txt").read()
props = [json.loads(l) for l in open("/verif/properties.jsonl") if l.strip()]
na = set(json.load(open("/verif/MANIFEST.json")).get("not_applicable_ids", [])) if False else {"C17"}
os.makedirs("/tmp/seed/prompts", exist_ok=True)
EARLIER = ("\n\nEarlier rounds already produced the following seeded defects for this property. Produce something DIFFERENT: first list for "
           "yourself the clauses of the property statement and ALL functions in the anchored files (not only the ones named), strike out those "
           "the earlier seeds used, and pick a clause/function/mechanism that is still untouched - prefer a function no earlier seed touched, "
           "and a defect that consists of two cooperating edits or of a changed constant/comparison rather than of a deleted statement "
           "(do not re-use these ideas):\n")
for p in props:
    pid = p["id"]
    if pid in na:
        continue
    wt = "/tmp/seed/%s%s" % (pid, suf)
    if not os.path.isdir(wt):
        subprocess.run(["git", "-C", "/repo", "worktree", "add", "--detach", wt], check=True, capture_output=True)
    text = tmpl.format(wt=wt, prop=json.dumps(p, indent=1), pid=pid)
    earlier = []
    for d in sorted(glob.glob("/verif/seeded/%s?" % pid)):
        try:
            m = json.load(open(d + "/meta.json"))
            earlier.append("  - " + " ".join(str(m.get("summary", "")).split())[:200] + "...")
        except Exception:
            pass
    if earlier:
        text += EARLIER + "\n".join(earlier) + "\n"
    open("/tmp/seed/prompts/%s%s.txt" % (pid, suf), "w").write(text)
    print(pid + suf, len(earlier), "earlier seeds")
