"""Virtual inlining of helper functions the rule set has never seen.

The rules are written against the functions craflin/libnstd has today (engine/known_functions.json, regenerated with
tools/gen_known_functions.py whenever /repo is changed on purpose).  A maintainer who extracts a few statements of a known function
into a new private / file-local helper does not change behaviour, but every path rule would lose sight of those statements.  So a
function whose qualified name is NOT in that list, that is private/protected or a free function of a .cpp file, small and
non-recursive, is spliced into the AST + CFG of each caller (call on `this`, static or free call) before the rules run:

  * the helper's nodes and blocks are copied (ids shifted), its parameters become locals initialised with the argument
    expressions at the call site (so the usual single-definition expansion of locals applies),
  * a call that is a full statement: the block is split at the call, helper exit continues behind it,
  * a call that is the whole branch condition (`if(helper())`, `if(!helper())`): every `return <const>` of the helper is wired to
    the matching branch successor, every `return <expr>` becomes a branch on <expr>,
  * other value uses are left alone (the call stays; nothing is hidden).

Helpers all of whose call sites were spliced are not analysed stand-alone.  Nothing of the program is executed."""
import copy
import json
import os
import re

HERE = os.path.dirname(os.path.abspath(__file__))
KNOWN_FILE = os.path.join(HERE, "known_functions.json")
KNOWN_REFS_FILE = os.path.join(HERE, "known_ref_locals.json")
TRANSPARENT = {"ImplicitCastExpr", "ParenExpr", "ExprWithCleanups", "MaterializeTemporaryExpr", "CXXBindTemporaryExpr", "ConstantExpr"}
MAX_NODES = 600


def strip_targs(s):
    out, depth = [], 0
    for ch in s:
        if ch == "<":
            depth += 1
        elif ch == ">":
            depth -= 1
        elif depth == 0:
            out.append(ch)
    return "".join(out)


def load_known():
    try:
        return set(json.load(open(KNOWN_FILE)))
    except Exception:
        return None


def _node_id_fields(n):
    """(container, key/index) pairs of every field of node n that holds node ids"""
    out = []
    for k in ("asize", "init"):
        if isinstance(n.get(k), int):
            out.append((n, k))
    for k in ("c", "place"):
        if isinstance(n.get(k), list):
            for j, v in enumerate(n[k]):
                if isinstance(v, int):
                    out.append((n[k], j))
    for d in n.get("decls", []) or []:
        if isinstance(d.get("init"), int):
            out.append((d, "init"))
    return out


def _strip(nodes, i):
    while nodes[i]["k"] in TRANSPARENT and nodes[i]["c"]:
        i = nodes[i]["c"][0]
    return i


def is_helper(d, known):
    if d.get("kind") not in ("method", "func") or not d.get("cfg"):
        return False
    if strip_targs(d["name"]) in known:
        return False
    if d["short"].startswith("operator") or d["short"].startswith("~"):
        return False
    if d["kind"] == "method" and d.get("access", 0) not in (1, 2) and d.get("outer_access", 0) not in (1, 2) and not d["file"].endswith(".cpp"):
        return False      # public member of a class declared in a header: callable by anyone, analysed stand-alone
    if d["kind"] == "func" and not d["file"].endswith(".cpp"):
        return False
    if len(d["nodes"]) > MAX_NODES:
        return False
    if any(n.get("csig") == d["sig"] for n in d["nodes"]):
        return False      # recursive
    for p in d["params"]:
        # parameters that are assigned or whose address is taken keep a separate identity: still fine as locals
        pass
    return True


def _call_object(F, c):
    """'this' for a call on this / a static or free call; the node id of a pure object expression for `obj.helper()`; else None"""
    n = F["nodes"][c]
    if n["k"] == "CallExpr":
        return "this"
    if n["k"] != "CXXMemberCallExpr" or not n["c"]:
        return None
    me = _strip(F["nodes"], n["c"][0])
    m = F["nodes"][me]
    if m["k"] != "MemberExpr" or not m["c"]:
        return None
    o = _strip(F["nodes"], m["c"][0])
    if F["nodes"][o]["k"] == "CXXThisExpr":
        return "this"
    if pure_path(F["nodes"], o):
        return ("ptr", o) if m.get("arrow") else o
    return None


def _call_on_this(F, c):
    return _call_object(F, c) is not None


def clone_subtree(nodes, root):
    """deep copy of the expression subtree rooted at `root` (appended to nodes); returns the new root id"""
    n = copy.deepcopy(nodes[root])
    nid = len(nodes)
    n["i"] = nid
    nodes.append(n)
    for (cont, key) in _node_id_fields(n):
        if cont[key] >= 0:
            cont[key] = clone_subtree(nodes, cont[key])
    return nid


PURE = {"DeclRefExpr", "MemberExpr", "CXXThisExpr", "ImplicitCastExpr", "ParenExpr", "IntegerLiteral", "CXXBoolLiteralExpr",
        "CharacterLiteral", "CXXNullPtrLiteralExpr", "GNUNullExpr", "CStyleCastExpr", "CXXStaticCastExpr"}


def pure_path(nodes, i):
    """an expression without side effects whose value designates the same object whenever it is evaluated in the helper:
    variable / member paths, `*p`, `&x`, literals"""
    n = nodes[i]
    if n["k"] in PURE or (n["k"] == "UnaryOperator" and n.get("op") in ("*", "&")):
        return all(pure_path(nodes, c) for c in n["c"] if c >= 0)
    return False


def _els(b):
    return b["el"]


def _el_id(e):
    if isinstance(e, int):
        return e
    if isinstance(e, dict) and "s" in e:
        return e["s"]
    return None


def splice(F, c, H):
    """inline helper H (raw dict) at call node c of F (raw dict, modified in place).  returns True when done"""
    nodes = F["nodes"]
    cfg = F["cfg"]
    blocks = {b["id"]: b for b in cfg["blocks"]}
    obj = _call_object(F, c)
    if obj is None:
        return False
    loc = None
    for b in cfg["blocks"]:
        for k, e in enumerate(b["el"]):
            if _el_id(e) == c:
                loc = (b, k)
    if loc is None:
        return False
    B, k = loc
    parent = {}
    for n in nodes:
        for (cont, key) in _node_id_fields(n):
            v = cont[key]
            if v >= 0:
                parent.setdefault(v, n["i"])
    # ---- how is the value used?
    p = parent.get(c)
    neg = False
    x = c
    while p is not None and (nodes[p]["k"] in TRANSPARENT or (nodes[p]["k"] == "UnaryOperator" and nodes[p].get("op") == "!")):
        if nodes[p]["k"] == "UnaryOperator":
            neg = not neg
        x = p
        p = parent.get(p)
    cond = B.get("cond")
    as_cond = isinstance(cond, int) and (cond == x or cond == c or _strip(nodes, cond) == c or
                                         (nodes[_strip(nodes, cond)]["k"] == "UnaryOperator" and x == _strip(nodes, cond))) and len(B.get("succ", [])) == 2
    STMT = ("CompoundStmt", "IfStmt", "ForStmt", "WhileStmt", "DoStmt", "LabelStmt", "CaseStmt", "DefaultStmt", "SwitchStmt")
    is_stmt = (p is None or nodes[p]["k"] in STMT) and not as_cond
    as_value = not as_cond and not is_stmt and H.get("ret") != "void"
    if as_cond and H.get("ret") not in ("bool", "_Bool"):
        as_cond, as_value = False, True
    if not (as_cond or is_stmt or as_value):
        return False
    # ---- copy the helper's nodes
    off = len(nodes)
    hn = copy.deepcopy(H["nodes"])
    for n in hn:
        n["i"] += off
        for (cont, key) in _node_id_fields(n):
            if cont[key] >= 0:
                cont[key] += off
        if n["k"] == "DeclRefExpr" and n.get("ref", {}).get("dk") == "parm":
            n["ref"]["dk"] = "local"
        n["inl"] = H["sig"]
    # every splice gets its own identities for the helper's parameters and locals (a helper may be spliced several times)
    own = set(str(pr["id"]) for pr in H["params"])
    for n in hn:
        for d_ in n.get("decls", []) or []:
            own.add(str(d_["id"]))
    ren = lambda i_: "%s@%d" % (i_, off) if str(i_) in own else i_
    hparams = [dict(pr, id=ren(pr["id"])) for pr in H["params"]]
    for n in hn:
        for d_ in n.get("decls", []) or []:
            d_["id"] = ren(d_["id"])
        if n["k"] == "DeclRefExpr" and "ref" in n:
            n["ref"]["id"] = ren(n["ref"]["id"])
    nodes.extend(hn)
    hparent = {}
    for n in hn:
        for (cont, key) in _node_id_fields(n):
            if cont[key] >= 0:
                hparent[cont[key]] = n["i"]
    # ---- `this` of the helper is the object of the call
    if isinstance(obj, tuple):
        # `p->helper()`: the helper's `this` is the pointer p itself
        for n in hn:
            if n["k"] == "CXXThisExpr":
                cl = clone_subtree(nodes, obj[1])
                i0 = n["i"]
                n.clear()
                n.update({"i": i0, "k": "ParenExpr", "c": [cl], "inl": H["sig"]})
    elif obj != "this":
        for n in hn:
            if n["k"] != "CXXThisExpr":
                continue
            pp = hparent.get(n["i"])
            while pp is not None and nodes[pp]["k"] in TRANSPARENT:
                pp = hparent.get(pp)
            if pp is not None and nodes[pp]["k"] == "MemberExpr" and nodes[pp].get("arrow"):
                nodes[pp]["arrow"] = False
                nodes[pp]["c"] = [clone_subtree(nodes, obj)]
            else:
                cl = clone_subtree(nodes, obj)
                n.clear()
                n.update({"i": n.get("i", 0), "k": "UnaryOperator", "op": "&", "c": [cl], "inl": H["sig"]})
        for j, n in enumerate(hn):
            n["i"] = off + j          # n.clear() above dropped the id
    # ---- parameters: reference parameters bound to a pure path are substituted, the others become locals initialised at the call
    call = nodes[c]
    args = call["c"][1:]
    pre_els = []
    dropped = set()
    for j, prm in enumerate(hparams):
        if j >= len(args):
            break
        a = args[j]
        if prm["t"].rstrip().endswith("&") and pure_path(nodes, a):
            # binding a reference evaluates no load: the argument's own sub-expressions leave the caller's block
            stack_, sub_ = [a], set()
            while stack_:
                z_ = stack_.pop()
                if z_ in sub_ or z_ < 0:
                    continue
                sub_.add(z_)
                for (cont_, key_) in _node_id_fields(nodes[z_]):
                    stack_.append(cont_[key_])
            dropped.update(sub_)
            for n in hn:
                if n["k"] == "DeclRefExpr" and n.get("ref", {}).get("id") == prm["id"]:
                    cl = clone_subtree(nodes, a)
                    i0 = n["i"]
                    n.clear()
                    n.update({"i": i0, "k": "ParenExpr", "c": [cl], "inl": H["sig"]})
            continue
        nid = len(nodes)
        nodes.append({"i": nid, "k": "DeclStmt", "c": [a], "l": call.get("l"), "inl": H["sig"],
                      "decls": [{"id": prm["id"], "n": prm["n"], "t": prm["t"], "init": a}]})
        pre_els.append(nid)
    # `(*p).field` produced by substituting a reference parameter bound to `*p` reads as `p->field`
    for n in hn:
        if n.get("k") == "MemberExpr" and not n.get("arrow") and n.get("c"):
            b_ = n["c"][0]
            while b_ >= 0 and nodes[b_]["k"] in TRANSPARENT and nodes[b_].get("c"):
                b_ = nodes[b_]["c"][0]
            if b_ >= 0 and nodes[b_]["k"] == "UnaryOperator" and nodes[b_].get("op") == "*" and nodes[b_].get("c"):
                n["arrow"] = True
                n["c"] = [nodes[b_]["c"][0]]
    # ---- copy the helper's blocks
    boff = max(blocks) + 1
    hb = copy.deepcopy(H["cfg"]["blocks"])
    hentry, hexit = H["cfg"]["entry"] + boff, H["cfg"]["exit"] + boff
    ret_blocks = []
    for b in hb:
        b["id"] += boff
        b["succ"] = [None if s_ is None else s_ + boff for s_ in b["succ"]]
        newel = []
        for e in b["el"]:
            if isinstance(e, int):
                newel.append(e + off)
            elif isinstance(e, dict):
                e = dict(e)
                for kk in ("s", "e"):
                    if isinstance(e.get(kk), int) and e[kk] >= 0:
                        e[kk] += off
                if "var" in e:
                    e["var"] = ren(e["var"])
                newel.append(e)
        b["el"] = newel
        for kk in ("cond", "term", "label"):
            if isinstance(b.get(kk), int) and b[kk] >= 0:
                b[kk] += off
        rets = [e for e in newel if isinstance(e, int) and nodes[e]["k"] == "ReturnStmt"]
        if isinstance(b.get("term"), int) and nodes[b["term"]]["k"] == "ReturnStmt":
            rets.append(b["term"])
        if rets:
            ret_blocks.append((b, rets[-1]))
    post_els = B["el"][k + 1:]
    B_el_pre = [e_ for e_ in B["el"][:k] if _el_id(e_) not in dropped] + pre_els

    def drop_term(b, r):
        if b.get("term") == r:
            b.pop("term", None)
            b.pop("tk", None)

    if as_cond:
        t_succ, f_succ = B["succ"][0], B["succ"][1]
        if neg:
            t_succ, f_succ = f_succ, t_succ
        for b, r in ret_blocks:
            rn = nodes[r]
            val = rn["c"][0] if rn["c"] else None
            if val is None:
                return False
            rn["k"] = "InlinedReturn"
            drop_term(b, r)
            v = _strip(nodes, val)
            cv = nodes[v].get("cv", nodes[v].get("v") if nodes[v]["k"] in ("CXXBoolLiteralExpr", "IntegerLiteral") else None)
            if cv is not None:
                b["succ"] = [t_succ if cv else f_succ]
                b.pop("cond", None)
            else:
                b["succ"] = [t_succ, f_succ]
                b["cond"] = val
                b["tk"] = "IfStmt"
                b["term"] = r
        for b in hb:
            if b["id"] == hexit:
                b["succ"] = []
        B["el"] = B_el_pre
        B["succ"] = [hentry]
        for kk in ("cond", "term", "tk", "cond_full"):
            B.pop(kk, None)
        cfg["blocks"].extend(hb)
    else:
        if as_value:
            # the returned value travels in a synthetic local; with a single `return e` it is declared there (and expands like any
            # single-definition local), otherwise every return assigns it
            rid = "inl-ret-%d" % off
            rname = "%s$ret" % H["short"]
            rt = H.get("ret", "int")
            single = len(ret_blocks) == 1
            for b, r in ret_blocks:
                rn = nodes[r]
                val = rn["c"][0] if rn["c"] else None
                if val is None:
                    return False
                if single:
                    rn.clear()
                    rn.update({"i": r, "k": "DeclStmt", "c": [val], "inl": H["sig"], "decls": [{"id": rid, "n": rname, "t": rt, "init": val}]})
                else:
                    lid = len(nodes)
                    nodes.append({"i": lid, "k": "DeclRefExpr", "c": [], "lv": True, "t": rt, "inl": H["sig"],
                                  "ref": {"dk": "local", "id": rid, "n": rname, "t": rt}})
                    rn.clear()
                    rn.update({"i": r, "k": "BinaryOperator", "op": "=", "c": [lid, val], "t": rt, "inl": H["sig"]})
                if r not in [e for e in b["el"] if isinstance(e, int)]:
                    b["el"].append(r)
                drop_term(b, r)
            l0 = call.get("l")
            call.clear()
            call.update({"i": c, "k": "DeclRefExpr", "c": [], "t": rt, "l": l0, "inl": H["sig"],
                         "ref": {"dk": "local", "id": rid, "n": rname, "t": rt}})
        else:
            for b, r in ret_blocks:
                nodes[r]["k"] = "InlinedReturn"
                drop_term(b, r)
        pid = boff + len(hb) + 1
        post = {"id": pid, "el": post_els, "succ": B["succ"]}
        for kk in ("cond", "term", "tk", "noreturn", "cond_full"):
            if kk in B:
                post[kk] = B.pop(kk)
        B["el"] = B_el_pre
        B["succ"] = [hentry]
        for b in hb:
            if b["id"] == hexit:
                b["succ"] = [pid]
        cfg["blocks"].extend(hb)
        cfg["blocks"].append(post)
        if cfg["exit"] == B["id"]:
            cfg["exit"] = pid
    if not as_value:
        call["k"] = "InlinedCall"
        call.pop("callee", None)
        call.pop("csig", None)
    return True


def inline_program(raw, known=None, log=None):
    """raw: dict sig -> function dict (modified in place).  returns the set of helper signatures that were spliced everywhere"""
    known = known if known is not None else load_known()
    if not known:
        return set()
    helpers = {sig: d for sig, d in raw.items() if is_helper(d, known)}
    if not helpers:
        return set()
    left = {sig: 0 for sig in helpers}      # call sites that could not be spliced
    done = {sig: 0 for sig in helpers}
    for _round in range(3):
        changed = False
        for sig, F in list(raw.items()):
            if not F.get("cfg"):
                continue
            for _ in range(20):
                site = None
                for n in F["nodes"]:
                    if n.get("csig") in helpers and n["k"] in ("CXXMemberCallExpr", "CallExpr") and n.get("csig") != sig and not n.get("noinl"):
                        site = n["i"]
                        break
                if site is None:
                    break
                hs = F["nodes"][site]["csig"]
                H = helpers[hs]
                ok = _call_on_this(F, site) and (H["kind"] == "func" or strip_targs(H.get("cls") or "") == strip_targs(F.get("cls") or "") or True)
                ok = ok and splice(F, site, H)
                if ok:
                    done[hs] += 1
                    changed = True
                    if log is not None:
                        log.append("%s inlined into %s" % (hs, sig))
                else:
                    F["nodes"][site]["noinl"] = True
                    left[hs] += 1
        if not changed:
            break
    gone = set(s for s in helpers if done[s] and not left[s])
    return gone


def load_known_refs():
    try:
        return json.load(open(KNOWN_REFS_FILE))
    except Exception:
        return None


def ref_locals(d):
    """names of the reference-typed locals of a function"""
    out = []
    for n in d["nodes"]:
        for dd in n.get("decls", []) or []:
            if n["k"] == "DeclStmt" and dd.get("t", "").rstrip().endswith("&") and not dd.get("t", "").rstrip().endswith("&&"):
                out.append(dd["n"])
    return out


def dealias_new_references(raw, known_refs=None):
    """a reference local the rules have never seen (`Buffer& backlog = client._sendBuffer;` introduced by a clean-up) that is bound to a
    pure path is replaced, at each use, by that path: the rules keep reading the designation they know"""
    known_refs = known_refs if known_refs is not None else load_known_refs()
    if known_refs is None:
        return 0
    cnt = 0
    for sig, F in raw.items():
        if not F.get("cfg"):
            continue
        have = set(known_refs.get(strip_targs(F["name"]), []))
        nodes = F["nodes"]
        for n in list(nodes):
            if n["k"] != "DeclStmt" or n.get("inl"):
                continue
            for dd in n.get("decls", []) or []:
                t = dd.get("t", "").rstrip()
                if not t.endswith("&") or t.endswith("&&") or dd["n"] in have or not isinstance(dd.get("init"), int):
                    continue
                init = dd["init"]
                if not pure_path(nodes, init):
                    continue
                for m in list(nodes):
                    if m["k"] == "DeclRefExpr" and m.get("ref", {}).get("id") == dd["id"]:
                        cl = clone_subtree(nodes, init)
                        i0 = m["i"]
                        m.clear()
                        m.update({"i": i0, "k": "ParenExpr", "c": [cl], "dealiased": dd["n"]})
                        cnt += 1
    return cnt


def collapse_deref_members(raw):
    """`(*p).field`, left behind where a reference bound to `*p` was replaced by its binding, reads as `p->field`"""
    cnt = 0
    for sig, F in raw.items():
        nodes = F.get("nodes") or []
        for n in nodes:
            if n.get("k") == "MemberExpr" and not n.get("arrow") and n.get("c"):
                b_ = n["c"][0]
                seen_deal = False
                while b_ >= 0 and nodes[b_]["k"] in TRANSPARENT and nodes[b_].get("c"):
                    seen_deal = seen_deal or bool(nodes[b_].get("dealiased"))
                    b_ = nodes[b_]["c"][0]
                if seen_deal and b_ >= 0 and nodes[b_]["k"] == "UnaryOperator" and nodes[b_].get("op") == "*" and nodes[b_].get("c"):
                    n["arrow"] = True
                    n["c"] = [nodes[b_]["c"][0]]
                    cnt += 1
    return cnt


KNOWN_PTRS_FILE = os.path.join(os.path.dirname(os.path.abspath(__file__)), "known_ptr_locals.json")


def _subtree(nodes, root):
    out = []
    stack = [root]
    while stack:
        x = stack.pop()
        out.append(x)
        n = nodes[x]
        for (cont, key) in _node_id_fields(n):
            if cont[key] >= 0:
                stack.append(cont[key])
    return out


def ptr_locals(d):
    """names of the pointer-typed locals of a function that are initialised at their declaration"""
    out = []
    for n in d["nodes"]:
        if n["k"] != "DeclStmt":
            continue
        for dd in n.get("decls", []) or []:
            t = dd.get("t", "").replace(" ", "")
            if (t.endswith("*") or t.endswith("*const")) and isinstance(dd.get("init"), int):
                out.append(dd["n"])
    return out


def load_known_ptrs():
    try:
        return json.load(open(KNOWN_PTRS_FILE))
    except Exception:
        return None


def dealias_new_snapshots(raw, make_function, known=None):
    """a pointer local the rules have never seen that only names the current value of a member path (`Data* const old = data;`
    introduced by a clean-up) is replaced by that path at every use that no store to the path (or member call on the same object)
    can precede: the rules keep reading the designation they know.  Uses after such a store keep the local."""
    known = known if known is not None else load_known_ptrs()
    if known is None:
        return 0
    cnt = 0
    for sig, F in raw.items():
        if not F.get("cfg"):
            continue
        have = set(known.get(strip_targs(F["name"]), []))
        nodes = F["nodes"]
        cands = []
        for n in nodes:
            if n["k"] != "DeclStmt":
                continue        # (parameter locals of spliced helpers included: `release(data)` reads as the caller's `this->data`)
            for dd in n.get("decls", []) or []:
                t = dd.get("t", "").replace(" ", "")
                if not (t.endswith("*") or t.endswith("*const")) or dd["n"] in have or not isinstance(dd.get("init"), int):
                    continue
                init = dd["init"]
                if not pure_path(nodes, init):
                    continue
                sub = _subtree(nodes, init)
                if not any(nodes[x]["k"] in ("MemberExpr", "DeclRefExpr") for x in sub):
                    continue        # a literal
                if any(nodes[x]["k"] in ("CStyleCastExpr", "CXXStaticCastExpr") for x in sub):
                    continue
                cands.append((n["i"], dd, init, sub))
        if not cands:
            continue
        f = make_function(F)
        for decl_i, dd, init, sub in cands:
            uses = [m["i"] for m in nodes if m["k"] == "DeclRefExpr" and m.get("ref", {}).get("id") == dd["id"]]
            # the local itself must never change or escape
            bad = False
            for u in uses:
                p_ = f.up(u)
                while p_ is not None and nodes[p_]["k"] in ("ParenExpr",):
                    p_ = f.up(p_)
                pn = nodes[p_] if p_ is not None else None
                if pn is None:
                    continue
                if pn["k"] == "UnaryOperator" and pn.get("op") in ("&", "++", "--"):
                    bad = True
                # used as an lvalue (no lvalue-to-rvalue conversion above it): bound to a reference parameter or reference local -
                # whoever holds the reference assigns to the LOCAL, not to the path it was copied from
                lvalue_use = True
                raw_ = f.parent.get(u)
                while raw_ is not None and nodes[raw_]["k"] in TRANSPARENT:
                    if nodes[raw_].get("ck") == "LValueToRValue":
                        lvalue_use = False      # the value is read here, nothing is bound to the variable
                    raw_ = f.parent.get(raw_)
                if lvalue_use and pn["k"] in ("CallExpr", "CXXMemberCallExpr", "CXXConstructExpr", "CXXOperatorCallExpr", "DeclStmt") and \
                   not (pn["k"] != "DeclStmt" and pn.get("c") and f.strip(pn["c"][0]) == u):
                    bad = True
                if pn["k"] in ("BinaryOperator", "CompoundAssignOperator") and (pn.get("op") == "=" or pn["k"] == "CompoundAssignOperator") \
                   and f.strip(pn["c"][0]) == u:
                    bad = True
            if bad or not uses:
                continue
            fields = set(nodes[x]["m"] for x in sub if nodes[x]["k"] == "MemberExpr")
            vars_ = set(nodes[x]["ref"]["id"] for x in sub if nodes[x]["k"] == "DeclRefExpr" and nodes[x].get("ref", {}).get("id") is not None)
            # `&obj.field` / `&this->field`: the address of a sub-object does not depend on what is stored in it - nothing kills it
            # (but a pointer in the middle of the path does: `&p->field`)
            addr_const = False
            top = nodes[init]
            while top["k"] in TRANSPARENT and top.get("c"):
                top = nodes[top["c"][0]]
            if top["k"] == "UnaryOperator" and top.get("op") == "&" and top.get("c"):
                x_ = nodes[top["c"][0]]
                okp = True
                while True:
                    while x_["k"] in TRANSPARENT and x_.get("c"):
                        x_ = nodes[x_["c"][0]]
                    if x_["k"] == "MemberExpr" and x_.get("c"):
                        base_ = nodes[x_["c"][0]]
                        while base_["k"] in TRANSPARENT and base_.get("c"):
                            base_ = nodes[base_["c"][0]]
                        if x_.get("arrow") and base_["k"] != "CXXThisExpr":
                            okp = False
                            break
                        x_ = base_
                        continue
                    break
                addr_const = okp and x_["k"] in ("DeclRefExpr", "CXXThisExpr") and not ((x_.get("t") or "").rstrip().endswith("*"))
            kills = set()
            for m in ([] if addr_const else nodes):
                k = m["k"]
                tgt = None
                if (k == "BinaryOperator" and m.get("op") == "=") or k == "CompoundAssignOperator" or \
                   (k == "UnaryOperator" and m.get("op") in ("++", "--")):
                    tgt = nodes[f.strip(m["c"][0])]
                    if (tgt["k"] == "MemberExpr" and tgt.get("m") in fields) or \
                       (tgt["k"] == "DeclRefExpr" and tgt.get("ref", {}).get("id") in vars_):
                        kills.add(m["i"])
                elif k == "CXXMemberCallExpr":
                    kills.add(m["i"])          # a member call may rebind the path (conservative: any object)
                elif k in ("CallExpr", "CXXConstructExpr", "CXXOperatorCallExpr"):
                    for a in m["c"]:
                        if a >= 0 and any(nodes[x]["k"] == "CXXThisExpr" for x in _subtree(nodes, a)):
                            kills.add(m["i"])
            dpos = f.node_pos(decl_i)
            kpos = set(p for p in (f.node_pos(k) for k in kills) if p is not None)
            if dpos is None or len(kpos) != len(kills):
                continue
            reach = set()     # positions reachable from a kill that is itself reachable from the declaration
            for kp in kpos:
                if f.find_path(dpos, {kp}) is None:
                    continue
                stack = list(f.succs_pos(kp))
                while stack:
                    x = stack.pop()
                    if x in reach or x == dpos:
                        continue        # (the declaration binds the local anew: what was stored before it does not matter after it)
                    reach.add(x)
                    stack.extend(f.succs_pos(x))
            for u in uses:
                up = f.node_pos(u)
                if up is None or up in reach:
                    continue
                # (a use inside the killing statement itself is read before the store: `data = old->next`)
                m = nodes[u]
                cl = clone_subtree(nodes, init)
                i0 = m["i"]
                m.clear()
                m.update({"i": i0, "k": "ParenExpr", "c": [cl], "dealiased": dd["n"]})
                cnt += 1
    return cnt
