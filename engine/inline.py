"""Virtual inlining of helper functions the rule set has never seen.

The rules are written against the functions craflin/libnstd has today (engine/known_functions.json, regenerated with
tools/gen_known_functions.py whenever /repo is changed on purpose).  A maintainer who extracts a few statements of a known function
into a new private / file-local helper does not change behaviour, but every path rule would lose sight of those statements.  So a
function whose qualified name is NOT in that list, that is private/protected or a free function of a .cpp file, small and
non-recursive, is spliced into the AST + CFG of each caller (call on `this`, static or free call) before the rules run:

  * the helper's nodes and blocks are copied (ids shifted), its parameters become locals initialised with the argument
    expressions at the call site (so the usual single-definition expansion of locals applies),
  * a call that is a full statement: the block is split at the call, helper exit continues behind it,
  * a call that is the whole branch condition (`if(helper())`, `if(!helper())`): every `return <const>` of the helper is wired to
    the matching branch successor, every `return <expr>` becomes a branch on <expr>,
  * other value uses are left alone (the call stays; nothing is hidden).

Helpers all of whose call sites were spliced are not analysed stand-alone.  Nothing of the program is executed."""
import copy
import json
import os
import re

HERE = os.path.dirname(os.path.abspath(__file__))
KNOWN_FILE = os.path.join(HERE, "known_functions.json")
TRANSPARENT = {"ImplicitCastExpr", "ParenExpr", "ExprWithCleanups", "MaterializeTemporaryExpr", "CXXBindTemporaryExpr", "ConstantExpr"}
MAX_NODES = 600


def strip_targs(s):
    out, depth = [], 0
    for ch in s:
        if ch == "<":
            depth += 1
        elif ch == ">":
            depth -= 1
        elif depth == 0:
            out.append(ch)
    return "".join(out)


def load_known():
    try:
        return set(json.load(open(KNOWN_FILE)))
    except Exception:
        return None


def _node_id_fields(n):
    """(container, key/index) pairs of every field of node n that holds node ids"""
    out = []
    for k in ("asize", "init"):
        if isinstance(n.get(k), int):
            out.append((n, k))
    for k in ("c", "place"):
        if isinstance(n.get(k), list):
            for j, v in enumerate(n[k]):
                if isinstance(v, int):
                    out.append((n[k], j))
    for d in n.get("decls", []) or []:
        if isinstance(d.get("init"), int):
            out.append((d, "init"))
    return out


def _strip(nodes, i):
    while nodes[i]["k"] in TRANSPARENT and nodes[i]["c"]:
        i = nodes[i]["c"][0]
    return i


def is_helper(d, known):
    if d.get("kind") not in ("method", "func") or not d.get("cfg"):
        return False
    if strip_targs(d["name"]) in known:
        return False
    if d["short"].startswith("operator") or d["short"].startswith("~"):
        return False
    if d["kind"] == "method" and d.get("access", 0) not in (1, 2):
        return False
    if d["kind"] == "func" and not d["file"].endswith(".cpp"):
        return False
    if len(d["nodes"]) > MAX_NODES:
        return False
    if any(n.get("csig") == d["sig"] for n in d["nodes"]):
        return False      # recursive
    for p in d["params"]:
        # parameters that are assigned or whose address is taken keep a separate identity: still fine as locals
        pass
    return True


def _call_on_this(F, c):
    n = F["nodes"][c]
    if n["k"] == "CallExpr":
        return True
    if n["k"] != "CXXMemberCallExpr" or not n["c"]:
        return False
    me = _strip(F["nodes"], n["c"][0])
    m = F["nodes"][me]
    if m["k"] != "MemberExpr" or not m["c"]:
        return False
    o = _strip(F["nodes"], m["c"][0])
    return F["nodes"][o]["k"] == "CXXThisExpr"


def _els(b):
    return b["el"]


def _el_id(e):
    if isinstance(e, int):
        return e
    if isinstance(e, dict) and "s" in e:
        return e["s"]
    return None


def splice(F, c, H):
    """inline helper H (raw dict) at call node c of F (raw dict, modified in place).  returns True when done"""
    nodes = F["nodes"]
    cfg = F["cfg"]
    blocks = {b["id"]: b for b in cfg["blocks"]}
    # locate the call element
    loc = None
    for b in cfg["blocks"]:
        for k, e in enumerate(b["el"]):
            if _el_id(e) == c:
                loc = (b, k)
    if loc is None:
        return False
    B, k = loc
    parent = {}
    for n in nodes:
        for (cont, key) in _node_id_fields(n):
            v = cont[key]
            if v >= 0:
                parent.setdefault(v, n["i"])
    # how is the value used?
    p = parent.get(c)
    neg = False
    x = c
    while p is not None and (nodes[p]["k"] in TRANSPARENT or (nodes[p]["k"] == "UnaryOperator" and nodes[p].get("op") == "!")):
        if nodes[p]["k"] == "UnaryOperator":
            neg = not neg
        x = p
        p = parent.get(p)
    cond = B.get("cond")
    as_cond = isinstance(cond, int) and (cond == x or _strip(nodes, cond) == c or cond == c) and len(B.get("succ", [])) == 2
    is_stmt = p is None or nodes[p]["k"] in ("CompoundStmt", "IfStmt", "ForStmt", "WhileStmt", "DoStmt", "LabelStmt", "CaseStmt", "DefaultStmt", "SwitchStmt")
    if is_stmt and p is not None and nodes[p]["k"] in ("IfStmt", "WhileStmt", "DoStmt", "ForStmt") and as_cond:
        is_stmt = False
    if not as_cond and not is_stmt:
        return False
    if not as_cond and H.get("ret") not in ("void",):
        # value discarded: fine
        pass
    if as_cond and H.get("ret") not in ("bool", "_Bool"):
        return False
    # ---- copy the helper's nodes
    off = len(nodes)
    hn = copy.deepcopy(H["nodes"])
    for n in hn:
        n["i"] += off
        for (cont, key) in _node_id_fields(n):
            if cont[key] >= 0:
                cont[key] += off
        if n["k"] == "DeclRefExpr" and n.get("ref", {}).get("dk") == "parm":
            n["ref"]["dk"] = "local"
        n["inl"] = H["sig"]
    nodes.extend(hn)
    # ---- parameters become locals initialised with the arguments
    call = nodes[c]
    args = call["c"][1:]
    pre_els = []
    for j, prm in enumerate(H["params"]):
        if j >= len(args):
            break
        nid = len(nodes)
        nodes.append({"i": nid, "k": "DeclStmt", "c": [args[j]], "l": call.get("l"), "inl": H["sig"],
                      "decls": [{"id": prm["id"], "n": prm["n"], "t": prm["t"], "init": args[j]}]})
        pre_els.append(nid)
    call["k"] = "InlinedCall"
    call.pop("callee", None)
    call.pop("csig", None)
    # ---- copy the helper's blocks
    boff = max(blocks) + 1
    hb = copy.deepcopy(H["cfg"]["blocks"])
    hentry, hexit = H["cfg"]["entry"] + boff, H["cfg"]["exit"] + boff
    ret_blocks = []
    for b in hb:
        b["id"] += boff
        b["succ"] = [None if s is None else s + boff for s in b["succ"]]
        newel = []
        for e in b["el"]:
            if isinstance(e, int):
                newel.append(e + off)
            elif isinstance(e, dict):
                e = dict(e)
                for kk in ("s", "e"):
                    if isinstance(e.get(kk), int) and e[kk] >= 0:
                        e[kk] += off
                newel.append(e)
        b["el"] = newel
        for kk in ("cond", "term", "label"):
            if isinstance(b.get(kk), int) and b[kk] >= 0:
                b[kk] += off
        rets = [e for e in newel if isinstance(e, int) and nodes[e]["k"] == "ReturnStmt"]
        if isinstance(b.get("term"), int) and nodes[b["term"]]["k"] == "ReturnStmt":
            rets.append(b["term"])
        if rets:
            ret_blocks.append((b, rets[-1]))
    post_els = B["el"][k + 1:]
    B_el_pre = B["el"][:k] + pre_els
    if as_cond:
        t_succ, f_succ = B["succ"][0], B["succ"][1]
        if neg:
            t_succ, f_succ = f_succ, t_succ
        for b, r in ret_blocks:
            rn = nodes[r]
            val = rn["c"][0] if rn["c"] else None
            rn["k"] = "InlinedReturn"
            if b.get("term") == r:
                b.pop("term", None)
                b.pop("tk", None)
            if val is None:
                return False
            v = _strip(nodes, val)
            cv = nodes[v].get("cv", nodes[v].get("v") if nodes[v]["k"] in ("CXXBoolLiteralExpr", "IntegerLiteral") else None)
            if cv is not None:
                b["succ"] = [t_succ if cv else f_succ]
                b.pop("cond", None)
            else:
                b["succ"] = [t_succ, f_succ]
                b["cond"] = val
                b["tk"] = "IfStmt"
                b["term"] = r
        for b in hb:
            if b["id"] == hexit:
                b["succ"] = []      # unreachable now
        B["el"] = B_el_pre
        B["succ"] = [hentry]
        for kk in ("cond", "term", "tk", "cond_full"):
            B.pop(kk, None)
        cfg["blocks"].extend(hb)
    else:
        for b, r in ret_blocks:
            nodes[r]["k"] = "InlinedReturn"
            if b.get("term") == r:
                b.pop("term", None)
                b.pop("tk", None)
        # continuation block
        pid = boff + len(hb) + 1
        post = {"id": pid, "el": post_els, "succ": B["succ"]}
        for kk in ("cond", "term", "tk", "noreturn"):
            if kk in B:
                post[kk] = B.pop(kk)
        B["el"] = B_el_pre
        B["succ"] = [hentry]
        for b in hb:
            if b["id"] == hexit:
                b["succ"] = [pid]
        cfg["blocks"].extend(hb)
        cfg["blocks"].append(post)
        if cfg["exit"] == B["id"]:
            cfg["exit"] = pid
    return True


def inline_program(raw, known=None, log=None):
    """raw: dict sig -> function dict (modified in place).  returns the set of helper signatures that were spliced everywhere"""
    known = known if known is not None else load_known()
    if not known:
        return set()
    helpers = {sig: d for sig, d in raw.items() if is_helper(d, known)}
    if not helpers:
        return set()
    left = {sig: 0 for sig in helpers}      # call sites that could not be spliced
    done = {sig: 0 for sig in helpers}
    for _round in range(3):
        changed = False
        for sig, F in list(raw.items()):
            if not F.get("cfg"):
                continue
            for _ in range(20):
                site = None
                for n in F["nodes"]:
                    if n.get("csig") in helpers and n["k"] in ("CXXMemberCallExpr", "CallExpr") and n.get("csig") != sig and not n.get("noinl"):
                        site = n["i"]
                        break
                if site is None:
                    break
                hs = F["nodes"][site]["csig"]
                H = helpers[hs]
                ok = _call_on_this(F, site) and (H["kind"] == "func" or strip_targs(H.get("cls") or "") == strip_targs(F.get("cls") or "") or True)
                ok = ok and splice(F, site, H)
                if ok:
                    done[hs] += 1
                    changed = True
                    if log is not None:
                        log.append("%s inlined into %s" % (hs, sig))
                else:
                    F["nodes"][site]["noinl"] = True
                    left[hs] += 1
        if not changed:
            break
    gone = set(s for s in helpers if done[s] and not left[s])
    return gone
