"""Reference-count discipline rules (C09, shared with C06/C07/C16) for the four handle families:
String, Variant, Xml::Variant (pointer `data` to a counted block) and RefCount::Ptr<> (refObj/obj)."""
import re
from . import q, fin
from . import containers as C
from .facts import AnalysisBroken

FAMILIES = {
    "String": dict(cls="String", ptr="data", counted="String::Data"),
    "Variant": dict(cls="Variant", ptr="data", counted="Variant::Data"),
    "Xml::Variant": dict(cls="Xml::Variant", ptr="data", counted="Xml::Variant::Data"),
    "RefCount::Ptr": dict(cls="RefCount::Ptr", ptr="refObj", counted="RefCount::Object"),
}


def family_functions(prog, fam):
    d = FAMILIES[fam]
    fs = [f for f in prog.functions.values() if f.clsq == d["cls"] and f.blocks]
    if fam == "RefCount::Ptr":
        # complete instantiations only
        keep = set(C.class_insts(prog, "RefCount::Ptr"))
        fs = [f for f in fs if f.cls in keep]
    if len(fs) < 5:
        raise AnalysisBroken("handle class %s: only %d member functions found" % (fam, len(fs)))
    return sorted(fs, key=lambda f: (f.line, f.sig))


def ref_of(f, i):
    """if node i is `<X>->ref` / `<X>.ref` return text of X, else None"""
    i = f.strip(i)
    n = f.nodes[i]
    if n["k"] == "MemberExpr" and n["m"] == "ref" and n["c"]:
        return q.no_casts(f.r(n["c"][0]))
    return None


def atomic_calls(f, name):
    """[(call node, text of counted object X)] for Atomic::<name>(X->ref)"""
    out = []
    for i in q.calls_named(f, "Atomic::" + name):
        a = q.call_args(f, i)
        x = ref_of(f, a[0]) if a else None
        if x is not None:
            out.append((i, x))
    return out


def same_obj(a, b):
    a = a.replace("this->", "")
    b = b.replace("this->", "")
    return a == b


def expand_obj(f, text):
    return text


# ----------------------------------------------------------------------------- C09.a

def atomic_only(prog, chk, rid):
    chk.rule(rid, "WHO: after initialisation (constant 0 on inline/static descriptors, constant 1 on a block allocated in the same "
                  "function) a reference counter is modified only inside Atomic::increment/decrement, whose bodies are one "
                  "__sync_add_and_fetch", floor=20)
    counted = set(d["counted"] for d in FAMILIES.values())
    counted |= {"String::EmptyData", "Variant::NullData", "Xml::Variant::NullData"}
    n_sites = 0
    for f in prog.functions.values():
        has_new = any(n["k"] == "CXXNewExpr" for n in f.nodes)
        for s in q.stores(f):
            ln = f.nodes[s.lhs]
            if not (ln["k"] == "MemberExpr" and ln["m"] == "ref" and ln.get("mclsq") in counted):
                continue
            n_sites += 1
            base = q.no_casts(f.r(ln["c"][0])) if ln["c"] else ""
            v = f.nodes[f.strip(s.rhs)].get("cv") if s.rhs is not None else None
            if s.rhs is not None and v is None and q.is_zero(f, s.rhs):
                v = 0
            if s.op == "=" and v == 0 and (base in ("this->_data", "this") or base.endswith("_data")):
                chk.ok(rid, f, "ref = 0 on the inline/static descriptor", f.where(s.node), base, nontrivial=False)
            elif s.op == "=" and v == 1 and has_new:
                chk.ok(rid, f, "ref = 1 on a block allocated in this function", f.where(s.node), base)
            else:
                chk.bad(rid, f, "non-atomic-counter-update:" + s.op, f.where(s.node),
                        "`%s` modifies a reference counter without Atomic::increment/decrement; two threads holding distinct "
                        "handles to the same payload can lose an update (double free or leak)" % f.r(s.node)[:70])
        # implicit struct copies of a Data object carry the counter along: only allowed into the inline descriptor
    for nm, delta in (("increment", 1), ("decrement", -1)):
        fs = [f for f in prog.functions.values() if f.name == "Atomic::" + nm]
        if not fs:
            raise AnalysisBroken("Atomic::%s bodies not found" % nm)
        for f in fs:
            cs = [i for i in q.calls(f) if "__sync_" in f.r(i)]
            ok = False
            if len(cs) == 1:
                n = f.nodes[cs[0]]
                args = q.call_args(f, cs[0])
                callee = re.sub(r"_\d+$", "", f.r(n["c"][0]))
                d = f.nodes[f.strip(args[1])].get("cv") if len(args) > 1 else None
                if d is None and len(args) > 1:
                    d = fin.eval_expr(f, args[1], {})
                ok = (callee == "__sync_add_and_fetch" and d == delta) or (callee == "__sync_sub_and_fetch" and d == -delta)
                ok = ok and f.r(args[0]).replace(" ", "") == "&" + f.params[0]["n"]
            if ok:
                chk.ok(rid, f, "Atomic::%s is one atomic read-modify-write returning the new value" % nm, "%s:%s" % (f.file, f.line), f.r(cs[0]))
            else:
                chk.bad(rid, f, "atomic-%s-body" % nm, "%s:%s" % (f.file, f.line),
                        "Atomic::%s must be a single __sync_add_and_fetch(&var, %+d): the release test relies on the value returned by the atomic operation" % (nm, delta))


# ----------------------------------------------------------------------------- C09.b

def _conjuncts(f, e):
    e = f.strip(e)
    n = f.nodes[e]
    if n["k"] == "BinaryOperator" and n.get("op") == "&&":
        return _conjuncts(f, n["c"][0]) + _conjuncts(f, n["c"][1])
    return [e]


def release_idiom(prog, chk, rid, fams=tuple(FAMILIES), floor=12):
    chk.rule(rid, "DOM: every delete of a shared block and every payload destructor in clear() is control-dependent on "
                  "`Atomic::decrement(x->ref) == 0` evaluated in that condition, itself guarded by the owned test; no decrement "
                  "result is discarded", floor=floor)
    for fam in fams:
        d = FAMILIES[fam]
        for f in family_functions(prog, fam):
            decs = atomic_calls(f, "decrement")
            tests = {}   # == node -> object text
            inverted = set()
            for i, x in decs:
                p = f.up(i)
                pn = f.nodes[p] if p is not None else None
                if pn is not None and pn["k"] == "BinaryOperator" and pn["op"] in ("==", "!=") and \
                   any(q.is_zero(f, c) for c in pn["c"]):
                    tests[p] = x
                    if pn["op"] == "!=":
                        inverted.add(p)      # `decrement(..) != 0`: the FALSE edge is the one on which this handle was the last
                    # owned guard: `x->ref` (or x itself for Ptr) true on every path to the decrement
                    atoms = fin.dominating_atoms(f, f.node_pos(i))
                    want = [x + "->ref", x] if fam != "RefCount::Ptr" else [x]
                    owned = any(a[0] != "case" and a[1] and fin.key(f, a[0]) in want for a in atoms)
                    if owned:
                        chk.ok(rid, f, "decrement of %s->ref guarded by the owned test and compared with 0" % x, f.where(i), "dominating atom", evals=2)
                    else:
                        chk.bad(rid, f, "decrement-without-owned-test:" + x.replace("this->", ""), f.where(i),
                                "the counter of `%s` is decremented without first testing that the handle owns a counted block "
                                "(static/inline descriptors have ref 0 and must never be decremented)" % x)
                else:
                    chk.bad(rid, f, "decrement-result-not-tested:" + x.replace("this->", ""), f.where(i),
                            "the value returned by Atomic::decrement(%s->ref) is not compared with 0 in the same expression: "
                            "whoever brings the counter to zero must free the block, and only the atomic result tells who that is" % x)
            rel = []
            for i, n in enumerate(f.nodes):
                if n["k"] == "CXXDeleteExpr":
                    t = q.no_casts(f.r(n["c"][0]))
                    if t.replace("this->", "") in (d["ptr"], "newData") or t.endswith("->" + d["ptr"]) or t.endswith("." + d["ptr"]):
                        if "newData" not in t:
                            rel.append((i, t, "delete"))
            if f.short == "clear":
                for dn, obj in C.dtor_events(f):
                    rel.append((dn, "this->" + d["ptr"], "payload destructor"))
            defs_ = q.local_defs(f)

            def as_test(a0):
                """the decrement test this atom stands for: the test itself, or a bool local every non-false definition of which is it
                (`bool last = false; if(ref) last = Atomic::decrement(ref) == 0; if(last) delete ...`)"""
                x0 = f.strip(a0)
                if x0 in tests:
                    return x0
                n0 = f.nodes[x0]
                if n0["k"] == "DeclRefExpr" and n0["ref"].get("dk") == "local":
                    dl_ = [d_ for d_ in defs_.get(n0["ref"]["id"], []) if d_[2] is not None and d_[0] != "addr"]
                    nz_ = []
                    for d_ in dl_:
                        if q.is_zero(f, d_[2]):
                            continue
                        # a conjunction is true only when each conjunct was: `owned && decrement == 0` names the test as well
                        cj_ = [z for z in _conjuncts(f, d_[2]) if z in tests]
                        nz_.append(cj_[0] if cj_ else None)
                    if nz_ and all(z is not None for z in nz_) and len(set(tests[z] for z in nz_)) == 1:
                        return nz_[0]
                return None
            for i, t, kind in rel:
                atoms = fin.dominating_atoms(f, f.node_pos(i))
                ok = any(as_test(a[0]) is not None and bool(a[1]) == (as_test(a[0]) not in inverted) and same_obj(tests[as_test(a[0])], t)
                         for a in atoms if a[0] != "case")
                if ok:
                    chk.ok(rid, f, "%s of %s under decrement == 0" % (kind, t), f.where(i), "true edge of the decrement test dominates", evals=len(atoms) or 1)
                else:
                    chk.bad(rid, f, "%s-not-under-decrement-test" % kind.replace(" ", "-"), f.where(i),
                            "%s of the shared block `%s` is not control-dependent on `Atomic::decrement(%s->ref) == 0`: it can run "
                            "while another handle still refers to the block, or twice" % (kind, t, t))


# ----------------------------------------------------------------------------- C09.c

def share_idiom(prog, chk, rid, fams=tuple(FAMILIES), floor=10):
    chk.rule(rid, "MPT: storing a pre-existing counted block into a handle has Atomic::increment of that block's counter on every "
                  "path through the store (unless the block pointer is null / not owned on that path); overwriting the handle's "
                  "pointer is preceded on every path by the release test of the old block", floor=floor)
    for fam in fams:
        d = FAMILIES[fam]
        ptr = d["ptr"]
        for f in family_functions(prog, fam):
            defs = q.local_defs(f)
            incs = atomic_calls(f, "increment")
            if f.short == "swap" and fam == "RefCount::Ptr":
                # an exchange keeps both counters as they are: both fields must change hands in both directions
                C.swap_plain(chk, rid, f, ["refObj", "obj"])
                continue
            for w in q.field_writes(f, ptr, "this"):
                if w.rhs is None:
                    continue
                rt = q.no_casts(C.norm(f, w.rhs, {}, defs))
                raw = q.no_casts(f.r(w.rhs))
                where = f.where(w.node) if w.node is not None else "%s:%s" % (f.file, f.line)
                # the stored value may be a local assigned on several branches: each definition that reaches the store is a case
                cases = [(None, w.rhs)]
                rn = f.nodes[f.strip(w.rhs)]
                if rn["k"] == "DeclRefExpr" and rn["ref"].get("dk") == "local" and q.single_def(f, rn["ref"]["id"], defs) is None:
                    dl = [x for x in defs.get(rn["ref"]["id"], []) if x[2] is not None and x[0] != "addr"]
                    dpos = {id(x): f.node_pos(x[1]) for x in dl}
                    cases = []
                    for x in dl:
                        others = set(p_ for k_, p_ in dpos.items() if k_ != id(x) and p_ is not None)
                        if dpos[id(x)] is not None and f.find_path(dpos[id(x)], {w.pos}, avoid=others - {w.pos}) is not None:
                            cases.append((dpos[id(x)], x[2]))
                    if not cases:
                        cases = [(None, w.rhs)]
                for dpos_, rhs_ in cases:
                    rt = q.no_casts(C.norm(f, rhs_, {}, defs))
                    fresh = ("new char[]" in rt) or rt.startswith("&") or q.is_zero(f, rhs_)
                    if fresh:
                        continue
                    # candidates naming the same block
                    names = {rt, raw, q.no_casts(f.r(rhs_)), "this->" + ptr}
                    def _xobj(i_):      # the counted object behind a pointer local (`Data* const otherData = other.data; increment(otherData->ref)`)
                        a_ = q.call_args(f, i_)
                        b_ = f.nodes[f.strip(a_[0])] if a_ else None
                        return q.no_casts(q.xr(f, b_["c"][0], defs)) if b_ is not None and b_["k"] == "MemberExpr" and b_["c"] else None
                    ipos = q.pos_of(f, [i for i, x in incs if x in names or any(same_obj(x, nm) for nm in names) or
                                        (_xobj(i) is not None and any(same_obj(_xobj(i), nm) for nm in names))])
                    # edges on which the block is null / not owned
                    skip = set()
                    for b in f.blocks.values():
                        c = b.get("cond")
                        if c is None or len(b["succ"]) != 2 or b["succ"][1] is None:
                            continue
                        nt = fin.null_test(f, c)
                        if nt is not None and any(nt[0] == nm or nt[0] == nm + "->ref" for nm in names):
                            skip.add((b["succ"][nt[1]], 0))
                    if dpos_ is None:
                        good = C.paths_all_pass(f, w.pos, ipos | skip) and bool(ipos)
                    else:
                        od = set(p_ for p_, _r in cases if p_ is not None and p_ != dpos_)
                        good = bool(ipos) and (f.find_path(dpos_, {f.exit_pos()}, avoid=ipos | skip | od) is None or
                                               # counted first, then kept: every path to this definition has passed the increment
                                               f.find_path(f.entry_pos(), {dpos_}, avoid=(ipos | skip) - {dpos_}, after_src=False) is None)
                    if good:
                        chk.ok(rid, f, "share of %s counted" % rt[:40], where, "Atomic::increment on every path through the store", evals=2)
                    else:
                        chk.bad(rid, f, "share-without-increment:" + rt.replace("this->", "")[:40], where,
                                "the handle takes over the existing block `%s` but a path through this store does not increment its "
                                "counter: the block is freed while this handle still uses it" % rt[:60])
                # release of the old value (non-constructors)
                if f.kind != "ctor":
                    rel = set()
                    for b in f.blocks.values():
                        c = b.get("cond")
                        if c is None:
                            continue
                        kt = fin.key(f, c)
                        if kt in ("this->%s->ref" % ptr, "this->%s" % ptr) and len(b["succ"]) == 2 and b["succ"][0] is not None:
                            # true edge must lead to a decrement
                            if any(f.find_path((b["id"], len(b["el"])), {f.node_pos(i)}) is not None for i, x in atomic_calls(f, "decrement")
                                   if same_obj(x, "this->" + ptr)):
                                rel.add((b["id"], len(b["el"])))
                    for i in q.calls(f):
                        n = f.nodes[i]
                        if n.get("callee", "").endswith("::clear") and (q.call_object(f, i) is None or f.nodes[q.call_object(f, i)]["k"] == "CXXThisExpr"):
                            rel.add(f.node_pos(i))
                    # exclusive-owner in-place paths do not overwrite the pointer; check only stores
                    p = f.find_path(f.entry_pos(), {w.pos}, avoid=rel - {w.pos}, after_src=False)
                    if p is None and rel:
                        chk.ok(rid, f, "old block released before %s is overwritten" % ptr, where, "release test on every path to the store", evals=2)
                    else:
                        chk.bad(rid, f, "overwrite-without-release:" + rt.replace("this->", "")[:40], where,
                                "`%s` is overwritten on a path that did not run the release test for the block it referred to (leak of the old payload)" % ptr,
                                f.path_lines(p) if p else None)


# ----------------------------------------------------------------------------- C09.d

def acquire_before_release(prog, chk, rid, fams=tuple(FAMILIES), floor=5):
    chk.rule(rid, "ORD: in every assignment operator the increment of the incoming block precedes the release of the outgoing one "
                  "(or an alias guard dominates both)", floor=floor)
    for fam in fams:
        for f in family_functions(prog, fam):
            if f.short != "operator=":
                continue
            incs = atomic_calls(f, "increment")
            if not incs:
                continue
            rels = [i for i, x in atomic_calls(f, "decrement")]
            rels += [i for i in q.calls(f) if f.nodes[i].get("callee", "").endswith("::clear") and
                     (q.call_object(f, i) is None or f.nodes[q.call_object(f, i)]["k"] == "CXXThisExpr")]
            bad = [(r, i) for r in rels for i, _x in incs if q.reaches(f, r, i)]
            guard = bool(f.params) and bool(fin.alias_guard_edges(f, f.params[0]["n"]))
            where = "%s:%s" % (f.file, f.line)
            if bad and not guard:
                chk.bad(rid, f, "release-before-acquire", f.where(bad[0][0]),
                        "the outgoing block is released before the incoming one is acquired: with h = h (or two handles of one block) the "
                        "block is freed and then re-acquired")
            else:
                chk.ok(rid, f, "acquire precedes release", where, "no release event reaches an increment" if not bad else "alias guard", evals=max(1, len(rels) * len(incs)))


# ----------------------------------------------------------------------------- C09.e

def paired_ptr_fields(prog, chk, rid):
    chk.rule(rid, "PAIRF: RefCount::Ptr::refObj (the counted object) and obj (the typed pointer) are written together on every path, "
                  "for each handle a member touches", floor=6)
    for f in family_functions(prog, "RefCount::Ptr"):
        bases = set()
        wr = q.field_writes(f, None, None)
        for w in wr:
            if w.field in ("refObj", "obj"):
                bases.add(w.base)
        for b in sorted(bases):
            A = [w for w in wr if w.base == b and w.field == "refObj"]
            B = [w for w in wr if w.base == b and w.field == "obj"]
            where = "%s:%s" % (f.file, f.line)
            ok = bool(A) and bool(B) and all(C.paths_all_pass(f, w.pos, set(x.pos for x in B)) for w in A) and \
                all(C.paths_all_pass(f, w.pos, set(x.pos for x in A)) for w in B)
            if ok:
                chk.ok(rid, f, "%s.refObj and %s.obj written together" % (b, b), where, "prefix/suffix path search", evals=len(A) + len(B))
            else:
                chk.bad(rid, f, "unpaired-handle-fields:" + b.replace("this", "self"), where,
                        "`%s` gets a new %s without the matching %s on some path: the handle then counts one object and points to another" % (
                            b, "obj" if B and not A else "refObj", "refObj" if B and not A else "obj"))


# ----------------------------------------------------------------------------- C09.f

def handle_rule_of_three(prog, chk, rid, fams=tuple(FAMILIES)):
    chk.rule(rid, "class fact: every handle class has user-provided destructor, copy constructor and copy assignment", floor=len(fams))
    for fam in fams:
        d = FAMILIES[fam]
        recs = [r for tn, r in prog.records.items() if r["name"] == d["cls"] or (fam == "RefCount::Ptr" and tn.startswith("RefCount::Ptr<"))]
        if fam == "RefCount::Ptr":
            keep = set(C.class_insts(prog, "RefCount::Ptr"))
            recs = [r for r in recs if r["tname"] in keep]
        if not recs:
            raise AnalysisBroken("record %s not found" % fam)
        for r in recs:
            sm = r["special"]
            where = "%s:%s" % (r["file"], r["line"])
            good = ("user", "declared")
            if sm["dtor"] in good and sm["copyctor"] in good and sm["copyassign"] in good:
                chk.ok(rid, d["cls"], "special members of %s" % r["tname"], where, str(sm), nontrivial=False)
            else:
                miss = [k for k in ("dtor", "copyctor", "copyassign") if sm[k] not in good]
                chk.bad(rid, d["cls"], "implicit-" + "+".join(miss), where,
                        "%s counts references in its destructor/copy constructor but its %s is implicit: the implicit member copies the "
                        "pointer without counting (double free, leak)" % (r["tname"], ", ".join(miss)))


# ----------------------------------------------------------------------------- C09.g

def clone_into_fresh(prog, chk, rid, fams=("Variant", "Xml::Variant"), floor=10):
    chk.rule(rid, "DOM: every placement-new of a payload targets the block allocated in the same function (the local new block, or "
                  "`data` only when the allocation into `data` dominates it), never the block currently shared", floor=floor)
    for fam in fams:
        d = FAMILIES[fam]
        for f in family_functions(prog, fam):
            defs = q.local_defs(f)
            for pn in C.placement_news(f):
                n = f.nodes[pn]
                tgt = f.strip(n["place"][0])
                t = q.no_casts(C.norm(f, tgt, {}, defs))
                if f.nodes[tgt]["k"] == "DeclRefExpr" and t == f.nodes[tgt]["ref"]["n"]:
                    # a local assigned on several branches: take the definition that reaches the construction
                    rd = q.reaching_def(f, f.nodes[tgt]["ref"]["id"], pn, defs)
                    if rd is not None:
                        t = q.no_casts(C.norm(f, rd, {}, defs))
                where = f.where(pn)
                m = re.match(r"^\((.+) \+ 1\)$", t)
                base = m.group(1) if m else None
                if base is None:
                    chk.bad(rid, f, "placement-target-shape", where, "payload constructed at `%s`, expected <block> + 1" % t[:60])
                    continue
                if "new char[]" in base:
                    chk.ok(rid, f, "payload constructed in the freshly allocated local block", where, t[:60])
                    continue
                if base == "this->" + d["ptr"]:
                    fresh = [w for w in q.field_writes(f, d["ptr"], "this") if w.rhs is not None and "new char[]" in q.no_casts(C.norm(f, w.rhs, {}, defs))]
                    p = f.node_pos(pn)
                    ok = any(f.dominates_pos(w.pos, p) and not any(f.find_path(w.pos, {o.pos}) is not None and f.find_path(o.pos, {p}) is not None
                                                                   for o in q.field_writes(f, d["ptr"], "this") if o is not w) for w in fresh)
                    # a call to clear() between the allocation and the construction would reset data
                    if ok:
                        chk.ok(rid, f, "payload constructed in `data` right after `data = new ...`", where, "allocation dominates the construction", evals=2)
                        continue
                chk.bad(rid, f, "clone-into-shared-block", where,
                        "the payload is constructed at `%s`, which is not the block allocated in this function: a clone written over the "
                        "shared payload corrupts every other holder and leaves the new block unconstructed" % t[:60])


# ----------------------------------------------------------------------------- C09.h / C06.b / C07.b

def _enum_values(prog, prefix):
    vals = {}
    for f in prog.functions.values():
        for n in f.nodes:
            if n["k"] == "DeclRefExpr" and n["ref"].get("dk") == "enumconst" and n["ref"].get("q", "").startswith(prefix):
                vals[n["ref"]["q"]] = n["ref"]["v"]
    return vals


def tag_table(prog, fam):
    """payload type -> tag value, read from the allocating constructors"""
    d = FAMILIES[fam]
    table = {}
    for f in family_functions(prog, fam):
        if f.kind != "ctor":
            continue
        pn = C.placement_news(f)
        if len(pn) != 1:
            continue
        ty = f.nodes[pn[0]]["alloct"]
        for s in q.stores(f):
            ln = f.nodes[s.lhs]
            if ln["k"] == "MemberExpr" and ln["m"] == "type" and s.rhs is not None:
                v = fin.eval_expr(f, s.rhs, {})
                if v is not None:
                    table[ty] = v
    return table


def exclusive_guard(prog, chk, rid, fams=("String", "Variant", "Xml::Variant"), floor=10):
    chk.rule(rid, "FIN: a payload is modified in place / handed out mutable only under valuations with reference count exactly one "
                  "(String) resp. at most one and matching tag (Variant): the dominating guards are evaluated for ref in {0,1,2,3} "
                  "and every tag", floor=floor)
    for fam in fams:
        d = FAMILIES[fam]
        fs = family_functions(prog, fam)
        if fam == "String":
            for f in fs:
                if f.short not in ("detach", "clear"):
                    continue
                for s in q.stores(f):
                    lt = q.no_casts(f.r(s.lhs))
                    if not (lt.startswith("this->data->") or lt.startswith("this->data->str[") or lt.startswith("*this->data->str")):
                        continue
                    if lt == "this->data->ref":
                        continue
                    pos = f.node_pos(s.node)
                    feas, opaque, atoms = fin.feasible_valuations(f, pos, {"this->data->ref": (0, 1, 2, 3)})
                    refs = sorted(set(v["this->data->ref"] for v in feas))
                    if refs == [1]:
                        if f.short == "detach" and not any("capacity" in t and tr for t, tr in opaque):
                            chk.bad(rid, f, "in-place-without-capacity-test", f.where(s.node),
                                    "detach writes the terminator at the new length in place without having tested that the length fits the capacity")
                        else:
                            chk.ok(rid, f, "in-place write `%s` only when ref == 1" % lt[:40], f.where(s.node), "valuations %s" % refs, evals=4)
                    else:
                        chk.bad(rid, f, "in-place-write-while-shared:" + lt.replace("this->", "")[:40], f.where(s.node),
                                "`%s` writes the current block in place under reference counts %s; it may only do so when the count is "
                                "exactly 1 (0 = literal/attached memory, >1 = other Strings share the block)" % (f.r(s.node)[:50], refs))
            continue
        table = tag_table(prog, fam)
        if len(table) < 2:
            raise AnalysisBroken("tag table of %s could not be read from its constructors: %s" % (fam, table))
        tags = sorted(set(_enum_values(prog, d["cls"] + "::").values()) | set(table.values()))
        for f in fs:
            if f.d.get("const") or f.kind in ("ctor", "dtor"):
                continue
            defs = q.local_defs(f)
            events = []
            # (a) mutable accessors returning the current payload
            if f.short.startswith("to") and f.d["ret"].endswith("&") and not f.d["ret"].startswith("const"):
                # every place where the current payload is taken as a mutable T* (returned directly or through a local)
                for i, n in enumerate(f.nodes):
                    if n["k"] == "BinaryOperator" and n.get("op") == "+" and len(n["c"]) == 2 and q.no_casts(f.r(n["c"][0])) == "this->data" \
                       and fin.eval_expr(f, n["c"][1], {}) == 1 and f.node_pos(i) is not None:
                        pc = f.up(i)
                        while pc is not None and f.nodes[pc]["k"] in ("ParenExpr", "ImplicitCastExpr"):
                            pc = f.up(pc)
                        if pc is not None and f.nodes[pc]["k"] == "CStyleCastExpr" and f.nodes[pc].get("t", "").startswith("const "):
                            continue          # read-only view of the payload (source of a clone)
                        events.append((i, f.d["ret"].rstrip(" &"), "returns the current payload mutable"))
            # (b) assignment through the current payload
            for s in q.stores(f):
                t = q.no_casts(f.r(s.lhs))
                if t == "*(this->data + 1)":
                    ty = f.nodes[s.lhs].get("t", "")
                    events.append((s.node, ty, "assigns through the current payload"))
            # (c) a non-const member of the payload type called on the current payload (`((List*)(data + 1))->swap(copy)`)
            for c in q.calls(f):
                n = f.nodes[c]
                if n["k"] != "CXXMemberCallExpr" or (n.get("csig") or "").endswith(" const") or "~" in (n.get("callee") or ""):
                    continue        # (payload destructors are the release rule's business)
                o = q.call_object(f, c)
                if o is None:
                    continue
                ot = q.no_casts(q.xr(f, o, defs)).strip("()")
                if ot not in ("this->data + 1", "*(this->data + 1"):
                    continue
                on = f.nodes[f.strip(o)]
                while on["k"] in ("ParenExpr", "ImplicitCastExpr") and on["c"]:
                    on = f.nodes[on["c"][0]]
                if on["k"] == "DeclRefExpr" and on["ref"].get("dk") == "local" and q.single_def(f, on["ref"]["id"], defs) is not None:
                    on = f.nodes[f.strip(q.single_def(f, on["ref"]["id"], defs))]      # `List* const current = (List*)(data + 1)`
                ty = (on.get("t") or "").replace("const ", "").rstrip(" *")
                if (on.get("t") or "").startswith("const "):
                    continue
                events.append((c, ty, "calls %s on the current payload" % (n.get("callee") or "").split("::")[-1]))
            for i, ty, what in events:
                # skip when data was re-seated from new on every path to the event
                pos = f.node_pos(i)
                fresh = [w for w in q.field_writes(f, "data", "this") if f.dominates_pos(w.pos, pos)]
                if fresh:
                    continue
                want = table.get(ty)
                feas, opaque, atoms = fin.feasible_valuations(f, pos, {"this->data->ref": (0, 1, 2, 3), "this->data->type": tags})
                badv = [v for v in feas if v["this->data->ref"] > 1 or (want is not None and v["this->data->type"] != want)]
                if want is None:
                    chk.bad(rid, f, "payload-type-without-tag:" + ty[:30], f.where(i), "no constructor allocates a payload of type %s" % ty)
                elif badv:
                    chk.bad(rid, f, "mutable-access-to-shared-or-foreign-payload", f.where(i),
                            "%s %s, reachable with (ref, type) = %s; it must clone unless ref <= 1 and the tag is %d" % (
                                f.short, what, sorted(set((v["this->data->ref"], v["this->data->type"]) for v in badv))[:4], want))
                else:
                    chk.ok(rid, f, "%s only for ref<=1 and tag %d" % (what, want), f.where(i), "%d feasible valuations, all allowed" % len(feas), evals=len(tags) * 4)


# ----------------------------------------------------------------------------- C07.a TAG

def tag_casts(prog, chk, rid, fams=("Variant", "Xml::Variant"), floor=20):
    chk.rule(rid, "TAG: every cast of the payload area to a payload type is dominated by a test for the matching tag (or happens on "
                  "the block just allocated for that type); clear() has a case with the matching destructor for every allocated tag", floor=floor)
    for fam in fams:
        d = FAMILIES[fam]
        table = tag_table(prog, fam)
        if len(table) < 2:
            raise AnalysisBroken("tag table of %s could not be read: %s" % (fam, table))
        tags = sorted(set(_enum_values(prog, d["cls"] + "::").values()) | set(table.values()))
        for f in family_functions(prog, fam):
            defs = q.local_defs(f)
            for i, n in enumerate(f.nodes):
                if n["k"] != "CStyleCastExpr" or not n["c"]:
                    continue
                inner = q.no_casts(f.r(n["c"][0]))
                m = re.match(r"^\((this->data|\w+\.data|\w+) \+ 1\)$", inner)
                if not m:
                    continue
                ty = n["t"].replace("const ", "").rstrip(" *").strip()
                if ty not in table:
                    continue
                base = m.group(1)
                pos = f.node_pos(i)
                where = f.where(i)
                if base not in ("this->data",) and "." not in base:
                    # a local: must be the freshly allocated block
                    init = None
                    bn = f.nodes[f.strip(f.nodes[f.strip(n["c"][0])]["c"][0])]
                    if bn["k"] == "DeclRefExpr":
                        init = q.single_def(f, bn["ref"]["id"], defs)
                    if init is not None and "new char[]" in f.r(init):
                        chk.ok(rid, f, "cast of the fresh block to %s" % ty[:30], where, "local block from new", nontrivial=False)
                        continue
                    # an alias of a handle's block (e.g. the parameter of an inlined helper): decided by the tag test below
                    if not (init is not None and re.match(r"^(this->data|\w+\.data)$", q.no_casts(q.xr(f, init, defs)))):
                        chk.bad(rid, f, "cast-of-unknown-block", where, "`%s` is cast to %s but is not the block allocated here" % (base, ty))
                        continue
                if base == "this->data":
                    fw = [w for w in q.field_writes(f, "data", "this") if w.rhs is not None and "new char[]" in q.no_casts(C.norm(f, w.rhs, {}, defs)) and f.dominates_pos(w.pos, pos)]
                    if fw:
                        chk.ok(rid, f, "cast of the block just allocated into data (%s)" % ty[:30], where, "allocation dominates", nontrivial=False)
                        continue
                kt = base + "->type"
                feas, opaque, atoms = fin.feasible_valuations(f, pos, {kt: tags})
                vals = sorted(set(v[kt] for v in feas))
                if vals == [table[ty]]:
                    chk.ok(rid, f, "(%s*)(%s + 1) under tag %d" % (ty[:30], base, table[ty]), where, "feasible tags %s" % vals, evals=len(tags))
                else:
                    chk.bad(rid, f, "payload-cast-without-matching-tag:" + ty[:30], where,
                            "the payload of `%s` is read as %s while its tag may be %s (expected %d): type confusion on the shared block" % (
                                base, ty, vals[:6], table[ty]))
        # exhaustiveness of clear()
        for f in [f for f in family_functions(prog, fam) if f.short == "clear"]:
            ev = C.dtor_events(f)
            for ty, tag in sorted(table.items(), key=lambda x: x[1]):
                hit = False
                for dn, obj in ev:
                    ot = f.nodes[obj].get("t", "") if obj is not None else ""
                    if ot.replace("const ", "").rstrip(" *").strip() != ty:
                        continue
                    # tags under which this destructor call is reachable (switch labels and if-chains alike)
                    kt = "this->%s->type" % d["ptr"]
                    feas, _opq, _atoms = fin.feasible_valuations(f, f.node_pos(dn), {kt: tags})
                    if sorted(set(v[kt] for v in feas)) == [tag]:
                        hit = True
                if hit:
                    chk.ok(rid, f, "clear() destroys tag %d as %s" % (tag, ty[:30]), "%s:%s" % (f.file, f.line), "case label + destructor type", evals=2)
                else:
                    chk.bad(rid, f, "clear-misses-tag:%d" % tag, "%s:%s" % (f.file, f.line),
                            "clear() has no case for tag %d that runs ~%s: payloads of that alternative leak or are destroyed as another type" % (tag, ty))


# ----------------------------------------------------------------------------- own payload read after release (C07.h / C09.j)

def _releasing_members(prog, fam):
    """signatures of members of the family that give up this handle's reference (contain Atomic::decrement on the handle's counter)"""
    d = FAMILIES[fam]
    out = set()
    fs = family_functions(prog, fam)
    for f in fs:
        if any(same_obj(x, "this->" + d["ptr"]) for _c, x in atomic_calls(f, "decrement")):
            out.add(f.sig)
    # one level of delegation (a member that calls a releasing member on this)
    for f in fs:
        for c in q.calls(f):
            n = f.nodes[c]
            if n.get("csig") in out and n["k"] == "CXXMemberCallExpr":
                o = q.call_object(f, c)
                if o is None or f.nodes[o]["k"] == "CXXThisExpr":
                    pass
    return out


def _is_this_obj(f, c):
    o = q.call_object(f, c)
    if o is None:
        return f.nodes[c]["k"] == "CXXMemberCallExpr"
    x = o
    while f.nodes[x]["k"] in ("CStyleCastExpr", "ParenExpr", "ImplicitCastExpr", "CXXStaticCastExpr", "CXXConstCastExpr") and f.nodes[x]["c"]:
        x = f.strip(f.nodes[x]["c"][0])
    return f.nodes[x]["k"] == "CXXThisExpr"


def own_payload_after_release(prog, chk, rid, fams=("Variant", "Xml::Variant"), floor=10):
    chk.rule(rid, "ORD: after a member gave up its reference to the payload (clear() / decrement) and before `data` is re-seated, it does not "
                  "read the old payload (directly or through a const accessor of *this), and it does not hand a reference into its own payload "
                  "to a member that releases before reading that parameter", floor=floor)
    for fam in fams:
        d = FAMILIES[fam]
        fs = family_functions(prog, fam)
        by_sig = {f.sig: f for f in fs}
        rel = _releasing_members(prog, fam)
        ptr = "this->" + d["ptr"]

        def releases(f):
            ev = [c for c, x in atomic_calls(f, "decrement") if same_obj(x, ptr)]
            for c in q.calls(f):
                n = f.nodes[c]
                if n.get("csig") in rel and n["k"] == "CXXMemberCallExpr" and _is_this_obj(f, c):
                    ev.append(c)
            return ev

        def payload_reads(f):
            """nodes that read this handle's payload: `(T*)(data + 1)` expressions and const-accessor calls on *this"""
            out = []
            for i, n in enumerate(f.nodes):
                if n["k"] == "BinaryOperator" and n.get("op") == "+" and len(n["c"]) == 2 and q.no_casts(f.r(n["c"][0])) == ptr:
                    out.append(i)
                elif n["k"] == "CXXMemberCallExpr" and _is_this_obj(f, i):
                    g = by_sig.get(n.get("csig"))
                    if g is not None and g.d.get("const") and g is not f and any(
                            m["k"] == "BinaryOperator" and m.get("op") == "+" and q.no_casts(g.r(m["c"][0])) == ptr for m in g.nodes if len(m.get("c", [])) == 2):
                        out.append(i)
            return out

        # hazard parameters: reference/pointer parameter read after a release
        hazard = {}
        for f in fs:
            ev = releases(f)
            if not ev:
                continue
            for k, p in enumerate(f.params):
                if not (p["t"].endswith("&") or p["t"].endswith("*")):
                    continue
                reads = [i for i, n in enumerate(f.nodes) if n["k"] == "DeclRefExpr" and n["ref"]["id"] == p["id"]]
                if any(q.reaches(f, e, r) for e in ev for r in reads):
                    hazard.setdefault(f.sig, set()).add(k)
        for f in fs:
            if f.d.get("const") or f.kind == "dtor":
                continue
            ev = releases(f)
            reads = payload_reads(f)
            seats = set(w.pos for w in q.field_writes(f, d["ptr"], "this"))
            where = "%s:%s" % (f.file, f.line)
            bad = None
            if f.sig not in rel:     # the releasing member itself destroys the payload under its own decrement test (C09.b)
                for e in ev:
                    for r in reads:
                        if r in f.desc(e):
                            continue
                        pe, pr = f.node_pos(e), f.node_pos(r)
                        if pe is None or pr is None:
                            continue
                        if f.find_path(pe, {pr}, avoid=seats - {pr}) is not None:
                            bad = (e, r)
                            break
                    if bad:
                        break
            if bad:
                chk.bad(rid, f, "own-payload-read-after-release", f.where(bad[1]),
                        "`%s` reads this handle's payload after `%s` gave the reference up and before `%s` is re-seated: the value read is the "
                        "null payload (the previous value is lost) or, when another thread drops the last other handle in between, freed memory"
                        % (f.r(bad[1])[:60], f.r(bad[0])[:40], d["ptr"]), evals=max(1, len(ev) * max(1, len(reads))))
            elif ev:
                chk.ok(rid, f, "payload not read between release and re-seat", where, "%d release events x %d payload reads" % (len(ev), len(reads)),
                       evals=max(1, len(ev) * max(1, len(reads))))
            # own payload handed to a member that releases first
            for c in q.calls(f):
                n = f.nodes[c]
                hz = hazard.get(n.get("csig"))
                if not hz or n["k"] not in ("CXXMemberCallExpr", "CXXOperatorCallExpr"):
                    continue
                args = q.call_args(f, c)
                if n["k"] == "CXXOperatorCallExpr":
                    # args[0] is the object
                    obj, args = args[0], args[1:]
                    x = f.strip(obj)
                    while f.nodes[x]["k"] in ("UnaryOperator", "ParenExpr") and f.nodes[x]["c"]:
                        x = f.strip(f.nodes[x]["c"][0])
                    if f.nodes[x]["k"] != "CXXThisExpr":
                        continue
                elif not _is_this_obj(f, c):
                    continue
                for k in hz:
                    if k < len(args) and any(r in f.desc(args[k]) or r == f.strip(args[k]) for r in reads):
                        chk.bad(rid, f, "own-payload-passed-to-releasing-member:" + n["callee"].split("::")[-1], f.where(c),
                                "`%s` refers into this handle's own payload and is handed to %s, which gives the reference up before it reads that "
                                "parameter: the copy is taken from a payload this handle no longer keeps alive" % (f.r(args[k])[:60], n["callee"]))
                    elif k < len(args):
                        chk.ok(rid, f, "argument of %s is not this handle's payload" % n["callee"].split("::")[-1], f.where(c), f.r(args[k])[:50], nontrivial=False)


# ----------------------------------------------------------------------------- argument inside the released payload

def argument_after_release(prog, chk, rid, fams=("Variant", "Xml::Variant", "RefCount::Ptr"), floor=4):
    """The payloads of these handles can themselves contain handles (a Variant holds lists and maps of Variants, the object behind a
    RefCount::Ptr may have Ptr members): the argument of an assignment may live inside the payload the assignment releases
    (`v = v.toList().front()`, `node = node->next`).  Everything needed from the argument must therefore be taken before the release."""
    chk.rule(rid, "ORD under aliasing: in every assignment operator of a handle whose payload can contain such handles, no read through the "
                  "reference argument is reachable from the release of the own payload (clear() / delete of the counted block)", floor=floor)
    for fam in fams:
        d = FAMILIES[fam]
        for f in family_functions(prog, fam):
            if f.short != "operator=" or len(f.params) != 1 or not f.params[0]["t"].rstrip().endswith("&"):
                continue
            other = f.params[0]
            rel = [i for i in q.calls(f) if f.nodes[i].get("callee", "").endswith("::clear") and
                   (q.call_object(f, i) is None or f.nodes[q.call_object(f, i)]["k"] == "CXXThisExpr")]
            for i, n in enumerate(f.nodes):
                if n["k"] == "CXXDeleteExpr" and n["c"]:
                    t = q.no_casts(f.r(n["c"][0])).replace("this->", "")
                    if t == d["ptr"]:
                        rel.append(i)
            reads = [i for i, n in enumerate(f.nodes) if n["k"] == "DeclRefExpr" and n["ref"].get("id") == other["id"] and f.node_pos(i) is not None]
            where = "%s:%s" % (f.file, f.line)
            # the in-place branch hands the argument to the payload's own assignment operator: if that operator destroys its elements
            # before it reads its argument (summary read off the callee), an argument that lives inside one of those elements is gone
            for c in q.calls(f):
                n = f.nodes[c]
                if n["k"] != "CXXOperatorCallExpr" or n.get("oop") != "=" or len(n["c"]) < 3:
                    continue
                lhs_t, arg = q.no_casts(f.r(n["c"][1])), n["c"][2]
                if not re.search(r"this->%s \+ 1" % re.escape(d["ptr"]), lhs_t):
                    continue
                if not any(f.nodes[x]["k"] == "DeclRefExpr" and f.nodes[x]["ref"].get("id") == other["id"] for x in [f.strip(arg)] + list(f.desc(arg))):
                    continue
                callee = n.get("callee", "")
                g = next((h for h in prog.functions.values() if h.name == callee or h.gname == callee), None)
                destroys_first = None
                if g is not None and g.blocks and g.params:
                    gp = g.params[0]
                    dest = [i for i in q.calls(g) if g.nodes[i].get("callee", "").endswith("::clear")] + [x for x, _o in C.dtor_events(g)] + \
                           [i for i, m_ in enumerate(g.nodes) if m_["k"] == "CXXDeleteExpr"]
                    rds = [i for i, m_ in enumerate(g.nodes) if m_["k"] == "DeclRefExpr" and m_["ref"].get("id") == gp["id"] and g.node_pos(i) is not None]
                    destroys_first = any(q.reaches(g, a_, b_) for a_ in dest for b_ in rds)
                ctype = callee.split("::operator=")[0]
                if destroys_first and fam.split("::")[-1] in (n.get("ccls", "") + callee + f.r(n["c"][1])):
                    chk.bad(rid, f, "argument-handed-to-destroying-assignment:" + other["n"], f.where(c),
                            "`%s` is assigned in place through %s, which destroys the current elements before it reads its argument; when "
                            "the argument lives inside one of those elements (`v = v.toList().front().toList()`) it is read after its "
                            "destruction" % (other["n"], callee), evals=3)
                elif destroys_first is not None:
                    chk.ok(rid, f, "in-place assignment through %s" % ctype, f.where(c), "callee summary: destroys before reading = %s" % destroys_first, evals=2)
            if not rel:
                chk.ok(rid, f, "assignment releases nothing itself", where, "no clear()/delete in this overload", nontrivial=False)
                continue
            bad = None
            for r in rel:
                for x in reads:
                    if f.node_pos(x) != f.node_pos(r) and q.reaches(f, r, x):
                        bad = (r, x)
                        break
                if bad:
                    break
            if bad:
                chk.bad(rid, f, "argument-read-after-release:" + other["n"], f.where(bad[1]),
                        "`%s` is read after `%s` released the own payload; when the argument lives inside that payload (an element of the "
                        "list/map this handle owns, a Ptr member of the object it points to) it has been destroyed by then: read of freed "
                        "memory" % (other["n"], f.r(bad[0])[:40]), evals=len(rel) * max(1, len(reads)))
            else:
                chk.ok(rid, f, "everything is taken from the argument before the own payload is released", where,
                       "no release event reaches a read of `%s`" % other["n"], evals=len(rel) * max(1, len(reads)))


# ----------------------------------------------------------------------------- every acquired reference is kept

def increment_is_kept(prog, chk, rid, fams=tuple(FAMILIES), floor=6):
    """an increment counts a new handle: on every path through it the handle's pointer is (or has been) set to the very block whose
    counter was raised - otherwise the count stays one too high for ever and the block is never released"""
    chk.rule(rid, "PAIRF: every path through `Atomic::increment(X->ref)` in a handle member also passes a store of X into the handle's "
                  "pointer (before or after it)", floor=floor)
    for fam in fams:
        d = FAMILIES[fam]
        ptr = d["ptr"]
        for f in family_functions(prog, fam):
            incs = atomic_calls(f, "increment")
            if not incs:
                continue
            defs = q.local_defs(f)
            writes = [w for w in q.field_writes(f, ptr, "this") if w.rhs is not None]
            for i, x in incs:
                ipos = f.node_pos(i)
                if ipos is None:
                    continue
                names = {x, q.no_casts(q.xr(f, f.nodes[i]["c"][1] if len(f.nodes[i]["c"]) > 1 else i, defs))}
                keep = []
                for w in writes:
                    rt = q.no_casts(C.norm(f, w.rhs, {}, defs))
                    raw = q.no_casts(f.r(w.rhs))
                    if any(same_obj(nm, rt) or same_obj(nm, raw) or same_obj(nm, "this->" + ptr) and w.pos == ipos for nm in names) or \
                       same_obj(x, "this->" + ptr) or same_obj(expand_ref(f, x, defs), rt) or same_obj(expand_ref(f, x, defs), raw):
                        keep.append(w.pos)
                # the block may travel through a local that is set on several branches (`newData = other.data` on this one): the
                # definition that takes the block lies on every path through the increment, and the handle is set from that local afterwards
                if not (keep and C.paths_all_pass(f, ipos, set(keep))):
                    for did, dl in defs.items():
                        for kind, nd, init in dl:
                            if init is None or kind == "addr" or f.node_pos(nd) is None:
                                continue
                            it = q.no_casts(f.r(init))
                            if not any(same_obj(nm, it) for nm in names | {expand_ref(f, x, defs)}):
                                continue
                            lname = next((n_["ref"]["n"] for n_ in f.nodes if n_["k"] == "DeclRefExpr" and n_["ref"].get("id") == did), None)
                            lw = [w.pos for w in writes if q.no_casts(f.r(w.rhs)) == lname]
                            others = [f.node_pos(o[1]) for o in dl if o[1] != nd and o[2] is not None and f.node_pos(o[1]) is not None]
                            if lw and C.paths_all_pass(f, ipos, {f.node_pos(nd)}) and \
                               f.find_path(f.node_pos(nd), {f.exit_pos()}, avoid=set(lw)) is None and \
                               not any(f.find_path(f.node_pos(nd), {o_}) is not None and any(f.find_path(o_, {w_}) is not None for w_ in lw) for o_ in others):
                                keep = [f.node_pos(nd)]
                if same_obj(x, "this->" + ptr) or same_obj(expand_ref(f, x, defs), "this->" + ptr):
                    # the own block's counter (copy constructors initialise the pointer first): the handle already holds it
                    chk.ok(rid, f, "increment of the block the handle already points to", f.where(i), "x is this->%s" % ptr, nontrivial=False)
                    continue
                if keep and (C.paths_all_pass(f, ipos, set(keep)) or fin.through_all_pass(f, ipos, set(keep))):
                    chk.ok(rid, f, "reference to %s acquired and kept" % x.replace("this->", ""), f.where(i), "store of the block on every path through the increment", evals=2)
                else:
                    chk.bad(rid, f, "reference-acquired-but-not-kept:" + x.replace("this->", ""), f.where(i),
                            "a path raises the counter of `%s` and leaves without storing that block into this handle: one reference too many is "
                            "counted for ever, the block is never released (and never seen as exclusively owned again)" % x, evals=2)


def expand_ref(f, x, defs):
    """`otherData` -> what the local was initialised with (one step), for comparing designations"""
    for n in f.nodes:
        if n["k"] == "DeclRefExpr" and n["ref"].get("dk") == "local" and n["ref"]["n"] == x:
            ini = q.single_def(f, n["ref"]["id"], defs)
            if ini is not None:
                return q.no_casts(f.r(ini))
            break
    return x
