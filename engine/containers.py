"""Rule instances shared by C02-C05 (and C01 for the threaded list): node containers
List, Map, MultiMap, HashMap, HashSet, PoolList, PoolMap and the contiguous Array.

Every rule works on the instantiated member functions of /repo's current headers
(witness/instantiate.cpp supplies explicit instantiations).  Class descriptors below were
confirmed by reading the code and are the frozen slot table of the rule templates."""
import re
from . import q, fin
from .facts import AnalysisBroken

NODE = {
    # payload: fields of Item holding user data; pool: where the element lives for pool containers
    "List":     dict(payload=["value"], hash=False, tree=False, pool=None, swap=True),
    "Map":      dict(payload=["key", "value"], hash=False, tree=True, pool=None, swap=False),
    "MultiMap": dict(payload=["key", "value"], hash=False, tree=True, pool=None, swap=False),
    "HashMap":  dict(payload=["key", "value"], hash=True, tree=False, pool=None, swap=True),
    "HashSet":  dict(payload=["key"], hash=True, tree=False, pool=None, swap=True),
    "PoolList": dict(payload=[], hash=False, tree=False, pool="after", swap=True),
    "PoolMap":  dict(payload=["value", "key"], hash=True, tree=False, pool="first", swap=True),
}
ALL = list(NODE) + ["Array"]


def class_insts(prog, cls):
    """instantiations (tname) of a container template present in the extracted program"""
    out = {}
    for f in prog.functions.values():
        if f.clsq == cls and f.cls:
            out.setdefault(f.cls, []).append(f)
    # only complete instantiations (every public member has a body): the explicit instantiations of the
    # witness unit; implicit ones from library units contain just the members that unit happens to use
    for tn in list(out):
        rec = prog.records.get(tn)
        if rec is None or any(m["access"] == 0 and not m["defined"] and not m["deleted"] for m in rec["methods"]):
            del out[tn]
    if not out:
        raise AnalysisBroken("no instantiation of %s found (witness unit broken?)" % cls)
    return out


def methods(fs, short, nparams=None, pred=None):
    r = [f for f in fs if f.short == short and (nparams is None or len(f.params) == nparams)]
    if pred:
        r = [f for f in r if pred(f)]
    return r


# ----------------------------------------------------------------------------- normalised text

def norm(f, i, roles=None, defs=None, depth=0):
    """canonical text: single-definition locals expanded, role locals replaced by placeholders,
    the value of an assignment expression read as its right-hand side, casts dropped."""
    roles = roles or {}
    if defs is None:
        defs = q.local_defs(f)
    i = f.strip(i)
    n = f.nodes[i]
    k = n["k"]
    c = n["c"]
    N = lambda x: norm(f, x, roles, defs, depth)
    if k == "DeclRefExpr":
        rid = n["ref"]["id"]
        if rid in roles:
            return roles[rid]
        if n["ref"]["dk"] == "local" and depth < 6 and not n.get("t", "").endswith("]"):
            init = q.single_def(f, rid, defs)
            if init is not None:
                return norm(f, init, roles, defs, depth + 1)
        return f.r(i)
    if k == "BinaryOperator" and n["op"] == "=":
        return N(c[1])
    if k in ("BinaryOperator", "CompoundAssignOperator"):
        return "(%s %s %s)" % (N(c[0]), n["op"], N(c[1]))
    if k == "UnaryOperator":
        a = N(c[0])
        if n.get("op") == "&" and not n.get("post") and re.fullmatch(r"\(?\*[\w$>.-]+\)?", a):
            return a.strip("()")[1:]         # `&*p` designates p
        return a + n["op"] if n.get("post") else n["op"] + a
    if k == "MemberExpr" and c:
        return N(c[0]) + ("->" if n.get("arrow") else ".") + n["m"]
    if k in ("CStyleCastExpr", "CXXStaticCastExpr", "CXXReinterpretCastExpr", "CXXFunctionalCastExpr", "CXXConstCastExpr") and c:
        return N(c[0])
    if k == "ArraySubscriptExpr":
        return "%s[%s]" % (N(c[0]), N(c[1]))
    if k == "CXXConstructExpr" and len(c) == 1:
        return N(c[0])
    if k == "CXXOperatorCallExpr" and n.get("oop") == "*" and len(c) == 2:
        return "*" + N(c[1])
    if k == "ConditionalOperator" and len(c) == 3:
        return "(%s ? %s : %s)" % (N(c[0]), N(c[1]), N(c[2]))
    return f.r(i)


def nstores(f, roles=None, root=None):
    """[(store, lhs text, rhs text)] with normalised texts; ++x / --x read as ('x', 'x+1'/'x-1')"""
    defs = q.local_defs(f)
    out = []
    for s in q.stores(f, root):
        ln = f.nodes[s.lhs]
        # lhs: do not expand the assigned local itself
        if ln["k"] == "DeclRefExpr":
            lt = (roles or {}).get(ln["ref"]["id"], ln["ref"]["n"])
            # a store through a reference local writes its referent
            if ln["ref"]["id"] not in (roles or {}) and ln["ref"].get("t", "").rstrip().endswith("&"):
                init = q.single_def(f, ln["ref"]["id"], defs)
                if init is not None:
                    lt = _lhs_norm(f, init, roles, defs)
        else:
            lt = _lhs_norm(f, s.lhs, roles, defs)
        if s.rhs is None:
            rt = lt + ("+1" if s.op == "++" else "-1")
        else:
            rt = norm(f, s.rhs, roles, defs)
            if s.op != "=":
                rt = "%s %s %s" % (lt, s.op, rt)
        # `(p ? p->link : head) = v` is the guarded pair of stores p->link = v / head = v (p tested for null before its dereference)
        m = re.match(r"^\((.+?) \? (.+) : (.+)\)$", lt)
        if m and m.group(2).startswith(m.group(1) + "->") and " ? " not in m.group(2) + m.group(3):
            out.append((s, m.group(2), rt))
            out.append((s, m.group(3), rt))
            continue
        out.append((s, lt, rt))
    return out


def _lhs_norm(f, i, roles, defs):
    i = f.strip(i)
    n = f.nodes[i]
    c = n["c"]
    if n["k"] == "MemberExpr" and c:
        return norm(f, c[0], roles, defs) + ("->" if n.get("arrow") else ".") + n["m"]
    if n["k"] == "UnaryOperator" and n["op"] == "*":
        return "*" + norm(f, c[0], roles, defs)
    if n["k"] == "ArraySubscriptExpr":
        return "%s[%s]" % (norm(f, c[0], roles, defs), norm(f, c[1], roles, defs))
    if n["k"] == "CXXOperatorCallExpr" and n.get("oop") == "*" and len(c) == 2:
        return "*" + norm(f, c[1], roles, defs)
    return norm(f, i, roles, defs)


def dtor_events(f):
    """explicit destructor calls: (node id, object expression node id)"""
    out = []
    for i, n in enumerate(f.nodes):
        if n["k"] == "CXXMemberCallExpr" and n.get("cdtor"):
            out.append((i, q.call_object(f, i)))
        elif n["k"] == "CallExpr" and n["c"]:
            c0 = f.nodes[f.strip(n["c"][0])]
            if c0["k"] == "CXXPseudoDestructorExpr":
                out.append((i, f.strip(c0["c"][0]) if c0["c"] else None))
    return out


def _depth_guard(f, i, _seen={}):
    return True


_KNOWN_PTRS = []


def _is_new_pointer_local(f, ref):
    """a pointer-typed local that the unchanged tree does not declare in this function (engine/known_ptr_locals.json)"""
    if not _KNOWN_PTRS:
        from . import inline
        _KNOWN_PTRS.append(inline.load_known_ptrs() or {})
    t = (ref.get("t") or "").replace(" ", "")
    if not (t.endswith("*") or t.endswith("*const")):
        return False
    from . import inline
    return ref.get("n") not in set(_KNOWN_PTRS[0].get(inline.strip_targs(f.name), []))


def base_local(f, i):
    """the local variable at the root of an object expression like ((T*)(item + 1)) or item or *it"""
    while i is not None and i >= 0:
        i = f.strip(i)
        n = f.nodes[i]
        if n["k"] == "DeclRefExpr":
            rid_ = str(n["ref"].get("id", ""))
            if n["ref"]["dk"] == "local" and ("@" in rid_ or rid_.startswith("inl-ret") or _is_new_pointer_local(f, n["ref"])) and _depth_guard(f, i):
                # a parameter / result of an inlined helper - or a pointer local the tree does not have (`T* const element = (T*)(i + 1)`) -
                # stands for the expression it was bound to
                init = q.single_def(f, n["ref"]["id"])
                if init is not None and base_local(f, init) is not None:
                    i = init
                    continue
            return n["ref"] if n["ref"]["dk"] in ("local", "parm") else None
        if n["k"] in ("CStyleCastExpr", "CXXStaticCastExpr", "CXXReinterpretCastExpr", "UnaryOperator", "MemberExpr", "ArraySubscriptExpr") and n["c"]:
            i = n["c"][0]
            continue
        if n["k"] == "BinaryOperator" and n["op"] in ("+", "-"):
            i = n["c"][0]
            continue
        return None
    return None


def placement_news(f):
    return [i for i, n in enumerate(f.nodes) if n["k"] == "CXXNewExpr" and n.get("placement", 0) > 0]


def loop_blocks(f, node):
    """blocks of the innermost natural loop containing the CFG position of `node` (or None)"""
    p = f.node_pos(node)
    if p is None:
        return None
    b = p[0]
    # b is in a loop iff b reaches itself
    r = f.reach(f.succs_pos((b, len(f.blocks[b]["el"]))))
    if (b, 0) not in r:
        return None
    return set(x[0] for x in r if (b, 0) in f.reach(f.succs_pos((x[0], len(f.blocks[x[0]]["el"])))) or x[0] == b)


def paths_all_pass(f, through_pos, want_pos):
    """every entry->exit path through `through_pos` passes a position in want_pos (before or after)"""
    if not want_pos:
        return False
    pre = f.find_path(f.entry_pos(), {through_pos}, avoid=set(want_pos) - {through_pos}, after_src=False)
    post = f.find_path(through_pos, {f.exit_pos()}, avoid=set(want_pos))
    if through_pos in want_pos:
        return True
    return pre is None or post is None


def after_all_pass(f, from_pos, want_pos, stop_pos=()):
    """every path from just after from_pos to the exit passes a position in want_pos"""
    if not want_pos:
        return False, f.find_path(from_pos, {f.exit_pos()})
    p = f.find_path(from_pos, {f.exit_pos()}, avoid=set(want_pos) | set(stop_pos))
    return p is None, p


# ----------------------------------------------------------------------------- rules

def rule_of_three(prog, chk, rid, classes=ALL):
    """class facts: a container whose destructor releases storage declares both copy members"""
    chk.rule(rid, "class fact: every instantiated owning container has a user-provided destructor and user-declared "
                  "(defined or private-undefined) copy constructor and copy assignment", floor=len(classes))
    for cls in classes:
        for tn, fs in sorted(class_insts(prog, cls).items()):
            rec = prog.records.get(tn)
            if rec is None:
                continue
            sm = rec["special"]
            where = "%s:%s" % (rec["file"], rec["line"])
            okc = sm["copyctor"] in ("user", "declared", "private_undefined", "deleted")
            oka = sm["copyassign"] in ("user", "declared", "private_undefined", "deleted")
            if sm["dtor"] in ("user", "declared") and okc and oka:
                chk.ok(rid, cls, "special members of %s" % cls, where, str(sm), nontrivial=False)
            else:
                missing = [m for m, o in (("copy constructor", okc), ("copy assignment", oka)) if not o]
                if sm["dtor"] not in ("user", "declared"):
                    missing.append("destructor")
                chk.bad(rid, cls, "implicit-" + "+".join(missing).replace(" ", "-"), where,
                        "%s owns node blocks but its %s is implicit: the implicit copy aliases blocks, sentinel and "
                        "begin/end pointers of the source (double free / walk over a foreign sentinel)" % (cls, " and ".join(missing)))


def self_assign(prog, chk, rid, classes=("Array", "List", "Map", "MultiMap", "HashMap", "HashSet")):
    chk.rule(rid, "ORD under aliasing: in operator=(const Self& other) no event that destroys this' elements precedes a read "
                  "through `other` unless an alias guard (this == &other) dominates it", floor=len(classes))
    for cls in classes:
        for tn, fs in sorted(class_insts(prog, cls).items()):
            ops = [f for f in fs if f.kind == "copyassign"]
            if not ops:
                if prog.records.get(tn, {}).get("special", {}).get("copyassign") == "implicit":
                    continue  # reported by the rule-of-three rule
                raise AnalysisBroken("%s::operator= has no body in the witness unit" % tn)
            for f in ops:
                other = f.params[0]
                destroy = [i for i in q.calls(f) if f.nodes[i].get("callee", "").endswith("::clear")
                           and (q.call_object(f, i) is None or f.nodes[q.call_object(f, i)]["k"] == "CXXThisExpr")]
                destroy += [d for d, _o in dtor_events(f)]
                destroy += [i for i, n in enumerate(f.nodes) if n["k"] == "CXXDeleteExpr"]
                reads = [i for i, n in enumerate(f.nodes) if n["k"] == "DeclRefExpr" and n["ref"]["id"] == other["id"]]
                guard_edges = fin.alias_guard_edges(f, other["n"])
                bad = None
                for d in destroy:
                    dp = f.node_pos(d)
                    if any(f.edge_dominates(e, dp) for e in guard_edges):
                        continue
                    for r in reads:
                        if q.reaches(f, d, r):
                            bad = (d, r)
                            break
                    if bad:
                        break
                if bad:
                    chk.bad(rid, f, "destroy-before-read-of-argument", f.where(bad[0]),
                            "operator= destroys its own elements (%s) and afterwards reads the argument; with a = a the "
                            "argument is the object just emptied" % f.r(bad[0])[:60], evals=len(destroy) * max(1, len(reads)))
                else:
                    chk.ok(rid, f, "self-assignment safe", "%s:%s" % (f.file, f.line),
                           "alias guard dominates every destroying event" if guard_edges else "no destroying event precedes a read of the argument",
                           evals=max(1, len(destroy) * max(1, len(reads))))


def free_only_in_dtor(prog, chk, rid, classes=tuple(NODE)):
    chk.rule(rid, "WHO: in node/pool containers `delete[]` of node blocks (and of the bucket array) appears in the destructor only, "
                  "and the destructor releases every field that receives `new char[]`", floor=len(classes) * 2)
    for cls in classes:
        d = NODE[cls]
        for tn, fs in sorted(class_insts(prog, cls).items()):
            dt = [f for f in fs if f.kind == "dtor"]
            if not dt:
                raise AnalysisBroken("%s has no destructor body" % tn)
            for f in fs:
                if f.kind == "dtor":
                    continue
                for i, n in enumerate(f.nodes):
                    if n["k"] == "CXXDeleteExpr":
                        chk.bad(rid, f, "delete-outside-destructor", f.where(i),
                                "%s frees storage (%s) outside the destructor: elements of node containers must keep their "
                                "address until removed, and blocks are released exactly once" % (f.short, f.r(i)[:60]))
            f = dt[0]
            dels = [f.r(i) for i, n in enumerate(f.nodes) if n["k"] == "CXXDeleteExpr"]
            need = ["blocks"] + (["data"] if d["hash"] else [])
            defs = q.local_defs(f)
            for fld in need:
                hit = False
                for i, n in enumerate(f.nodes):
                    if n["k"] != "CXXDeleteExpr":
                        continue
                    t = norm(f, n["c"][0], {}, defs)
                    if t == "this->" + fld:
                        hit = True
                    # loop variable initialised from this->blocks
                    r = base_local(f, n["c"][0])
                    if r is not None:
                        for kind, _nd, init in defs.get(r["id"], []):
                            if init is not None and f.r(init) == "this->" + fld:
                                hit = True
                if hit:
                    chk.ok(rid, f, "destructor releases " + fld, "%s:%s" % (f.file, f.line), "delete[] reached from this->" + fld)
                else:
                    chk.bad(rid, f, "destructor-does-not-release-" + fld, "%s:%s" % (f.file, f.line),
                            "the destructor does not delete[] the storage held in `%s` (leak); deletes seen: %s" % (fld, dels))
            # exactly-once: each delete in the destructor is either outside loops (data) or in the block-chain loop
            chk.ok(rid, f, "no delete outside the destructor", "%s:%s" % (f.file, f.line), "scanned %d member functions" % len(fs), nontrivial=False)


def construct_targets(prog, chk, rid, classes=tuple(NODE)):
    chk.rule(rid, "DOM: every placement-new in a node container constructs into the slot just taken from the free list or a "
                  "fresh block (a local defined from freeItem / the new block), never into a linked node", floor=len(classes))
    for cls in classes:
        for tn, fs in sorted(class_insts(prog, cls).items()):
            n_inst = 0
            for f in fs:
                defs = q.local_defs(f)
                for i in placement_news(f):
                    n = f.nodes[i]
                    pl = n.get("place") or []
                    if not pl:
                        continue
                    n_inst += 1
                    tgt = f.strip(pl[0])
                    t = f.nodes[tgt]
                    ok = False
                    why = ""
                    if t["k"] == "CXXMemberCallExpr" and t.get("callee", "").endswith("::allocateFreeItem"):
                        ok, why = True, "slot from allocateFreeItem()"
                    else:
                        r = base_local(f, tgt)
                        if r is not None and r["dk"] == "local":
                            srcs = []
                            for kind, _nd, init in defs.get(r["id"], []):
                                if kind == "addr":
                                    srcs.append("&")
                                elif init is not None:
                                    srcs.append(norm(f, init, {}, defs))
                            # every definition must come from the free list or the fresh block
                            fresh = lambda s: ("freeItem" in s) or ("new char[]" in s) or re.match(r"^\w+$", s) is not None
                            ok = bool(srcs) and all(fresh(s) for s in srcs)
                            why = "definitions of %s: %s" % (r["n"], srcs)
                    if ok:
                        chk.ok(rid, f, "placement-new target", f.where(i), why)
                    else:
                        chk.bad(rid, f, "placement-new-into-non-fresh-slot", f.where(i),
                                "element constructed at `%s`, which is not a slot just taken from the free list or a fresh block "
                                "(constructing over a live node ends its element without destroying it / relocates it)" % f.r(tgt)[:60])
            if n_inst == 0:
                chk.bad(rid, cls, "no-placement-new", "", "%s constructs no element in place" % tn)


def destroy_once(prog, chk, rid, classes=tuple(NODE)):
    """remove(): exactly one destructor call per path, then recycle; clear()/~C(): destructor in the list walk"""
    chk.rule(rid, "CNT/MPT: every path of the node-removing member runs the element destructor exactly once and then pushes the "
                  "slot on the free list; clear() and the destructor destroy every node of the list walk", floor=len(classes) * 3)
    for cls in classes:
        for tn, fs in sorted(class_insts(prog, cls).items()):
            cores = [f for f in fs if f.short == "remove" and dtor_events(f)]
            if not cores:
                chk.bad(rid, cls, "remove-without-destructor-call", "", "no remove() overload of %s destroys the removed element" % tn)
            for f in cores:
                ev = dtor_events(f)
                dn = [d for d, _ in ev]
                p_none = q.must_pass_from_entry(f, dn)
                twice = any(q.reaches(f, a, b) for a in dn for b in dn)
                R = base_local(f, ev[0][1])
                roles = {R["id"]: "$R"} if R else {}
                st = nstores(f, roles)
                push = [s.node for s, l, r in st if l == "this->freeItem" and r == "$R"]
                link = [s.node for s, l, r in st if l == "$R->prev" and r == "this->freeItem"]
                where = f.where(dn[0])
                if p_none is not None:
                    chk.bad(rid, f, "path-without-destructor", where, "a path through remove() does not destroy the removed element (leak of its resources)", f.path_lines(p_none))
                elif twice:
                    chk.bad(rid, f, "destructor-twice", where, "a path through remove() destroys the element twice")
                else:
                    chk.ok(rid, f, "remove destroys exactly once", where, "must-pass + no destructor reaches another", evals=2)
                okp, pth = after_all_pass(f, f.node_pos(dn[0]), q.pos_of(f, push))
                okl, pth2 = after_all_pass(f, f.node_pos(dn[0]), q.pos_of(f, link))
                if okp and okl and all(q.reaches(f, l, p) for l in link for p in push):
                    chk.ok(rid, f, "removed slot recycled", where, "prev = freeItem; freeItem = node on every path after the destructor", evals=2)
                else:
                    chk.bad(rid, f, "slot-not-recycled", where,
                            "after destroying the element the slot is not pushed on the free list on every path "
                            "(`node->prev = freeItem; freeItem = node`): the slot leaks until destruction or the free list is corrupted",
                            f.path_lines(pth or pth2 or []))
            for short in ("clear", "~" + cls):
                for f in methods(fs, short):
                    ev = dtor_events(f)
                    ok = False
                    for d, obj in ev:
                        lb = loop_blocks(f, d)
                        R = base_local(f, obj)
                        if lb is None or R is None:
                            continue
                        defs = q.local_defs(f)
                        # the destroyed node may be read out of the loop's iterator first (`Item* item = i.item;`)
                        inits_ = [init for kind, _n, init in defs.get(R["id"], []) if init is not None]
                        if len(inits_) == 1:
                            R_it = base_local(f, inits_[0])
                            if R_it is not None and R_it["id"] != R["id"] and "Iterator" in R_it.get("t", ""):
                                R = R_it
                        ds = [norm(f, init, {}, defs) for kind, _n, init in defs.get(R["id"], []) if init is not None]
                        if "this->_begin.item" in ds and any(s.endswith("->next") for s in ds):
                            ok = True
                        # the same walk written with the container's Iterator: starts at _begin, stepped by operator++ inside the loop
                        if ("this->_begin" in ds or "this->begin()" in ds) and any(
                                n["k"] == "CXXOperatorCallExpr" and n.get("oop") == "++" and (f.node_pos(n["i"]) or (None,))[0] in lb and
                                base_local(f, n["c"][1] if len(n["c"]) > 1 else -1) is not None and base_local(f, n["c"][1])["id"] == R["id"] for n in f.nodes):
                            ok = True
                    if ok:
                        chk.ok(rid, f, "%s destroys every node of the list walk" % short, "%s:%s" % (f.file, f.line), "destructor call inside the _begin..endItem loop")
                    else:
                        chk.bad(rid, f, "walk-without-destructor", "%s:%s" % (f.file, f.line),
                                "%s does not run the element destructor for every node between _begin and the sentinel" % short)


def unlink_idiom(prog, chk, rid, classes=tuple(NODE)):
    chk.rule(rid, "MPT: the node-removing member unlinks the node from the order list in both directions (or re-seats _begin when "
                  "it was first), decrements _size exactly once, and returns the successor", floor=len(classes))
    for cls in classes:
        d = NODE[cls]
        for tn, fs in sorted(class_insts(prog, cls).items()):
            for f in [f for f in fs if f.short == "remove" and dtor_events(f)]:
                ev = dtor_events(f)
                R = base_local(f, ev[0][1])
                if R is None:
                    raise AnalysisBroken("cannot identify the removed node in %s" % f.sig)
                roles = {R["id"]: "$R"}
                st = nstores(f, roles)
                where = "%s:%s" % (f.file, f.line)

                def P(lhs, rhs_set):
                    return q.pos_of(f, [s.node for s, l, r in st if l == lhs and r in rhs_set])
                head = P("this->_begin.item", {"$R->next"})
                head2 = P("$R->next->prev", {"0"})
                mid = P("$R->prev->next", {"$R->next"})
                mid2 = P("$R->next->prev", {"$R->prev"})
                size = P("this->_size", {"this->_size-1", "this->_size - 1"})
                entry = f.entry_pos()
                # forward link: every path has (head) or (mid); backward link likewise
                p1 = f.find_path(entry, {f.exit_pos()}, avoid=head | mid, after_src=False)
                p2 = f.find_path(entry, {f.exit_pos()}, avoid=head2 | mid2, after_src=False)
                p3 = f.find_path(entry, {f.exit_pos()}, avoid=size, after_src=False)
                twice = any(f.find_path(a, {b}) is not None for a in size for b in size)
                for ok, tag, msg, pth in (
                        (p1 is None and head and mid, "forward-unlink", "a path leaves the predecessor's `next` (or `_begin`) pointing at the removed node", p1),
                        # `next->prev = R->prev` alone is right in both cases (R->prev is null when R is first); the separate `= 0` store is optional
                        (p2 is None and mid2, "backward-unlink", "a path leaves the successor's `prev` pointing at the removed node", p2),
                        (p3 is None and size and not twice, "size-decrement", "`_size` is not decremented exactly once on every path", p3)):
                    if ok:
                        chk.ok(rid, f, tag, where, "store found on every path", evals=2)
                    else:
                        chk.bad(rid, f, "remove-" + tag, where, msg, f.path_lines(pth) if pth else None)
                # guards: head stores only where the node has no predecessor
                # returned iterator (iterator-returning overloads only)
                if f.d["ret"].endswith("Iterator"):
                    rets = [i for i, n in enumerate(f.nodes) if n["k"] == "ReturnStmt" and n["c"]]
                    bad = [i for i in rets if norm(f, f.nodes[i]["c"][0], roles) != "$R->next"]
                    if rets and not bad:
                        chk.ok(rid, f, "returns successor", where, "return value is the removed node's next")
                    else:
                        chk.bad(rid, f, "remove-returns-wrong-iterator", f.where(bad[0]) if bad else where,
                                "remove() must return the iterator to the removed node's successor, it returns `%s`" % (norm(f, f.nodes[bad[0]]["c"][0], roles) if bad else "nothing"))
                if d["hash"]:
                    c1 = P("*$R->cell", {"$R->nextCell"})
                    c2 = P("$R->nextCell->cell", {"$R->cell"})
                    pc = f.find_path(entry, {f.exit_pos()}, avoid=c1, after_src=False)
                    if pc is None and c1 and c2:
                        # the back-pointer repair must be on the non-null edge of the successor test
                        chk.ok(rid, f, "bucket chain unlink with back-pointer repair", where, "`*cell = nextCell` on every path and `nextCell->cell = cell` present", evals=2)
                    else:
                        chk.bad(rid, f, "remove-chain-unlink", where,
                                "removing a node must store its chain successor into `*cell` and repair the successor's `cell` back-pointer; "
                                "otherwise a later remove/insert in this bucket writes through a stale cell pointer", f.path_lines(pc) if pc else None)


def link_idiom(prog, chk, rid, classes=tuple(NODE)):
    chk.rule(rid, "MPT: the node-creating member links the new node before the insert position in both directions (re-seating "
                  "_begin when there is no predecessor), increments _size once and returns the new node", floor=len(classes))
    for cls in classes:
        d = NODE[cls]
        for tn, fs in sorted(class_insts(prog, cls).items()):
            cores = []
            for f in fs:
                st0 = nstores(f)
                if any(l.endswith("->next") and not l.startswith("this->endItem") for _s, l, _r in st0) and \
                   any(l == "this->_size" and "+1" in r.replace(" ", "") for _s, l, r in st0):
                    cores.append(f)
            if not cores:
                chk.bad(rid, cls, "no-linking-member", "", "no member of %s links a new node and increments _size" % tn)
            for f in cores:
                where = "%s:%s" % (f.file, f.line)
                # roles: $I = linked node: the local stored into `X->prev` of the insert position / whose ->next is set
                st0 = nstores(f)
                I = None
                # the linked node is the local both of whose list links are written here (`L->next = ..` and `L->prev = ..`)
                link_w = {}
                for s, l, r in st0:
                    ln = f.nodes[s.lhs]
                    if ln["k"] == "MemberExpr" and ln["m"] in ("next", "prev") and s.rhs is not None and f.nodes[f.strip(ln["c"][0])]["k"] == "DeclRefExpr":
                        b = base_local(f, ln["c"][0])
                        if b is not None:
                            link_w.setdefault(b["id"], [b, set()])[1].add(ln["m"])
                for _id, (b, ms) in link_w.items():
                    if ms == {"next", "prev"}:
                        I = b
                        break
                if I is None:
                    raise AnalysisBroken("cannot identify the linked node in %s" % f.sig)
                roles = {I["id"]: "$I"}
                st = nstores(f, roles)
                # the insert position is whatever $I->next receives
                nexts = [(s, r) for s, l, r in st if l == "$I->next"]

                def P(lhs, rhs_pred):
                    return q.pos_of(f, [s.node for s, l, r in st if l == lhs and rhs_pred(r)])
                ok_all = True
                for s_next, posr in nexts:
                    if posr == "this->_begin.item":
                        # first node of an empty tree container: prev = 0, _begin = node, endItem.prev = node
                        need = [("$I->prev", lambda r: r == "0"), ("this->_begin.item", lambda r: r == "$I"),
                                ("this->endItem.prev", lambda r: r == "$I")]
                    else:
                        need = [("$I->prev", lambda r, posr=posr: r == posr + "->prev"),
                                (posr + "->prev", lambda r: r == "$I")]
                    sp = f.node_pos(s_next.node)
                    for lhs, pr in need:
                        want = P(lhs, pr)
                        if not paths_all_pass(f, sp, want):
                            ok_all = False
                            chk.bad(rid, f, "insert-link-missing:" + lhs.replace(posr, "$P"), f.where(s_next.node),
                                    "the new node is linked in front of `%s` but `%s` is not updated on every such path "
                                    "(order list broken: iteration skips or loses the node)" % (posr, lhs))
                    if posr != "this->_begin.item":
                        fw = P(posr + "->prev->next", lambda r: r == "$I") | P("$I->prev->next", lambda r: r == "$I")
                        hb = P("this->_begin.item", lambda r: r == "$I")
                        if not (fw and hb and paths_all_pass(f, sp, fw | hb)):
                            ok_all = False
                            chk.bad(rid, f, "insert-forward-link", f.where(s_next.node),
                                    "neither the predecessor's `next` nor `_begin` is pointed at the new node on every path")
                size = P("this->_size", lambda r: r.replace(" ", "") in ("this->_size+1",))
                news = placement_news(f)
                anchor = f.node_pos(nexts[0][0].node) if nexts else f.entry_pos()
                if not size or not paths_all_pass(f, anchor, size):
                    ok_all = False
                    chk.bad(rid, f, "insert-size-increment", where, "`_size` is not incremented on every path that links a node")
                if f.d["ret"].endswith("Iterator"):
                    rets = [i for i, n in enumerate(f.nodes) if n["k"] == "ReturnStmt" and n["c"] and
                            f.find_path(anchor, {f.node_pos(i)}) is not None]
                    bad = [i for i in rets if norm(f, f.nodes[i]["c"][0], roles) != "$I"]
                    if bad or not rets:
                        ok_all = False
                        chk.bad(rid, f, "insert-returns-wrong-iterator", f.where(bad[0]) if bad else where,
                                "the inserting member must return the iterator of the new node")
                if ok_all:
                    chk.ok(rid, f, "new node linked both ways, _begin/_size maintained, returned", where,
                           "stores found on every path through the link site (%d link sites)" % len(nexts), evals=6 * max(1, len(nexts)))
                if d["hash"]:
                    c0 = P("$I->cell", lambda r: "this->data[" in r and "% this->capacity" in r)
                    c1 = P("$I->nextCell", lambda r: r.startswith("*"))
                    c2 = P("$I->nextCell->cell", lambda r: r == "&$I->nextCell")
                    # the old chain head may be named through the value that was just stored into $I->nextCell (`head = *cell; ... head->cell = ..`)
                    heads_ = set(r for s_, l, r in st if l == "$I->nextCell")
                    for h_ in heads_:
                        c2 = c2 | P(h_ + "->cell", lambda r: r == "&$I->nextCell")
                    c3 = q.pos_of(f, [s.node for s, l, r in st if l.startswith("*") and r == "$I"])
                    if c0 and c1 and c2 and c3 and paths_all_pass(f, anchor, c0) and paths_all_pass(f, anchor, c3):
                        chk.ok(rid, f, "bucket chain push with back-pointer", where, "cell/nextCell/back-pointer/head stores present on every path", evals=4)
                    else:
                        chk.bad(rid, f, "insert-chain-link", where,
                                "the new node must be pushed on its bucket chain: cell = &data[hash %% capacity], nextCell = *cell, "
                                "nextCell->cell = &nextCell when non-null, *cell = node (found: %s %s %s %s)" % (bool(c0), bool(c1), bool(c2), bool(c3)))


def clear_resets(prog, chk, rid, classes=tuple(NODE)):
    chk.rule(rid, "MPT: clear() recycles every node and resets _begin, endItem.prev, _size (and root / bucket heads) on every path", floor=len(classes))
    for cls in classes:
        d = NODE[cls]
        for tn, fs in sorted(class_insts(prog, cls).items()):
            for f in methods(fs, "clear", 0):
                st = nstores(f)
                where = "%s:%s" % (f.file, f.line)
                need = [("this->_begin.item", "&this->endItem"), ("this->endItem.prev", "0"), ("this->_size", "0")]
                if d["tree"]:
                    need.append(("this->root", "0"))
                miss = []
                for lhs, rhs in need:
                    want = q.pos_of(f, [s.node for s, l, r in st if l == lhs and r == rhs])
                    if not want or f.find_path(f.entry_pos(), {f.exit_pos()}, avoid=want, after_src=False) is not None:
                        miss.append("%s = %s" % (lhs.replace("this->", ""), rhs.replace("this->", "")))
                ev = dtor_events(f)
                if ev:
                    R = base_local(f, ev[0][1])
                    roles = {R["id"]: "$R"} if R else {}
                    st2 = nstores(f, roles)
                    lb = loop_blocks(f, ev[0][0]) or set()
                    inloop = lambda s: (f.node_pos(s.node) or (None,))[0] in lb
                    evp = f.node_pos(ev[0][0])

                    def each_iteration(pred):
                        """the store lies on every path from the destructor call to the next iteration / the loop exit"""
                        pos = q.pos_of(f, [s.node for s, l, r in st2 if pred(l, r) and inloop(s)])
                        if not pos or evp is None:
                            return False
                        targets = {evp} | set((b, 0) for b in f.blocks if b not in lb)
                        return f.find_path(evp, targets, avoid=pos) is None
                    NR = "$R.item" if R and "Iterator" in (R.get("t") or "") else "$R"      # the node: the walked pointer, or the iterator's item
                    if not each_iteration(lambda l, r: l == NR + "->prev" and r == "this->freeItem") or \
                       not each_iteration(lambda l, r: l == "this->freeItem" and r == NR):
                        miss.append("recycle of each node (prev = freeItem; freeItem = node)")
                    if d["hash"] and not each_iteration(lambda l, r: l == "*" + NR + "->cell" and r == "0"):
                        # alternative: the whole bucket array is zero-filled - on every path on which an iteration skips the store.
                        # Decided per fill level (entries fewer than / as many as / more than buckets): the tests on _size and
                        # capacity are evaluated for each, and no remaining path may avoid both the wipe and the store
                        zero = q.pos_of(f, [i for i in q.calls(f) if "Memory::zero(this->data" in f.r(i)])
                        cellpos = q.pos_of(f, [s.node for s, l, r in st2 if l == "*" + NR + "->cell" and r == "0" and inloop(s)])
                        uncovered = None
                        for sz_, cap_ in ((1, 2), (2, 2), (3, 2)):
                            cut = set()
                            for b_ in f.blocks.values():
                                c_ = b_.get("cond")
                                if c_ is None or len(b_["succ"]) != 2 or b_.get("tk") == "SwitchStmt" or None in b_["succ"]:
                                    continue
                                v_ = fin.eval_expr(f, c_, {"this->_size": sz_, "this->capacity": cap_})
                                if v_ is not None:
                                    cut.add((b_["id"], b_["succ"][1] if v_ else b_["succ"][0]))
                            if evp is None:
                                break
                            a_ = fin.path_with_cuts(f, f.entry_pos(), evp, avoid=zero, cut=cut, after_src=False)
                            targets = {evp} | set((b, 0) for b in f.blocks if b not in lb)
                            b_path = None
                            for t_ in targets:
                                b_path = b_path or fin.path_with_cuts(f, evp, t_, avoid=cellpos, cut=cut)
                            if a_ is not None and b_path is not None:
                                uncovered = "fewer entries than buckets" if sz_ < cap_ else "exactly as many entries as buckets" if sz_ == cap_ else "more entries than buckets"
                                break
                        if not zero or uncovered:
                            miss.append("bucket head reset (*node->cell = 0)" + (" for a table holding %s" % uncovered if uncovered else ""))
                if miss:
                    chk.bad(rid, f, "clear-misses:" + ";".join(miss), where,
                            "clear() does not perform on every path: %s (stale begin/size/bucket heads make later lookups walk recycled nodes)" % "; ".join(miss))
                else:
                    chk.ok(rid, f, "clear resets list, size%s" % (", buckets" if d["hash"] else ""), where, "all reset stores on every path", evals=len(need) + 2)


def swap_handover(prog, chk, rid, classes=None):
    classes = classes or [c for c in NODE if NODE[c]["swap"]] + ["Array"]
    chk.rule(rid, "WHO+FIN: swap exchanges every owning field in both directions (each side receives the other's previous value), "
                  "re-anchors each sentinel under both emptiness valuations, and neither constructs, destroys nor assigns elements", floor=len(classes) * 4)
    for cls in classes:
        for tn, fs in sorted(class_insts(prog, cls).items()):
            for f in methods(fs, "swap", 1):
                o = f.params[0]["n"]
                defs = q.local_defs(f)
                where = "%s:%s" % (f.file, f.line)
                if cls == "Array":
                    plain = ["_begin.item", "_end.item", "_capacity"]
                    anchored = False
                else:
                    plain = ["_size", "freeItem", "blocks"] + (["capacity", "data"] if NODE[cls]["hash"] else [])
                    anchored = True
                st = q.stores(f)
                T = lambda i: q.no_casts(f.r(i))
                stored_from = lambda side_lhs, src_text, need_tmp: swap_stored_from(f, st, defs, side_lhs, src_text, need_tmp)

                def _unused(side_lhs, src_text, need_tmp):
                    """is there a store side_lhs = <value of src_text as of function entry>?"""
                    for s in st:
                        if s.op != "=" or T(s.lhs) != side_lhs or s.rhs is None:
                            continue
                        r = f.nodes[f.strip(s.rhs)]
                        if not need_tmp:
                            if T(s.rhs) == src_text:
                                # src must not have been overwritten before
                                over = [x for x in st if T(x.lhs) == src_text]
                                if all(not q.reaches(f, x.node, s.node) for x in over):
                                    return True
                        if r["k"] == "DeclRefExpr" and r["ref"]["dk"] == "local":
                            init = q.single_def(f, r["ref"]["id"], defs)
                            if init is not None and T(init) == src_text:
                                over = [x for x in st if T(x.lhs) == src_text]
                                if all(not q.reaches(f, x.node, init) for x in over):
                                    return True
                    return False
                for fld in plain:
                    a = stored_from("this->" + fld, "%s.%s" % (o, fld), False)
                    b = stored_from("%s.%s" % (o, fld), "this->" + fld, True)
                    for ok, dsc in ((a, "this->%s = %s.%s" % (fld, o, fld)), (b, "%s.%s = previous this->%s" % (o, fld, fld))):
                        if ok and not swap_on_every_path(f, ok):
                            chk.bad(rid, f, "swap-conditional:" + dsc.replace(o + ".", "other."), f.where(ok[0]),
                                    "`%s` is performed on some paths through swap only: where it is skipped the two containers keep (or both get) "
                                    "the same value of that field although the rest changed hands - e.g. a capacity that no longer describes the block" % dsc)
                        elif ok:
                            chk.ok(rid, f, dsc, where, "store with the entry value of the source found, on every path")
                        else:
                            chk.bad(rid, f, "swap-misses:" + dsc.replace(o + ".", "other."), where,
                                    "swap does not perform `%s` with the value the source had on entry; afterwards both containers "
                                    "share (or one loses) that part of the ownership state" % dsc)
                if anchored:
                    for side, oth in (("this->", o + "."), (o + ".", "this->")):
                        last = stored_from(side + "endItem.prev", oth + "endItem.prev", side != "this->")
                        first = stored_from(side + "_begin.item", oth + "_begin.item", side != "this->")
                        texts = [(T(s.lhs), T(s.rhs) if s.rhs is not None else "") for s in st]
                        for s_ in st:      # both arms of a conditional right-hand side count as stored values
                            if s_.rhs is not None and f.nodes[f.strip(s_.rhs)]["k"] == "ConditionalOperator":
                                cn_ = f.nodes[f.strip(s_.rhs)]["c"]
                                texts += [(T(s_.lhs), T(cn_[1])), (T(s_.lhs), T(cn_[2]))]
                        sent = "&" + side + "endItem"
                        anchor = any(l.endswith("->next") and r == sent for l, r in texts)
                        empty = any(l == side + "_begin.item" and r == sent for l, r in texts)
                        for ok, dsc in ((last, "last node handed over"), (first, "first node handed over"),
                                        (anchor, "last node's next re-anchored to the own sentinel"),
                                        (empty, "_begin set to the own sentinel when the other side was empty")):
                            dsc2 = ("this: " if side == "this->" else "other: ") + dsc
                            if ok:
                                chk.ok(rid, f, dsc2, where, "store found")
                            else:
                                chk.bad(rid, f, "swap-misses:" + dsc2, where, "swap lacks: " + dsc2)
                bad = placement_news(f) + [d for d, _ in dtor_events(f)]
                if bad:
                    chk.bad(rid, f, "swap-constructs-or-destroys", f.where(bad[0]), "swap must hand nodes over, it constructs or destroys an element")
                else:
                    chk.ok(rid, f, "swap is pointer-only", where, "no placement-new / destructor call", nontrivial=False)


def payload_moves(prog, chk, rid, classes=tuple(NODE)):
    chk.rule(rid, "WHO: no member assigns the payload of one node from the payload of another (elements are never moved between "
                  "nodes); allowed payload writers: overwrite-on-existing-key with the parameter value, List::sort (named exception)", floor=3)
    for cls in classes:
        d = NODE[cls]
        for tn, fs in sorted(class_insts(prog, cls).items()):
            allowed = 0
            for f in fs:
                if f.short == "sort" or "QuickSort" in f.tname:
                    continue   # exception: List::sort permutes values by design (not an operation C05 quantifies over)
                for s in q.stores(f):
                    ln = f.nodes[s.lhs]
                    is_payload = (ln["k"] == "MemberExpr" and ln["m"] in d["payload"] and ln.get("mclsq", "").endswith("::Item")) or \
                                 (ln["k"] in ("UnaryOperator", "CXXOperatorCallExpr") and f.r(s.lhs).startswith("*") and
                                  re.match(r"^(const )?(%s)( &)?$" % "|".join(re.escape(a) for a in f.d.get("targs", ["\0"])), ln.get("t", "")) is not None
                                  and f.short not in ("operator*",))
                    if not is_payload:
                        continue
                    rb = base_local(f, s.rhs) if s.rhs is not None else None
                    if rb is not None and rb["dk"] == "parm" and f.nodes[f.strip(s.rhs)]["k"] == "DeclRefExpr" and f.short == "insert":
                        allowed += 1
                        chk.ok(rid, f, "payload overwrite with the parameter", f.where(s.node), "right side is the parameter `%s`" % rb["n"])
                    else:
                        chk.bad(rid, f, "payload-assigned-from-non-parameter", f.where(s.node),
                                "`%s` overwrites the element stored in a node with `%s`: elements must stay in their node "
                                "(addresses and iterators are stable until removal)" % (f.r(s.lhs)[:50], f.r(s.rhs)[:50] if s.rhs is not None else s.op))
            chk.ok(rid, cls, "no payload move in %s" % tn, "", "%d member functions scanned, %d allowed overwrites" % (len(fs), allowed), nontrivial=False)


def pool_layout(prog, chk, rid):
    chk.rule(rid, "AST: pool containers derive the node from the element address consistently with the layout "
                  "(PoolList: element directly behind the header; PoolMap: value is the first member of Item)", floor=2)
    for tn, fs in sorted(class_insts(prog, "PoolList").items()):
        for f in [f for f in fs if f.short == "remove" and dtor_events(f)]:
            defs = q.local_defs(f)
            ev = dtor_events(f)
            R = base_local(f, ev[0][1])
            inits = [f.r(init) for kind, _n, init in defs.get(R["id"], []) if init is not None] if R else []
            obj = f.r(ev[0][1]) if ev[0][1] is not None else ""
            on_ = f.nodes[f.strip(ev[0][1])] if ev[0][1] is not None else None
            if on_ is not None and on_["k"] == "DeclRefExpr" and on_["ref"].get("dk") == "local":
                ini_ = q.single_def(f, on_["ref"]["id"], defs)      # an element pointer kept in a local: one step back to `(T*)(item + 1)`
                if ini_ is not None:
                    obj = f.r(ini_)
            # the node comes from the element's address (one header back) or straight from an iterator parameter
            pn_ = "|".join(re.escape(p_["n"]) for p_ in f.params) or "\0"
            ok = bool(inits) and all(re.search(r"\(.*Item \*\)&\w+ - 1\)$", s) or re.fullmatch(r"(%s)\.item" % pn_, q.no_casts(s)) for s in inits) and \
                re.search(r"\(\w+ \+ 1\)", obj)
            if ok:
                chk.ok(rid, f, "node = (Item*)&value - 1 or the iterator's node, element = item + 1", "%s:%s" % (f.file, f.line), "both offsets are one header")
            else:
                chk.bad(rid, f, "pool-node-offset", "%s:%s" % (f.file, f.line),
                        "PoolList::remove must take the node from an iterator or compute it as (Item*)&value - 1, and destroy the element at item + 1 (found %s / %s)" % (inits, obj))
        for f in methods(fs, "allocateFreeItem") + [g for g in fs if g.short in ("front", "back") or (g.cls or "").endswith("Iterator") and g.short in ("operator*", "operator->")]:
            rets = [i for i, n in enumerate(f.nodes) if n["k"] == "ReturnStmt" and n["c"]]
            for i in rets:
                t = f.r(f.nodes[i]["c"][0])
                if re.search(r"\+ 1\)", t):
                    chk.ok(rid, f, "element address = node + 1", f.where(i), t[:60], nontrivial=False)
                else:
                    chk.bad(rid, f, "pool-element-offset", f.where(i), "element accessor does not address the element directly behind the node header: " + t[:80])
    for tn, fs in sorted(class_insts(prog, "PoolMap").items()):
        rec = prog.records.get(tn + "::Item")
        if rec is None:
            raise AnalysisBroken("record %s::Item not found" % tn)
        first = rec["fields"][0]["n"] if rec["fields"] else None
        f_rm = [f for f in fs if f.short == "remove" and dtor_events(f)]
        for f in f_rm:
            defs = q.local_defs(f)
            R = base_local(f, dtor_events(f)[0][1])
            inits = [q.xr(f, init, defs) for kind, _n, init in defs.get(R["id"], []) if init is not None] if R else []      # through helper results
            cast_from_value = any(re.search(r"Item \*\)&\w+\)?$", s) for s in inits)
            if cast_from_value and first == "value" and rec["fields"][0]["off"] == 0:
                chk.ok(rid, f, "node = (Item*)&value with value at offset 0", "%s:%s" % (f.file, f.line), "Item fields: %s" % [x["n"] for x in rec["fields"]])
            elif cast_from_value:
                chk.bad(rid, f, "pool-value-not-first-member", "%s:%s" % (rec["file"], rec["line"]),
                        "PoolMap::remove(const V&) casts the element address to the node, but `value` is not the first member of Item (first is `%s`)" % first)
            else:
                chk.bad(rid, f, "pool-node-cast", "%s:%s" % (f.file, f.line), "PoolMap::remove no longer derives the node from the element address as (Item*)&value: %s" % inits)


def find_then_link(prog, chk, rid, classes=("HashMap", "HashSet", "PoolMap")):
    chk.rule(rid, "DOM: in the hash containers' insert, construction and every link write are dominated by the `find(key) == end` "
                  "edge; the hit edge writes neither the order list, the bucket chain nor _size", floor=len(classes))
    for cls in classes:
        for tn, fs in sorted(class_insts(prog, cls).items()):
            for f in [f for f in fs if f.short == "insert" and placement_news(f)]:
                where = "%s:%s" % (f.file, f.line)
                finds = [i for i in q.calls(f) if f.nodes[i].get("callee", "").endswith("::find")]
                if not finds:
                    chk.bad(rid, f, "insert-without-find", where, "insert links a node without first looking the key up (duplicate keys become possible)")
                    continue
                # branch on `it != _end` / `it == _end`
                miss_edge = None
                for b in f.blocks.values():
                    c = b.get("cond")
                    if c is None or len(b["succ"]) != 2:
                        continue
                    t = f.r(c)
                    m = re.search(r"\((\w+) (!=|==) this->_end\)", t)
                    if m:
                        miss_edge = (b["id"], b["succ"][1] if m.group(2) == "!=" else b["succ"][0])
                        hit_edge = (b["id"], b["succ"][0] if m.group(2) == "!=" else b["succ"][1])
                if miss_edge is None:
                    chk.bad(rid, f, "insert-without-hit-test", where, "the result of find() is not compared with end() before linking")
                    continue
                bad = []
                writes = [s for s in q.stores(f) if f.nodes[s.lhs]["k"] in ("MemberExpr", "UnaryOperator") and
                          any(x in f.r(s.lhs) for x in ("->next", "->prev", "->cell", "nextCell", "_size", "_begin", "freeItem", "this->data", "*cell"))]
                for s in writes:
                    if not f.edge_dominates(miss_edge, f.node_pos(s.node)):
                        bad.append(s.node)
                for i in placement_news(f):
                    if not f.edge_dominates(miss_edge, f.node_pos(i)):
                        bad.append(i)
                if bad:
                    chk.bad(rid, f, "link-write-on-hit-path", f.where(bad[0]),
                            "`%s` is executed although the key may already be present (position/uniqueness of existing keys is lost)" % f.r(bad[0])[:60])
                else:
                    chk.ok(rid, f, "all %d link writes and the construction are on the miss edge" % len(writes), where, "edge dominance", evals=len(writes) + 1)


def bucket_index(prog, chk, rid, classes=("HashMap", "HashSet", "PoolMap")):
    chk.rule(rid, "VSA (symbolic): every bucket access is data[h % capacity] with the capacity that sized the bucket array, and "
                  "capacity >= 1 after every constructor", floor=len(classes) * 3)
    for cls in classes:
        for tn, fs in sorted(class_insts(prog, cls).items()):
            for f in fs:
                for i, n in enumerate(f.nodes):
                    if n["k"] == "ArraySubscriptExpr" and q.no_casts(f.r(n["c"][0])) == "this->data":
                        idx = q.no_casts(q.xr(f, n["c"][1]))
                        if re.match(r"^\(.+ % this->capacity\)$", idx):
                            chk.ok(rid, f, "data[... % capacity]", f.where(i), idx[:60])
                        else:
                            chk.bad(rid, f, "bucket-index-not-reduced-by-capacity", f.where(i),
                                    "bucket array indexed with `%s`; it holds `capacity` entries, the index must be reduced modulo capacity" % idx[:60])
                for i, n in enumerate(f.nodes):
                    if n["k"] == "CXXNewExpr" and n.get("arr") and "asize" in n:
                        p = f.up(i)
                        tgt = None
                        x = i
                        while p is not None and f.nodes[p]["k"] in ("CStyleCastExpr",):
                            x, p = p, f.up(p)
                        if p is not None and f.nodes[p]["k"] == "BinaryOperator" and f.r(f.nodes[p]["c"][0]) == "this->data":
                            sz = q.no_casts(q.xr(f, n["asize"]))        # a size kept in a local is expanded
                            if re.match(r"^\(sizeof\(.*Item \*\) \* this->capacity\)$", sz):
                                chk.ok(rid, f, "bucket array sized by capacity", f.where(i), sz)
                            else:
                                chk.bad(rid, f, "bucket-array-size", f.where(i), "bucket array allocated with `%s`, expected sizeof(Item*) * capacity" % sz)
            # the bucket count is fixed once the bucket array exists: `capacity` is written only by constructors and by swap (which
            # hands `data` over with it); any other store leaves data[hash % capacity] indexing an array of the old size
            for f in [f for f in fs if f.cls == tn and f.kind not in ("ctor",) and f.short != "swap"]:
                for s_, l_, r_ in nstores(f):
                    if l_ == "this->capacity":
                        datas = [x_ for x_, l2_, _r2 in nstores(f) if l2_ == "this->data"]
                        if datas and all(q.reaches(f, s_.node, d_.node) or q.reaches(f, d_.node, s_.node) for d_ in datas) and \
                           paths_all_pass(f, f.node_pos(s_.node), q.pos_of(f, [d_.node for d_ in datas])):
                            chk.ok(rid, f, "capacity changed together with the bucket array", f.where(s_.node), "store to data on every path through the store", evals=2)
                        else:
                            chk.bad(rid, f, "capacity-changed-without-bucket-array", f.where(s_.node),
                                    "`%s` changes the bucket count of a table whose bucket array may already be allocated with the old count: "
                                    "data[hash %% capacity] then indexes past the array (or misses the chains built under the old count)" % f.r(s_.node)[:60])
            # capacity >= 1: constructors either set a positive literal or or-in !capacity
            for f in [f for f in fs if f.kind == "ctor" and f.cls == tn]:
                init = [x for x in f.d.get("inits", []) if x.get("field") == "capacity"]
                if not init:
                    continue
                e = init[0]["e"]
                v = f.nodes[f.strip(e)].get("cv")
                if v is not None and v >= 1:
                    chk.ok(rid, f, "capacity initialised to %d" % v, "%s:%s" % (f.file, f.line), "constant", nontrivial=False)
                elif re.fullmatch(r"\w+\.capacity", q.no_casts(f.r(e))):
                    chk.ok(rid, f, "capacity taken from another table (>= 1 by the same rule)", "%s:%s" % (f.file, f.line), q.no_casts(f.r(e)), nontrivial=False)
                elif any(l == "this->capacity" and "!" in r for _s, l, r in nstores(f)):
                    chk.ok(rid, f, "capacity |= !capacity", "%s:%s" % (f.file, f.line), "zero is mapped to one")
                elif _capacity_positive(f, e):
                    chk.ok(rid, f, "capacity >= 1 for every argument", "%s:%s" % (f.file, f.line), "initialiser and body evaluated for arguments 0, 1, 500", evals=3)
                else:
                    chk.bad(rid, f, "capacity-may-be-zero", "%s:%s" % (f.file, f.line), "constructor leaves capacity possibly 0: `h % capacity` divides by zero")


def _capacity_positive(f, init_expr):
    """the stored bucket count is >= 1 whatever the constructor argument is: initialiser and later stores evaluated for 0, 1, 500"""
    from . import fin as _fin
    for pv in (0, 1, 500):
        val = {p["n"]: pv for p in f.params if p["t"] in ("unsigned long", "usize", "unsigned int")}
        if not val:
            return False
        cap = _fin.eval_expr(f, init_expr, val)
        for s_ in q.stores(f):
            if q.no_casts(f.r(s_.lhs)) != "this->capacity" or s_.rhs is None:
                continue
            r_ = _fin.eval_expr(f, s_.rhs, val)
            if r_ is None:
                return False
            if s_.op == "=":
                cap = r_
            elif s_.op == "|=" and cap is not None:
                cap |= r_
            else:
                return False
        if cap is None or cap < 1:
            return False
    return True


def swap_stored_from(f, st, defs, side_lhs, src_text, need_tmp):
    """is there a store side_lhs = <value of src_text as of function entry> — directly, or through a chain of temporaries /
    by-value parameters of an inlined helper, the first of which was initialised from it before it was overwritten?"""
    T = lambda i: q.no_casts(f.r(i))
    over = [x for x in st if T(x.lhs) == src_text]
    found = []
    for s in st:
        if s.op != "=" or T(s.lhs) != side_lhs or s.rhs is None:
            continue
        arms = [f.strip(s.rhs)]
        if f.nodes[arms[0]]["k"] == "ConditionalOperator" and len(f.nodes[arms[0]]["c"]) == 3:
            arms = [f.strip(f.nodes[arms[0]]["c"][1]), f.strip(f.nodes[arms[0]]["c"][2])]     # `x = c ? a : b` stores a or b
        for x in arms:
          read_at = s.node
          for _ in range(6):
            r = f.nodes[x]
            if r["k"] == "DeclRefExpr" and r["ref"]["dk"] == "local":
                init = q.single_def(f, r["ref"]["id"], defs)
                if init is None:
                    break
                read_at = init
                x = f.strip(init)
                continue
            break
          if T(x) == src_text and all(not q.reaches(f, o.node, read_at) for o in over):
            found.append(s.node)
    return found


def swap_on_every_path(f, store_nodes):
    """do the stores that hand a field over lie on every path through swap (the one way round them: `this == &other`)?"""
    if not store_nodes or not f.params:
        return False
    want = {"this", "&" + f.params[0]["n"]}
    cut = set()
    for b in f.blocks.values():
        if b.get("cond") is None or len(b["succ"]) != 2 or b.get("tk") == "SwitchStmt" or b["succ"][0] == b["succ"][1]:
            continue
        for s_ in b["succ"]:
            if s_ is None:
                continue
            for an, tr in fin.edge_atoms(f, b, s_):
                cn = fin._canon(f, an, tr)
                if cn[0] != "val" and cn[1] == "==" and {cn[0], cn[2]} == want:
                    cut.add((b["id"], s_))
    return fin.path_with_cuts(f, f.entry_pos(), f.exit_pos(), avoid=q.pos_of(f, store_nodes), cut=cut, after_src=False) is None


def swap_plain(chk, rid, f, plain):
    """both directions of a field-wise swap with `other` (the single parameter)"""
    o = f.params[0]["n"]
    defs = q.local_defs(f)
    st = q.stores(f)
    where = "%s:%s" % (f.file, f.line)
    for fld in plain:
        a = swap_stored_from(f, st, defs, "this->" + fld, "%s.%s" % (o, fld), False) or \
            swap_stored_from(f, st, defs, "this->" + fld, "%s.%s" % (o, fld), True)
        b = swap_stored_from(f, st, defs, "%s.%s" % (o, fld), "this->" + fld, True) or \
            swap_stored_from(f, st, defs, "%s.%s" % (o, fld), "this->" + fld, False)
        for ok, dsc in ((a, "this->%s = previous %s.%s" % (fld, o, fld)), (b, "%s.%s = previous this->%s" % (o, fld, fld))):
            if ok and not swap_on_every_path(f, ok):
                chk.bad(rid, f, "swap-conditional:" + dsc.replace(o + ".", "other."), f.where(ok[0]),
                        "`%s` is performed on some paths through swap only: where it is skipped both handles keep (or get) the same value of that field" % dsc)
            elif ok:
                chk.ok(rid, f, dsc, where, "store with the entry value of the source found, on every path")
            else:
                chk.bad(rid, f, "swap-misses:" + dsc.replace(o + ".", "other."), where,
                        "swap does not perform `%s` with the value the source had on entry" % dsc)


def iterator_param_alias(prog, chk, rid, classes=tuple(NODE)):
    """begin()/end() hand out references to the container's own _begin/_end members, so a `const Iterator&`
    argument may BE _begin: it must not be read after _begin was re-seated."""
    chk.rule(rid, "ALIAS: a `const Iterator&` parameter (possibly the container's own _begin, as returned by begin()) is not read after "
                  "a store to _begin.item or a call to a mutating member of this container", floor=len(classes))
    for cls in classes:
        for tn, fs in sorted(class_insts(prog, cls).items()):
            n_params = 0
            for f in fs:
                if f.cls != tn:
                    continue
                for p in f.params:
                    if not re.match(r"^const .*::Iterator &$", p["t"]):
                        continue
                    n_params += 1
                    reads = [i for i, n in enumerate(f.nodes) if n["k"] == "DeclRefExpr" and n["ref"]["id"] == p["id"]]
                    muts = [s.node for s in q.stores(f) if q.no_casts(f.r(s.lhs)) == "this->_begin.item" or
                            "this->_begin.item =" in q.no_casts(f.r(s.lhs))]
                    for c in q.calls(f):
                        n = f.nodes[c]
                        if n["k"] == "CXXMemberCallExpr" and n.get("ccls") == tn and not n.get("csig", "").endswith(" const"):
                            o = q.call_object(f, c)
                            if o is None or f.nodes[o]["k"] == "CXXThisExpr":
                                muts.append(c)
                    late = [(m, r) for m in muts for r in reads if r not in f.desc(m) and q.reaches(f, m, r)]
                    if late:
                        m, r = late[0]
                        chk.bad(rid, f, "iterator-argument-read-after-begin-changed:" + p["n"], f.where(r),
                                "`%s` is read after `%s`; when the argument is the container's own begin() (a reference to _begin) it now "
                                "designates a different element: the returned/used iterator skips one" % (p["n"], f.r(m)[:50]))
                    else:
                        chk.ok(rid, f, "iterator parameter `%s` is consumed before _begin can change" % p["n"], "%s:%s" % (f.file, f.line),
                               "%d reads, %d mutating events" % (len(reads), len(muts)), evals=max(1, len(reads) * max(1, len(muts))))
            if n_params == 0:
                chk.ok(rid, cls, "%s: no const Iterator& parameters" % tn, "", "", nontrivial=False)


def parent_pairing(prog, chk, rid, classes=("Map", "MultiMap")):
    """tree containers: every write of a child link with a node Y is paired with Y->parent on every path where Y is non-null"""
    TREE = classes
    chk.rule(rid, "PAIRF: every write of a child link (X->left / X->right / *cell) with a node Y is paired with Y->parent = X on every path "
                      "on which Y is non-null", floor=20)
    for cls in TREE:
        for tn, fs in sorted(class_insts(prog, cls).items()):
            for f in fs:
                if f.short not in ("remove", "rotl", "rotr", "insert") or (f.short == "insert" and not placement_news(f)) or (f.short == "remove" and not dtor_events(f)):
                    continue
                sts = q.stores(f)
                for s in sts:
                    if s.op != "=" or s.rhs is None:
                        continue
                    lt = q.no_casts(f.r(s.lhs))
                    m = re.match(r"^(\w+)->(left|right)$", lt)
                    is_cell = lt in ("*cell", "cell")
                    if not m and not is_cell:
                        continue
                    y = f.nodes[f.strip(s.rhs)]
                    if q.is_zero(f, s.rhs) or not f.nodes[s.lhs].get("t", "").endswith("Item *"):
                        continue
                    if y["k"] == "DeclRefExpr":
                        Y = y["ref"]["n"]
                    elif y["k"] == "MemberExpr":
                        Y = q.no_casts(f.r(f.strip(s.rhs)))   # e.g. prev->left handed over directly
                    else:
                        continue
                    if f.short == "insert" and Y == "item":
                        continue   # the new node gets its parent from its constructor
                    want = [t.node for t in sts if q.no_casts(f.r(t.lhs)) == Y + "->parent" and (is_cell or q.no_casts(f.r(t.rhs)) == m.group(1))]
                    # paths on which Y is null need no back-pointer
                    skip = set()
                    for b in f.blocks.values():
                        c = b.get("cond")
                        if c is None or len(b["succ"]) != 2 or b["succ"][1] is None:
                            continue
                        k = fin.key(f, c)
                        if k == Y or k == "(%s != 0)" % Y or (s.node in f.desc(c)):
                            skip.add((b["succ"][1], 0))
                    pos = f.node_pos(s.node)
                    if want and paths_all_pass(f, pos, q.pos_of(f, want) | skip):
                        chk.ok(rid, f, "`%s = %s` paired with %s->parent" % (lt, Y, Y), f.where(s.node), "prefix/suffix path search", evals=2)
                    else:
                        chk.bad(rid, f, "child-link-without-parent-pointer:%s=%s" % (lt.replace("->", "."), Y), f.where(s.node),
                                "`%s = %s` makes %s a child but a path does not set %s->parent accordingly: later rotations/removals walk up through a stale parent" % (lt, Y, Y, Y))


def wrappers(prog, chk, rid, classes=tuple(NODE)):
    """WRAP: the positional convenience members delegate to the core member with the position their name promises"""
    chk.rule(rid, "WRAP: append*/prepend* insert at end()/begin(); removeFront/removeBack remove the first/last node; front()/back() designate the "
                  "first/last node's payload; contains(k) is find(k) != end(); size() is _size; begin()/end() return the stored iterators", floor=len(classes) * 6)
    END = ("this->_end", "this->end()")
    BEGIN = ("this->_begin", "this->begin()")
    LASTN = ("this->_end.item->prev", "this->endItem.prev", "&this->endItem->prev")
    for cls in classes:
        for tn, fs in sorted(class_insts(prog, cls).items()):
            for f in [f for f in fs if f.cls == tn]:
                where = "%s:%s" % (f.file, f.line)
                defs = q.local_defs(f)
                N = lambda i: q.no_casts(norm(f, i, {}, defs))
                this_calls = [c for c in q.calls(f) if f.nodes[c]["k"] == "CXXMemberCallExpr" and (q.call_object(f, c) is None or f.nodes[q.call_object(f, c)]["k"] == "CXXThisExpr")]
                rets = [n["c"][0] for n in f.nodes if n["k"] == "ReturnStmt" and n["c"]]
                want = None
                if f.short in ("append", "prepend") and f.params and not any(re.match(r"^const (List|HashSet|HashMap|PoolList|PoolMap|Map|MultiMap)<", p["t"]) for p in f.params):
                    ins = [c for c in this_calls if f.nodes[c]["callee"].endswith("::insert")]
                    if not ins:
                        continue       # pool containers construct in place (linkFreeItem): decided by the link idiom
                    pos = N(q.call_args(f, ins[0])[0])
                    ok = pos in (END if f.short == "append" else BEGIN)
                    want = "insert(%s, ...)" % ("end()" if f.short == "append" else "begin()")
                    got = "insert(%s, ...)" % pos
                elif f.short in ("removeFront", "removeBack") and not f.params:
                    rm = [c for c in this_calls if f.nodes[c]["callee"].endswith("::remove")]
                    if not rm:
                        ok, got = False, "no remove() call"
                    else:
                        an_ = q.call_args(f, rm[0])[0]
                        # an iterator built for the call (`const Iterator lastIt(last); remove(lastIt)`) stands for the node it was built from
                        for _ in range(3):
                            x_ = f.nodes[f.strip(an_)]
                            if x_["k"] == "DeclRefExpr" and x_["ref"].get("dk") == "local" and "Iterator" in (x_["ref"].get("t") or ""):
                                ini_ = q.single_def(f, x_["ref"]["id"], defs)
                                if ini_ is not None:
                                    an_ = ini_
                                    continue
                            if x_["k"] in ("CXXConstructExpr", "CXXTemporaryObjectExpr", "CXXFunctionalCastExpr", "MaterializeTemporaryExpr", "CXXBindTemporaryExpr") and \
                               len([c_ for c_ in x_["c"] if c_ >= 0]) == 1 and "Iterator" in (x_.get("t") or x_.get("callee") or ""):
                                an_ = [c_ for c_ in x_["c"] if c_ >= 0][0]
                                continue
                            break
                        a = N(an_)
                        a2 = re.sub(r"^(const )?[\w:<>, ]*Iterator\((.*)\)$", r"\2", a)
                        ok = (a in BEGIN or a2 in ("this->_begin.item", "this->begin().item")) if f.short == "removeFront" else (a2 in LASTN)
                        got = "remove(%s)" % a
                    want = "remove(begin())" if f.short == "removeFront" else "remove(Iterator(last node))"
                elif f.short in ("front", "back") and not f.params and rets:
                    t = N(rets[0])
                    base = "this->_begin.item" if f.short == "front" else None
                    if f.short == "front":
                        ok = t in ("this->_begin.item->value", "this->_begin.item->key", "*(this->_begin.item + 1)")
                    else:
                        ok = any(t in (b + "->value", b + "->key", "*(%s + 1)" % b) for b in LASTN)
                    want, got = "payload of the %s node" % ("first" if f.short == "front" else "last"), t
                elif f.short == "contains" and len(f.params) == 1 and rets:
                    t = N(rets[0])
                    k = f.params[0]["n"]
                    ok = t in ("(this->find(%s) != this->_end)" % k, "(this->_end != this->find(%s))" % k, "!(this->find(%s) == this->_end)" % k, "(this->find(%s) != this->end())" % k)
                    want, got = "find(key) != end()", t
                elif f.short == "size" and not f.params and rets:
                    t = N(rets[0])
                    ok = t == "this->_size"
                    want, got = "_size", t
                elif f.short in ("begin", "end") and not f.params and rets:
                    t = N(rets[0])
                    ok = t == "this->_" + f.short
                    want, got = "_" + f.short, t
                else:
                    continue
                if ok:
                    chk.ok(rid, f, "%s delegates as %s" % (f.short, want), where, got[:60], nontrivial=False)
                else:
                    chk.bad(rid, f, "wrapper-delegates-wrongly:" + f.short, where,
                            "%s() is `%s`, its contract is %s: the operation acts on a different position / node than its name promises" % (f.short, got[:70], want))


# ----------------------------------------------------------------------------- positional equality

EQ_FIELDS = {"HashMap": ("key", "value"), "HashSet": ("key",), "List": ("value",)}
EQ_FORMS = {"key": ("$->key", "$.key()"), "value": ("$->value", "*$")}
EQ_FORMS_CLS = {"HashSet": {"key": ("$->key", "*$")}}      # a HashSet iterator dereferences to the key


def lockstep_equality(prog, chk, rid, classes):
    """operator==(const Self&) of the insertion-ordered containers compares position by position: the reference model is a sequence"""
    chk.rule(rid, "MPT/FIN: operator== answers true only under equal sizes and after a walk that advances one cursor over this and one over "
                  "`other` in every iteration and leaves with false on the differing edge of a comparison of each element field "
                  "(key / value) of the two cursors", floor=len(classes))
    for cls in classes:
        for tn, fs in sorted(class_insts(prog, cls).items()):
            ops = [f for f in fs if f.short == "operator==" and f.cls == tn and len(f.params) == 1]
            if not ops:
                raise AnalysisBroken("%s::operator== has no body in the witness unit" % tn)
            for f in ops:
                where = "%s:%s" % (f.file, f.line)
                other = f.params[0]["n"]
                defs = q.local_defs(f)
                rets = [i for i, n in enumerate(f.nodes) if n["k"] == "ReturnStmt" and n["c"]]
                vals = {r: fin.eval_expr(f, f.nodes[r]["c"][0], {}) for r in rets}
                if any(v is None for v in vals.values()):
                    chk.ok(rid, f, "operator== returns a computed value (shape not decided)", where, "no constant returns", nontrivial=False)
                    continue
                trues = [r for r in rets if vals[r]]
                falses = [r for r in rets if not vals[r]]
                # cursors: locals advanced by `x = x->next` or `++x`
                adv = {}
                names = {}
                for st in q.stores(f):
                    l = f.nodes[st.lhs]
                    if l["k"] != "DeclRefExpr" or l["ref"].get("dk") != "local":
                        continue
                    if (st.op == "=" and st.rhs is not None and q.no_casts(f.r(st.rhs)) == l["ref"]["n"] + "->next") or st.op == "++":
                        adv.setdefault(l["ref"]["id"], []).append(st.node)
                        names[l["ref"]["id"]] = l["ref"]["n"]
                for i in q.calls(f):
                    n = f.nodes[i]
                    if n["k"] == "CXXOperatorCallExpr" and n.get("oop") == "++" and len(n["c"]) >= 2:
                        o = f.nodes[f.strip(n["c"][1])]
                        if o["k"] == "DeclRefExpr" and o["ref"].get("dk") == "local":
                            adv.setdefault(o["ref"]["id"], []).append(i)
                            names[o["ref"]["id"]] = o["ref"]["n"]
                side = {}
                for cid in adv:
                    inits = [d_[2] for d_ in defs.get(cid, []) if d_[0] == "decl" and d_[2] is not None]
                    t = q.no_casts(q.xr(f, inits[0], defs)) if inits else ""
                    side[cid] = "other" if re.search(r"\b%s\b" % re.escape(other), t) else "self"
                A = [c for c in adv if side[c] == "self" and loop_blocks(f, adv[c][0])]
                B = [c for c in adv if side[c] == "other" and loop_blocks(f, adv[c][0])]
                problems = []
                if not A or not B:
                    problems.append(("not-positional", "the walk does not advance a cursor over %s in step with the one over %s: elements are not "
                                     "compared position by position, so two containers with the same elements in a different order compare equal "
                                     "(or unequal ones equal)" % ("`%s`" % other if not B else "this", "this" if not B else "`%s`" % other)))
                else:
                    a, b = A[0], B[0]
                    lb = loop_blocks(f, adv[a][0])
                    heads = [x for x in lb if any(p_ not in lb for p_ in f.preds.get(x, []))]
                    head = heads[0] if heads else None
                    for nm, cur in (("this", a), ("other", b)):
                        ap = q.pos_of(f, adv[cur])
                        if head is None or f.find_path((head, 0), {(head, 0)}, avoid=ap) is not None:
                            problems.append(("cursor-not-advanced:" + nm, "an iteration of the walk can return to the loop head without advancing the cursor over %s" % nm))
                    na, nb = names[a], names[b]
                    for fld in EQ_FIELDS[cls]:
                        found = False
                        for blk in f.blocks.values():
                            c = blk.get("cond")
                            if c is None or blk["id"] not in lb or len(blk["succ"]) != 2:
                                continue
                            for an, tr in q.cond_atoms(f, c, True):
                                n = f.nodes[f.strip(an)]
                                if n["k"] == "BinaryOperator" and n.get("op") in ("==", "!="):
                                    l_, r_, op = n["c"][0], n["c"][1], n["op"]
                                elif n["k"] == "CXXOperatorCallExpr" and n.get("oop") in ("==", "!=") and len(n["c"]) == 3:
                                    l_, r_, op = n["c"][1], n["c"][2], n["oop"]
                                else:
                                    continue
                                lt, rt = q.no_casts(f.r(l_)), q.no_casts(f.r(r_))
                                ta = lambda t_, nm_: re.sub(r"\b%s\b" % re.escape(nm_), "$", t_)
                                forms = {(ta(lt, na), ta(rt, nb)), (ta(rt, na), ta(lt, nb))}
                                if not any(x == y and x in EQ_FORMS_CLS.get(cls, EQ_FORMS)[fld] for x, y in forms):
                                    continue
                                # the edge on which the two differ must end in `return false` before anything else
                                differs_true = (op == "!=") == bool(tr)
                                tgt = blk["succ"][0] if differs_true else blk["succ"][1]
                                if tgt is None:
                                    continue
                                esc = f.find_path((tgt, 0), q.pos_of(f, trues) | {(head, 0)}, avoid=q.pos_of(f, falses), after_src=False)
                                if esc is None:
                                    found = True
                        if not found:
                            problems.append(("field-not-compared:" + fld, "no comparison of the two cursors' `%s` whose differing edge leaves with false" % fld))
                    # true only after the walk has run out and under equal sizes
                    for r in trues:
                        rel = fin.relations(f, f.node_pos(r), render=lambda i: q.no_casts(f.r(i)))
                        sz = any(o == "==" and re.search(r"_size$|size\(\)$", x) and re.search(r"_size$|size\(\)$", y) and x != y for x, o, y in rel)
                        if not sz:
                            problems.append(("true-without-size-test", "`return true` is reachable without the sizes having compared equal: the walk "
                                             "over the shorter list runs through the end sentinel of the other"))
                        if f.find_path(f.entry_pos(), {f.node_pos(r)}, avoid={(x, 0) for x in lb}, after_src=False) is not None and f.blocks:
                            # reachable without entering the walk at all is fine only for empty containers: the loop head decides that
                            problems.append(("true-around-walk", "`return true` is reachable around the element walk"))
                if problems:
                    for tag, why in problems:
                        chk.bad(rid, f, "equality-" + tag, where, why, evals=3)
                else:
                    chk.ok(rid, f, "operator==: equal sizes, lock-step walk, %s compared position by position" % "/".join(EQ_FIELDS[cls]), where,
                           "cursor advance on every back edge + differing edges end in false", evals=3 + len(EQ_FIELDS[cls]))


def self_assign_noop(prog, chk, rid, classes=("List", "Map", "MultiMap", "HashMap", "HashSet")):
    """elements of node containers never move: assigning a container to itself removes and inserts nothing, so it must not construct,
    destroy or re-link a single node - everything operator= does lies behind the alias guard"""
    chk.rule(rid, "DOM: in operator=(const Self& other) of the node containers every event that creates, destroys or hands over nodes "
                  "(clear/append/insert/swap on this, copies of the whole container, placement new, destructor calls) is taken only on "
                  "the `this != &other` edge of an alias test", floor=len(classes))
    for cls in classes:
        for tn, fs in sorted(class_insts(prog, cls).items()):
            for f in [f for f in fs if f.kind == "copyassign"]:
                other = f.params[0]
                guard_edges = fin.alias_guard_edges(f, other["n"])
                events = []
                for i in q.calls(f):
                    n = f.nodes[i]
                    callee = n.get("callee", "") or ""
                    if n["k"] == "CXXMemberCallExpr" and (q.call_object(f, i) is None or f.nodes[q.call_object(f, i)]["k"] == "CXXThisExpr") and \
                       not (n.get("csig") or "").endswith(" const"):
                        events.append((i, "this->%s()" % callee.split("::")[-1]))
                    elif n["k"] == "CXXConstructExpr" and (n.get("t") or "").replace("const ", "").strip() == tn:
                        events.append((i, "a copy of the whole container"))
                events += [(p_, "placement new") for p_ in placement_news(f)] + [(d_, "a destructor call") for d_, _o in dtor_events(f)]
                events = [(i, w) for i, w in events if f.node_pos(i) is not None]
                where = "%s:%s" % (f.file, f.line)
                bad = [(i, w) for i, w in events if not any(f.edge_dominates(e, f.node_pos(i)) for e in guard_edges)]
                if bad:
                    chk.bad(rid, f, "self-assignment-relocates-elements", f.where(bad[0][0]),
                            "operator= performs %s also when the argument is the container itself: every element is copied into a new node and "
                            "the old nodes are destroyed, pointers and iterators to the elements dangle although nothing was removed" % bad[0][1],
                            evals=len(events) + 1)
                else:
                    chk.ok(rid, f, "self-assignment touches no node", where, "%d node events, all behind the alias guard" % len(events), evals=len(events) + 1)


def erase_then_step(prog, chk, rid, funcs, floor=0):
    """`i = remove(i)` already yields the successor: an iteration that removes must not also step the iterator, or the element behind
    every removed one is never looked at (and the walk steps over the end when the last one is removed)"""
    chk.rule(rid, "CNT: in a loop, no path from `it = <container>.remove(it)` (the successor) back to the loop head passes an advance "
                  "(`++it`, `it = it->next`) of the same iterator", floor=floor)
    n = 0
    for f in funcs:
        if not f.blocks:
            continue
        for st in q.stores(f):
            if st.op != "=" or st.rhs is None:
                continue
            l = f.nodes[st.lhs]
            if l["k"] != "DeclRefExpr" or l["ref"].get("dk") != "local":
                continue
            rn = f.nodes[f.strip(st.rhs)]
            calls_ = [x for x in [f.strip(st.rhs)] + list(f.desc(st.rhs)) if f.nodes[x]["k"] == "CXXMemberCallExpr" and re.search(r"::remove$", f.nodes[x].get("callee") or "")]
            if not calls_:
                continue
            a_ = q.call_args(f, calls_[0])
            if not a_ or q.no_casts(f.r(a_[0])) != l["ref"]["n"]:
                continue
            lb = loop_blocks(f, st.node)
            if not lb:
                continue
            n += 1
            heads = [x for x in lb if any(p_ not in lb for p_ in f.preds.get(x, []))]
            vid, vn = l["ref"]["id"], l["ref"]["n"]
            steps = []
            for i, m in enumerate(f.nodes):
                if f.node_pos(i) is None or f.node_pos(i)[0] not in lb:
                    continue
                if m["k"] == "CXXOperatorCallExpr" and m.get("oop") == "++" and len(m["c"]) >= 2:
                    o = f.nodes[f.strip(m["c"][1])]
                    if o["k"] == "DeclRefExpr" and o["ref"].get("id") == vid:
                        steps.append(i)
                elif m["k"] == "UnaryOperator" and m.get("op") == "++" and f.nodes[f.strip(m["c"][0])].get("ref", {}).get("id") == vid:
                    steps.append(i)
            bad = None
            for s_ in steps:
                sp = f.node_pos(s_)
                if heads and f.find_path(f.node_pos(st.node), {sp}, avoid={(heads[0], 0)}) is not None:
                    bad = s_
            if bad is not None:
                chk.bad(rid, f, "step-after-erase:" + vn, f.where(bad),
                        "`%s` already designates the element behind the removed one when `%s` runs in the same iteration: that element is "
                        "skipped (never tested), and after removing the last element the iterator steps over the end sentinel" % (vn, f.r(bad)), evals=len(steps) + 1)
            else:
                chk.ok(rid, f, "`%s = remove(%s)` is not followed by a step in the same iteration" % (vn, vn), f.where(st.node), "path search to the loop head", evals=len(steps) + 1)
    return n


# ----------------------------------------------------------------------------- counting against a moving bound

def counting_against_moving_bound(prog, chk, rid, classes):
    """`for(i = a; i < _size; ++i) removeBack();` removes half of what it means to: the bound moves towards the counter while the
    counter moves towards the bound.  A loop that steps a counter and compares it with a member its own body changes (directly or
    through a member function that does) runs a number of times nobody wrote down."""
    chk.rule(rid, "CNT: no loop of a container member both steps a local counter and tests it against a size member that the loop body "
                  "changes (by a store or through a called member that stores to it)", floor=0)
    # members that (transitively) store to a size-like field, per class instantiation
    n_loops = 0
    for cls in classes:
        for tn, fs in sorted(class_insts(prog, cls).items()):
            by_sig = {f.sig: f for f in fs if f.blocks}
            writes = {}
            for f in by_sig.values():
                for s_ in q.stores(f):
                    l = f.nodes[s_.lhs]
                    if l["k"] == "MemberExpr" and l["c"] and f.nodes[f.strip(l["c"][0])]["k"] == "CXXThisExpr" and re.search(r"size|count|len", l.get("m") or "", re.I):
                        writes.setdefault(f.sig, set()).add(l["m"])
            for _r in range(4):
                for f in by_sig.values():
                    for c in q.calls(f):
                        cs = f.nodes[c].get("csig")
                        if cs in writes and cs != f.sig:
                            o = q.call_object(f, c)
                            if f.nodes[c]["k"] == "CXXMemberCallExpr" and (o is None or f.nodes[f.strip(o)]["k"] == "CXXThisExpr"):
                                writes.setdefault(f.sig, set()).update(writes[cs])
            for f in by_sig.values():
                for b in f.blocks.values():
                    c = b.get("cond")
                    if c is None or len(b["succ"]) != 2 or b.get("tk") not in ("ForStmt", "WhileStmt", "DoStmt"):
                        continue
                    members = set(f.nodes[x]["m"] for x in [f.strip(c)] + list(f.desc(c)) if f.nodes[x]["k"] == "MemberExpr" and f.nodes[x]["c"] and
                                  f.nodes[f.strip(f.nodes[x]["c"][0])]["k"] == "CXXThisExpr" and re.search(r"size|count|len", f.nodes[x].get("m") or "", re.I))
                    locs = set(f.nodes[x]["ref"]["id"] for x in [f.strip(c)] + list(f.desc(c)) if f.nodes[x]["k"] == "DeclRefExpr" and f.nodes[x]["ref"].get("dk") == "local")
                    if not members or not locs:
                        continue
                    lb = loop_blocks(f, f.strip(c)) or set()
                    if not lb:
                        continue
                    n_loops += 1
                    stepped = [s_ for s_ in q.stores(f) if s_.op in ("++", "--", "+=", "-=") and f.nodes[f.strip(s_.lhs)]["k"] == "DeclRefExpr" and
                               f.nodes[f.strip(s_.lhs)]["ref"].get("id") in locs and (f.node_pos(s_.node) or (None,))[0] in lb]
                    moved = []
                    for s_ in q.stores(f):
                        l = f.nodes[s_.lhs]
                        if l["k"] == "MemberExpr" and l.get("m") in members and (f.node_pos(s_.node) or (None,))[0] in lb:
                            moved.append(q.no_casts(f.r(s_.node))[:40])
                    for cc in q.calls(f):
                        if (f.node_pos(cc) or (None,))[0] in lb and writes.get(f.nodes[cc].get("csig"), set()) & members:
                            o = q.call_object(f, cc)
                            if f.nodes[cc]["k"] == "CXXMemberCallExpr" and (o is None or f.nodes[f.strip(o)]["k"] == "CXXThisExpr"):
                                moved.append(q.no_casts(f.r(cc))[:40])
                    if stepped and moved:
                        chk.bad(rid, f, "counting-against-moving-bound:" + sorted(members)[0], f.where(f.strip(c)),
                                "the loop steps `%s` and tests it against `%s`, which `%s` changes in the same loop: counter and bound move towards "
                                "each other, the body runs about half as often as the difference says (`[1,2,3,4,5] = [10,20]` keeps three "
                                "elements)" % (q.no_casts(f.r(stepped[0].node))[:20], sorted(members)[0], moved[0]), evals=2)
    chk.ok(rid, "loops", "%d loops that test a counter against a size member: none changes that member in its body" % n_loops, "", "store / callee-effect scan", nontrivial=n_loops > 0)


# ----------------------------------------------------------------------------- find walks the bucket chain

def find_walks_chain(prog, chk, rid, classes):
    """A key lives in the collision chain of its bucket (`nextCell`), not along the insertion-order list (`next`): the search that
    starts at `data[hash % capacity]` has to move along `nextCell` only - along `next` it still ends, and still finds keys that are
    alone in their bucket, but misses every key that is not the head of a longer chain."""
    chk.rule(rid, "WHO: in find() of the hash containers the walk that starts at a bucket head is advanced only by `->nextCell`", floor=len(classes))
    for cls in classes:
        for tn, fs in sorted(class_insts(prog, cls).items()):
            for f in [g for g in fs if g.short == "find" and g.blocks]:
                defs = q.local_defs(f)
                for did, dl in defs.items():
                    heads = [init for kind, nd, init in dl if init is not None and re.search(r"(this->)?data\[", q.no_casts(f.r(init)))]
                    if not heads:
                        continue
                    name = next((n_["ref"]["n"] for n_ in f.nodes if n_["k"] == "DeclRefExpr" and n_["ref"].get("id") == did), "?")
                    steps = [(nd, init) for kind, nd, init in dl if init is not None and init not in heads and kind != "addr"]
                    bad = [(nd, init) for nd, init in steps if q.no_casts(f.r(init)).strip("()") != "%s->nextCell" % name]
                    if bad:
                        chk.bad(rid, f, "chain-walk-leaves-bucket:" + q.no_casts(f.r(bad[0][1]))[:30], f.where(bad[0][0]),
                                "the search that starts at the bucket head moves on with `%s = %s`: that follows the insertion order, not the "
                                "bucket's collision chain - a key that shares its bucket with a later one is reported absent, re-inserting it "
                                "stores it twice" % (name, q.no_casts(f.r(bad[0][1]))[:40]), evals=len(steps) + 1)
                    else:
                        chk.ok(rid, f, "bucket walk advances along nextCell (%d step site(s))" % len(steps), "%s:%s" % (f.file, f.line), "stores to the walk variable", evals=len(steps) + 1)


def assignment_discards_old(prog, chk, rid, classes=("List", "Map", "MultiMap", "HashMap", "HashSet")):
    """`a = b` leaves `a` with b's contents - also when b is empty: unless the argument is the container itself, every path through
    operator= discards the old contents (the one early way out is the alias test)"""
    chk.rule(rid, "MPT: in operator=(const Self& other) of the node containers every path from the entry to a return passes the event that "
                  "discards the old contents (clear() on this, or the hand-over to a temporary), except over the `this == &other` edge", floor=len(classes))
    for cls in classes:
        for tn, fs in sorted(class_insts(prog, cls).items()):
            for f in [f for f in fs if f.kind == "copyassign" and f.blocks]:
                other = f.params[0]["n"]
                where = "%s:%s" % (f.file, f.line)
                drop = [i for i in q.calls(f) if (f.nodes[i].get("callee", "") or "").split("::")[-1] in ("clear", "swap") and
                        (q.call_object(f, i) is None or f.nodes[q.call_object(f, i)]["k"] == "CXXThisExpr")]
                if not drop:
                    chk.ok(rid, f, "operator= does not go through clear()/swap(): not decided here", where, "-", nontrivial=False)
                    continue
                want = {"this", "&" + other}
                cut = set()
                for b in f.blocks.values():
                    if b.get("cond") is None or len(b["succ"]) != 2 or b.get("tk") == "SwitchStmt" or b["succ"][0] == b["succ"][1]:
                        continue
                    for s_ in b["succ"]:
                        if s_ is None:
                            continue
                        for an, tr in fin.edge_atoms(f, b, s_):
                            cn = fin._canon(f, an, tr)
                            if cn[0] != "val" and cn[1] == "==" and {cn[0], cn[2]} == want:
                                cut.add((b["id"], s_))
                pth = fin.path_with_cuts(f, f.entry_pos(), f.exit_pos(), avoid=q.pos_of(f, drop), cut=cut, after_src=False)
                if pth is None:
                    chk.ok(rid, f, "every non-alias path through operator= discards the old contents", f.where(drop[0]), "MPT with the alias edge cut", evals=len(drop) + len(cut))
                else:
                    chk.bad(rid, f, "assignment-keeps-old-contents", where,
                            "a path through operator= (lines %s) returns without `clear()` although the argument is another container: for an empty "
                            "argument the target keeps its old entries - size, contents, find and iteration disagree with the source" % f.path_lines(pth)[:8],
                            evals=len(drop) + len(cut))
