"""Verdict protocol: obligations, violations, known findings, evidence, exit codes."""
import json
import os
import re
import time

VERIF = os.path.dirname(os.path.dirname(os.path.abspath(__file__)))
KNOWN = os.path.join(VERIF, "known_findings.json")
EVID = os.path.join(VERIF, "evidence")


def strip_targs(s):
    """remove balanced template argument lists: 'List<int>::Iterator' -> 'List::Iterator'"""
    out = []
    depth = 0
    i = 0
    while i < len(s):
        c = s[i]
        if s.startswith("operator", i):
            j = i + 8
            while j < len(s) and s[j] in "<>=-!+*/%&|^~[]()":
                j += 1
            if depth == 0:
                out.append(s[i:j])
            i = j
            continue
        if c == "<":
            depth += 1
        elif c == ">" and depth > 0:
            depth -= 1
        elif depth == 0:
            out.append(c)
        i += 1
    return "".join(out)


def generic_fkey(fn):
    """instantiation-independent identity of a function: qualified name + parameter type shape
    with the class' template arguments replaced by T0, T1, ..."""
    if fn is None:
        return ""
    if isinstance(fn, str):
        return fn
    targs = fn.d.get("targs", [])
    ps = []
    for p in fn.params:
        t = p["t"]
        if fn.cls and fn.clsq:
            t = t.replace(fn.cls, fn.clsq)
        # longest template args first so that e.g. "unsigned int" is replaced before "int"
        for i, a in sorted(enumerate(targs), key=lambda x: -len(x[1])):
            if a in ("void",):
                continue
            t = re.sub(r"(?<![\w:])" + re.escape(a) + r"(?![\w:])", "T%d" % i, t)
        ps.append(strip_targs(t))
    k = "%s(%s)" % (strip_targs(fn.name), ", ".join(ps))
    if fn.d.get("const"):
        k += " const"
    return k


class Check:
    def __init__(self, pid, tier="quick", level="other"):
        self.pid = pid
        self.tier = tier
        self.level = level
        self.t0 = time.time()
        self.obligations = []      # dicts
        self.viol = {}             # key -> dict (deduplicated over instantiations)
        self.notes = []
        self.samples = []
        self.units = []
        self.functions_analysed = set()
        self.rules = {}            # rule id -> description
        self.counts = {}           # rule id -> instances
        self.nontrivial = set()
        self.evaluations = 0
        self.broken = []
        self.assumptions = []
        self.extra = {}
        try:
            self.seed = int(os.environ.get("VERIF_SEED", "0"))
        except ValueError:
            self.seed = 0

    # ------------------------------------------------------------------ recording
    def rule(self, rid, text, floor=1):
        self.rules[rid] = {"text": text, "floor": floor}
        self.counts.setdefault(rid, 0)

    def ok(self, rid, fn, what, where="", decided_by="", nontrivial=True, evals=1):
        """one rule instance evaluated and discharged"""
        self.counts[rid] = self.counts.get(rid, 0) + 1
        self.evaluations += max(1, evals)
        fk = generic_fkey(fn)
        self.obligations.append((rid, fk, what, True))
        if fn is not None and not isinstance(fn, str):
            self.functions_analysed.add(fn.sig)
        if nontrivial:
            self.nontrivial.add((rid, fk, what))
        if len(self.samples) < 40 and (len(self.samples) < 12 or not any(s["rule"] == rid for s in self.samples)):
            self.samples.append({"rule": rid, "function": fk, "instance": what, "where": where,
                                 "decided_by": decided_by, "verdict": "holds"})

    def bad(self, rid, fn, tag, where, msg, path=None, evals=1):
        """one rule instance evaluated and violated"""
        self.counts[rid] = self.counts.get(rid, 0) + 1
        self.evaluations += max(1, evals)
        fk = generic_fkey(fn)
        if fn is not None and not isinstance(fn, str):
            self.functions_analysed.add(fn.sig)
        self.obligations.append((rid, fk, tag, False))
        self.nontrivial.add((rid, fk, tag))
        key = (rid, fk, tag)
        if key not in self.viol:
            self.viol[key] = {"property": self.pid, "rule": rid, "function": fk, "tag": tag,
                              "where": where, "message": msg, "path_lines": path or [],
                              "instantiations": []}
        if fn is not None and not isinstance(fn, str):
            self.viol[key]["instantiations"].append(fn.sig)

    def note(self, text):
        self.notes.append(text)

    def broke(self, text):
        self.broken.append(text)

    # ------------------------------------------------------------------ finishing
    def _known(self):
        try:
            with open(KNOWN) as fh:
                k = json.load(fh)
        except FileNotFoundError:
            return []
        return [e for e in k.get("known_findings", []) if e.get("property") == self.pid]

    def finish(self, replay_only=None):
        known = self._known()
        used = set()
        out_lines = []
        new_viol = []
        kf_lines = []
        for key, v in sorted(self.viol.items()):
            match = None
            for i, e in enumerate(known):
                if e.get("rule") == v["rule"] and e.get("function") == v["function"] and e.get("tag") == v["tag"]:
                    match = i
                    break
            if match is not None:
                used.add(match)
                kf_lines.append("KNOWN-FINDING: property=%s %s [%s %s %s @ %s]" % (
                    self.pid, known[match].get("what", v["message"]), v["rule"], v["function"], v["tag"], v["where"]))
            else:
                new_viol.append(v)
        # rule floors
        for rid, r in self.rules.items():
            if self.counts.get(rid, 0) < r["floor"]:
                self.broke("rule %s matched %d instances, floor is %d (anchor vanished or refactored?)" % (
                    rid, self.counts.get(rid, 0), r["floor"]))
        global EVID
        if os.environ.get("NSTD_EVIDENCE_DIR"):
            EVID = os.environ["NSTD_EVIDENCE_DIR"]
        os.makedirs(os.path.join(EVID, "replay"), exist_ok=True)
        for k, v in enumerate(new_viol):
            rp = os.path.join(EVID, "replay", "%s-%d.json" % (self.pid, k))
            with open(rp, "w") as fh:
                json.dump(v, fh, indent=1)
            out_lines.append("  %s: %s in %s — %s (at %s%s)" % (
                v["rule"], v["tag"], v["function"], v["message"], v["where"],
                (", path through lines %s" % v["path_lines"]) if v["path_lines"] else ""))
            out_lines.append("VIOLATION property=%s replay=%s" % (self.pid, rp))
        discharged = sum(1 for o in self.obligations if o[3])
        ev = {
            "property_id": self.pid,
            "tier": self.tier,
            "seed": self.seed,
            "level": self.level,
            "coverage": {
                "explanation": self.extra.get("explanation", ""),
                "obligations": len(self.obligations),
                "discharged": discharged,
                "evaluations": self.evaluations,
                "distinct_nontrivial": len(self.nontrivial),
                "rule": "instances are enumerated from the extracted AST/CFG facts of /repo's current sources on every run "
                        "(one per matching construct per function instantiation); an instance is counted as non-trivial and "
                        "distinct when its (rule, function, construct) triple is new and its verdict needed a path, dominance, "
                        "valuation or table argument rather than a mere presence test",
                "samples": self.samples[:40],
                "rules": {rid: {"text": r["text"], "instances": self.counts.get(rid, 0), "floor": r["floor"]}
                          for rid, r in self.rules.items()},
                "units": self.units,
                "functions_analysed": len(self.functions_analysed),
                "known_findings": [l for l in kf_lines],
                "notes": self.notes,
                "exhaustive": False,
                "checker_cmd": "./check %s --tier %s" % (self.pid, self.tier),
                "trusted_base": ["clang 14 parser/Sema/CFG", "tools/extract/nstd_extract.cc", "engine/*.py"],
            },
            "assumptions": self.assumptions,
            "wall_s": round(time.time() - self.t0, 3),
            "violations": len(new_viol),
        }
        for k2, v2 in self.extra.items():
            if k2 != "explanation":
                ev["coverage"][k2] = v2
        if self.broken:
            ev["coverage"]["analysis_broken"] = self.broken
        os.makedirs(EVID, exist_ok=True)
        with open(os.path.join(EVID, self.pid + ".json"), "w") as fh:
            json.dump(ev, fh, indent=1)
        for n in self.notes:
            print("NOTE: " + n)
        for l in kf_lines:
            print(l)
        for l in out_lines:
            print(l)
        print("%s: %d rule instances, %d discharged, %d known findings, %d new violations, %d functions, %.1fs" % (
            self.pid, len(self.obligations), discharged, len(kf_lines), len(new_viol), len(self.functions_analysed),
            time.time() - self.t0))
        if new_viol:
            return 1
        if self.broken:
            for b in self.broken:
                print("ANALYSIS-BROKEN: " + b)
            return 2
        return 0
