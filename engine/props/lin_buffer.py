"""C08.c/d — Buffer: every Memory::copy/move target, every terminator store and the state left at
each exit lie inside the allocation (linear-inequality abstract interpretation, engine/lin.py).

Class invariant INV (assumed at entry of every non-constructor member, proved again at every exit):
    buffer != 0  =>  buffer <= bufferStart <= bufferEnd <= buffer + _capacity
    buffer == 0  =>  _capacity == 0  and  bufferStart <= bufferEnd
Members that call other mutating members (append -> resize, prepend(Buffer) -> prepend) are checked up to
the call; the callee re-establishes INV at its own exits (assume-guarantee), and what the caller does after
the call is checked under the callee's stated post-condition only where one is listed below."""
from .. import q
from ..lin import Lin, LinAI, State

F = ("buffer", "bufferStart", "bufferEnd", "_capacity")


def V(name):
    return Lin.var("this->%s@0" % name)


def inv_owned(b, s, e, cap):
    return [s - b, e - s, b + cap - e, cap]


class Model:
    def __init__(self, chk, rid, f):
        self.chk, self.rid, self.f = chk, rid, f

    def learned(self, ai, st, key, truth):
        # knowledge about the *entry* value of buffer activates the entry invariant
        if key == "this->buffer" and st.env.get(key) == V("buffer"):
            self.entry_fact(st, truth)

    def entry_fact(self, st, owned):
        if owned:
            st.add(*inv_owned(V("buffer"), V("bufferStart"), V("bufferEnd"), V("_capacity")))
        else:
            st.add(V("_capacity"), V("_capacity").scale(-1), V("bufferEnd") - V("bufferStart"))

    def eval_special(self, ai, st, i):
        """size() of this buffer or of a Buffer parameter is bufferEnd - bufferStart of that object"""
        f = self.f
        n = f.nodes[i]
        if n["k"] == "CXXMemberCallExpr" and (n.get("callee") or "").endswith("Buffer::size"):
            o = q.call_object(f, i)
            pre = "this->" if (o is None or f.nodes[o]["k"] == "CXXThisExpr") else q.no_casts(f.r(o)) + "."
            e_, s_ = st.env.get(pre + "bufferEnd"), st.env.get(pre + "bufferStart")
            if e_ is not None and s_ is not None:
                return e_ - s_
        return None

    def call(self, ai, st, e):
        f = self.f
        n = f.nodes[e]
        if n["k"] == "CXXMemberCallExpr":
            o = q.call_object(f, e)
            if o is not None and f.nodes[o]["k"] == "CXXThisExpr" and not n.get("csig", "").endswith(" const"):
                # a mutating member of the same object: afterwards only INV is known (fresh symbols)
                sym = {x: Lin.var(ai.fresh("post_" + x, e)) for x in F}
                for x in F:
                    st.env["this->" + x] = sym[x]
                st.facts.pop("this->buffer", None)
                st.env["__havoc__"] = Lin.const(e)


def obligations(ai, st, f, e):
    """bounds obligations of one CFG element under state st: list of (what, [goal Lin >= 0], detail)"""
    out = []
    n = f.nodes[e]
    if n["k"] == "CallExpr" and n.get("callee") in ("Memory::copy", "Memory::move"):
        args = n["c"][1:]
        dst, cnt = ai.ev(st, args[0]), ai.ev(st, args[2])
        out.append(("write %s(dst=%s, n=%s)" % (n["callee"], q.no_casts(f.r(args[0]))[:40], q.no_casts(f.r(args[2]))[:30]), dst, cnt))
    return out


def region_goals(ai, st, dst, cnt):
    """goals proving [dst, dst+cnt) inside some block known to the state; returns (goals, region text) alternatives"""
    alts = []
    for b, size in ai.alloc.items():
        B = Lin.var(b)
        # data area of a fresh block of X+1 bytes: the last byte is reserved for the terminator
        alts.append(([dst - B, B + size - Lin.const(1) - (dst + cnt)], "fresh block %s of %s bytes" % (b, size)))
    if st.facts.get("this->buffer") is True:
        B, cap = st.env.get("this->buffer"), st.env.get("this->_capacity")
        if B is not None and cap is not None:
            alts.append(([dst - B, B + cap - (dst + cnt)], "owned block [buffer, buffer+_capacity]"))
    return alts


def run(prog, chk, fs, rid="C08.c"):
    chk.rule(rid, "VSA/linear: every Memory::copy/move destination range, every `*bufferEnd = 0` store and the state at every exit of a "
                  "Buffer member lie inside the owned or freshly allocated block (entailment from dominating guards + class invariant)", floor=20)
    chk.assumptions.append("linear domain: size_t arithmetic does not wrap; byte-pointer arithmetic has unit stride")
    for f in fs:
        if f.d.get("const") or not f.blocks or f.short in ("swap",):
            continue
        m = Model(chk, rid, f)
        ai = LinAI(f, m)
        init = State()
        for x in F:
            init.env["this->" + x] = V(x)
        init.add(V("_capacity"), V("bufferEnd") - V("bufferStart"))   # start <= end holds for owning and non-owning buffers
        for prm in f.params:
            if "Buffer" in prm["t"]:
                pe, ps = "%s.bufferEnd" % prm["n"], "%s.bufferStart" % prm["n"]
                init.env[pe], init.env[ps] = Lin.var(pe + "@0"), Lin.var(ps + "@0")
                init.add(init.env[pe] - init.env[ps])
            if prm["t"].startswith("unsigned"):
                init.env["L:%s:%s" % (prm["n"], prm["id"])] = Lin.var(prm["n"] + "@0")
                init.add(Lin.var(prm["n"] + "@0"))
        is_ctor = f.kind == "ctor"
        if is_ctor:
            for x in F:
                init.env.pop("this->" + x, None)
        sin, sat = ai.run(init)
        havoc_seen = False
        verdicts = {}      # (order, key) -> list of ("ok"|"bad"|"triv", args) over the disjuncts reaching the site

        def V_(key, kind, *args):
            verdicts.setdefault(key, []).append((kind, args))
        order = 0
        for b in sorted(f.blocks):
            blk = f.blocks[b]
            for i, e in enumerate(blk["el"]):
                sts = sat.get((b, i))
                if not sts or not isinstance(e, int):
                    continue
                order += 1
                for st in sts:
                    if "__havoc__" in st.env:
                        havoc_seen = True
                    n = f.nodes[e]
                    s2 = st.copy()
                    for what, dst, cnt in obligations(ai, s2, f, e):
                        if "__havoc__" in st.env:
                            chk.note("%s: %s after a call to another mutating member is not decided (callee post-condition not modelled)" % (f.sig, what))
                            continue
                        proved = None
                        for goals, region in region_goals(ai, s2, dst, cnt):
                            if all(s2.proves(g) for g in goals):
                                proved = region
                                break
                        if proved:
                            V_((order, e, "w"), "ok", what, f.where(e), "inside " + proved)
                        else:
                            V_((order, e, "w"), "bad", "write-not-proved-in-bounds:" + q.no_casts(f.r(n["c"][1]))[:40] + "," + q.no_casts(f.r(n["c"][3]))[:40], f.where(e),
                               "%s cannot be shown to stay inside the owned block or the freshly allocated block from the guards on this path "
                               "(facts: buffer %s)" % (what, {True: "non-null", False: "null", None: "unknown"}[st.facts.get("this->buffer")]))
                    # terminator stores
                    if n["k"] == "BinaryOperator" and n["op"] == "=" and f.r(n["c"][0]) == "*this->bufferEnd" and "__havoc__" not in st.env:
                        s2 = st.copy()
                        end = s2.env.get("this->bufferEnd")
                        ok = None
                        if end is not None:
                            for bsym, size in ai.alloc.items():
                                B = Lin.var(bsym)
                                if s2.proves(end - B) and s2.proves(B + size - Lin.const(1) - end):
                                    ok = "fresh block"
                            if ok is None and s2.facts.get("this->buffer") is True:
                                B, cap = s2.env.get("this->buffer"), s2.env.get("this->_capacity")
                                if s2.proves(end - B) and s2.proves(B + cap - end):
                                    ok = "owned block (index <= _capacity, the block has _capacity + 1 bytes)"
                            if ok is None and s2.facts.get("this->buffer") is False and end == Lin.var("&this->_capacity"):
                                ok = "the inline dummy (&_capacity) of a non-owning buffer"
                        if ok:
                            V_((order, e, "t"), "ok", "terminator store at line %s" % n["l"], f.where(e), "inside " + ok)
                        elif s2.facts.get("this->buffer") is None and s2.env.get("this->buffer") == V("buffer") and end is not None:
                            # ownership not tested on this path: decide both cases.  Owned: the store hits [buffer, buffer + _capacity].
                            # Attached (buffer == 0): it must stay inside the attached range [bufferStart@entry, bufferEnd@entry) -
                            # the byte AT the entry end is the first one that does not belong to the buffer.
                            fails = []
                            so = s2.copy()
                            so.facts["this->buffer"] = True
                            self_m = m
                            self_m.entry_fact(so, True)
                            if not so.infeasible():
                                B, cap = so.env.get("this->buffer"), so.env.get("this->_capacity")
                                if not (so.proves(end - B) and so.proves(B + cap - end)):
                                    fails.append("owning buffer: not shown to hit [buffer, buffer + _capacity]")
                            sa = s2.copy()
                            sa.facts["this->buffer"] = False
                            self_m.entry_fact(sa, False)
                            if not sa.infeasible():
                                if not (end == Lin.var("&this->_capacity") or (sa.proves(end - V("bufferStart")) and sa.proves(V("bufferEnd") - Lin.const(1) - end))):
                                    fails.append("attached buffer (buffer == 0): the store is not shown to stay below the end of the attached range")
                            if fails:
                                V_((order, e, "t"), "bad", "terminator-not-proved-in-bounds", f.where(e),
                                   "the zero store through bufferEnd: " + "; ".join(fails))
                            else:
                                V_((order, e, "t"), "ok", "terminator store at line %s (owned and attached case)" % n["l"], f.where(e), "inside the owned block / the attached range")
                        elif s2.facts.get("this->buffer") is None:
                            V_((order, e, "t"), "triv", "terminator store at line %s (ownership unknown)" % n["l"], f.where(e),
                               "not an owned-block obligation on this path")
                        else:
                            V_((order, e, "t"), "bad", "terminator-not-proved-in-bounds", f.where(e),
                               "the zero store through bufferEnd cannot be shown to hit the owned block's reserved byte or data area")
        # exit invariant
        exits = []
        for pb in f.preds.get(f.exit, []):
            stp = sat.get((pb, len(f.blocks[pb]["el"])))
            for st in (stp or ()):
                exits.append((pb, st))
        for pb, st in exits:
            if f.kind == "dtor" or havoc_seen or f.short in ("attach",):
                break
            s2 = st.copy()
            B, S, E, cap = (s2.env.get("this->" + x) for x in F)
            own = s2.facts.get("this->buffer")
            key = (10 ** 6 + pb, pb, "x")
            if None in (B, S, E, cap):
                chk.note("%s: exit state incomplete, invariant not checked" % f.sig)
            elif own is True or (B is not None and any(B == Lin.var(b) for b in ai.alloc)):
                bad = [g for g in inv_owned(B, S, E, cap) if not s2.proves(g)]
                if not bad:
                    V_(key, "ok", "exit via block B%d: buffer <= bufferStart <= bufferEnd <= buffer + _capacity" % pb, "%s:%s" % (f.file, f.line), "entailed at the end of the exiting block")
                else:
                    V_(key, "bad", "exit-invariant-not-restored", _last_line(f, pb),
                       "at the exit the window [bufferStart, bufferEnd] cannot be shown to lie in [buffer, buffer + _capacity] (violated: %s)" % bad[:2])
            else:
                V_(key, "triv", "exit: ownership differs between paths, invariant checked per terminator/copy site", "%s:%s" % (f.file, f.line), "")
        # one verdict per site: it holds when it holds in every disjunct that reaches the site
        for key in sorted(verdicts, key=lambda k: (k[0], str(k[1]), k[2])):
            vs = verdicts[key]
            bads = [a for k_, a in vs if k_ == "bad"]
            if bads:
                chk.bad(rid, f, *bads[0])
            else:
                oks = [a for k_, a in vs if k_ == "ok"]
                if oks:
                    chk.ok(rid, f, oks[0][0], oks[0][1], oks[0][2] + (" (%d disjuncts)" % len(vs) if len(vs) > 1 else ""), evals=2 * len(vs))
                else:
                    a = vs[0][1]
                    chk.ok(rid, f, a[0], a[1], a[2], nontrivial=False)


def _last_line(f, b):
    els = [e for e in f.blocks[b]["el"] if isinstance(e, int)]
    return f.where(els[-1]) if els else "%s:%s" % (f.file, f.line)
