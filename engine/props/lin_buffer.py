"""placeholder: linear-inequality bounds rules for Buffer (C08.c/d) — filled in later"""


def run(prog, chk, fs):
    return
