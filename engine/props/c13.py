"""C13 — Server clients deliver written bytes completely and in order."""
import itertools
import re
from .. import q, fin
from .. import containers as C
from ..facts import AnalysisBroken
from .server_common import sfn, use_after_callback, callback_calls

EXPLANATION = (
    "Structural rules on ClientImpl::write, the write-ready arm of Server::Private::run, suspend/resume and Socket::send/recv: "
    "(a) a direct send happens only while no backlog exists; (b) the buffered remainder is (data + k, size - k) for the one value k "
    "returned by send (0 on would-block), and the drained prefix is exactly what send returned; (c) every `return true` of write has "
    "accounted for all bytes, every failed send returns false and queues the client for closing; (d) at every registration of a client "
    "with the poll set the interest flags equal {read iff not suspended, write iff backlog non-empty}, evaluated under all valuations "
    "left open by the dominating facts; (e) producer and consumers agree on the would-block convention (-1 with error 0); (f) the "
    "reported postponed size; (g) onWrite is delivered only on the backlog-empty edge after the interest set was recomputed and nothing "
    "of the client is used after it. Not decided: the byte stream at the peer for all OS send outcomes, single delivery of onWrite.")

P = "Server::Private::"


def flag(f_any, prog, name):
    for f in prog.functions.values():
        for n in f.nodes:
            if n["k"] == "DeclRefExpr" and n["ref"].get("q") == "Socket::Poll::" + name:
                return n["ref"]["v"]
    raise AnalysisBroken("enumerator Socket::Poll::%s not found" % name)


def buffer_events(f, owner_re):
    """calls that change the emptiness of a client's _sendBuffer: (node, effect)"""
    out = []
    for i in q.calls(f):
        t = q.no_casts(f.r(i))
        m = re.match(r"^(%s)_sendBuffer\.(append|free|removeFront|clear|assign|resize|prepend|swap|attach|removeBack)\(" % owner_re, t)
        if m:
            out.append((i, m.group(2)))
    return out


def run(prog, chk):
    chk.extra["explanation"] = EXPLANATION
    chk.rule("C13.a", "DOM: the direct send in write() is dominated by the true edge of _sendBuffer.isEmpty(); the other edge appends the whole argument", floor=2)
    chk.rule("C13.b", "dataflow: remainder = (data + k, size - k) with the k returned by send; drained prefix = the value returned by send(_sendBuffer, _sendBuffer.size())", floor=2)
    chk.rule("C13.c", "MPT: every `return true` of write passes `sent >= size` or an append; every failed send returns false after queueing the client for closing", floor=3)
    chk.rule("C13.d", "FIN: interest flags at every client registration == (read iff not suspended) | (write iff backlog non-empty) under all open valuations", floor=7)
    chk.rule("C13.e", "TBL: Socket::send/recv report would-block as -1 with error 0; write, read and the drain arm treat (-1, error 0) as retry, (-1, error) and 0 as closed", floor=5)
    chk.rule("C13.f", "AST: *postponed is _sendBuffer.size() on the buffered paths and 0 on the fully-sent and failed paths", floor=3)
    chk.rule("C13.g", "ORD: onWrite only on the backlog-empty edge, after the interest set was recomputed; the client is not used after a callback", floor=2)
    # the send backlog lives in a Buffer: a window that leaves its allocation or loses its start loses or duplicates pending bytes
    from . import lin_buffer, c08
    lin_buffer.run(prog, chk, c08.methods(prog), rid="C13.i")
    send_reports_accepted_bytes(prog, chk, "C13.j")
    client_write_table(prog, chk, "C13.l")
    from . import c14 as _c14
    backlog_creation_registers_write(prog, chk, "C13.o")
    suspension_change_reregisters(prog, chk, "C13.p")
    _c14.event_translation_tables(prog, chk, "C13.n")     # level-triggered registration: a write event that lost against a read is reported again
    c08.window_trims(prog, chk, "C13.m")      # the drain arm removes what the socket took with removeFront(sent)
    # the send backlog is a Buffer that is freed whenever it has drained and grown again by the next partial send: the pairing of
    # `buffer = 0` with `_capacity = 0` (C08.b0) and the terminator obligation (C08.a) decide clauses of this property as well
    from .server_common import Only
    c08.run(prog, Only(chk, "C08.b0", "C13.k"))
    chk.rule("C13.h", "ORD: when the interest set of a socket shrinks (suspend), Poll::set prunes the removed flags from the events already "
                      "buffered from the current epoll_wait round, computing them from the registered flags before these are overwritten", floor=1)
    from . import c14
    c14.poll_set_prunes(prog, chk, "C13.h")
    RF, WF = flag(None, prog, "readFlag"), flag(None, prog, "writeFlag")
    w = sfn(prog, P + "ClientImpl::write")
    run_ = sfn(prog, P + "run")
    where = "%s:%s" % (w.file, w.line)
    # ------------------------------------------------------------------ C13.a
    sends = [i for i in q.calls(w) if w.nodes[i].get("callee") == "Socket::send"]
    if len(sends) != 1:
        chk.bad("C13.a", w, "send-count", where, "write() must contain exactly one direct send, found %d" % len(sends))
    else:
        atoms = fin.dominating_atoms(w, w.node_pos(sends[0]))
        if any(a[0] != "case" and a[1] and fin.key(w, a[0]) == "this->_sendBuffer.isEmpty()" for a in atoms):
            chk.ok("C13.a", w, "direct send only with an empty backlog", w.where(sends[0]), "true edge of _sendBuffer.isEmpty()", evals=len(atoms))
        else:
            chk.bad("C13.a", w, "send-with-backlog", w.where(sends[0]),
                    "write() sends directly although earlier data may still be queued in _sendBuffer: the new bytes overtake the backlog (reordering)")
        apps = [i for i, e in buffer_events(w, r"this->") if e == "append"]
        whole = [a for a in apps if [q.no_casts(w.r(x)) for x in q.call_args(w, a)] == [w.params[0]["n"], w.params[1]["n"]]]
        okw = any(any(x[0] != "case" and not x[1] and fin.key(w, x[0]) == "this->_sendBuffer.isEmpty()" for x in fin.dominating_atoms(w, w.node_pos(a))) for a in whole)
        if okw:
            chk.ok("C13.a", w, "with a backlog the whole argument is appended", w.where(whole[0]), "append(data, size) on the false edge", evals=2)
        else:
            chk.bad("C13.a", w, "backlog-branch-append", where, "when a backlog exists write() must append exactly (data, size) to it")
    # ------------------------------------------------------------------ C13.b
    if sends:
        sent = None
        p = w.up(sends[0])
        while p is not None and w.nodes[p]["k"] not in ("DeclStmt", "BinaryOperator"):
            p = w.up(p)
        if p is not None and w.nodes[p]["k"] == "DeclStmt":
            sent = w.nodes[p]["decls"][0]
        rem = [a for a in [i for i, e in buffer_events(w, r"this->") if e == "append"] if a not in whole] if len(sends) == 1 else []
        ok = False
        if sent and len(rem) == 1:
            a0, a1 = [q.no_casts(q.xr(w, x)) for x in q.call_args(w, rem[0])]      # `rest = data + accepted` with `accepted = (usize)sent`
            dn, sn, k = w.params[0]["n"], w.params[1]["n"], sent["n"]
            ok = a0 == "(%s + %s)" % (dn, k) and a1 == "(%s - %s)" % (sn, k)
            # k is only re-defined as 0 (would-block)
            defs = [s for s in q.stores(w) if w.r(s.lhs) == k]
            ok = ok and all(s.rhs is not None and fin.eval_expr(w, s.rhs, {}) == 0 for s in defs)
            ok = ok and [q.no_casts(w.r(x)) for x in q.call_args(w, sends[0])] == [dn, sn]
        if ok:
            chk.ok("C13.b", w, "remainder append(data + sent, size - sent) with sent from send(data, size) or 0", w.where(rem[0]), "argument shapes and definitions of `sent`", evals=3)
        else:
            chk.bad("C13.b", w, "remainder-not-complement", where,
                    "the bytes buffered after a partial send must be exactly (data + k, size - k) where k is the value returned by send(data, size) "
                    "(0 on would-block): otherwise bytes are lost or duplicated")
    dr = [i for i in q.calls(run_) if run_.nodes[i].get("callee") == "Socket::send"]
    # how run() designates the client of its write-ready arm: read off the object of the drain's send (`client.` / `writer->`)
    OWN, OBJ = "client.", "client"
    if dr:
        o_ = q.call_object(run_, dr[0])
        if o_ is not None:
            me_ = run_.nodes[run_.strip(run_.nodes[dr[0]]["c"][0])]
            base_ = q.no_casts(run_.r(o_))
            OWN = base_ + ("->" if me_.get("arrow") else ".")
            OBJ = ("*" + base_) if me_.get("arrow") else base_
    okd = False
    if len(dr) == 1:
        args = [q.no_casts(q.xr(run_, x)) for x in q.call_args(run_, dr[0])]      # sizes kept in a local are expanded
        p = run_.up(dr[0])
        while p is not None and run_.nodes[p]["k"] != "DeclStmt":
            p = run_.up(p)
        rf = [i for i, e in buffer_events(run_, re.escape(OWN)) if e == "removeFront"]
        if p is not None and rf:
            k = run_.nodes[p]["decls"][0]["n"]
            okd = args[0].startswith(OWN + "_sendBuffer") and "size" not in args[0] and args[1] == OWN + "_sendBuffer.size()" and \
                all(q.no_casts(run_.r(q.call_args(run_, x)[0])) == k for x in rf) and not [s for s in q.stores(run_) if run_.r(s.lhs) == k]
    if okd:
        chk.ok("C13.b", run_, "drain sends the whole backlog and drops exactly the sent prefix", run_.where(dr[0]), "send(_sendBuffer, size()) ... removeFront(sent)", evals=3)
    else:
        chk.bad("C13.b", run_, "drain-prefix", "%s:%s" % (run_.file, run_.line),
                "the write-ready arm must send (_sendBuffer, _sendBuffer.size()) and remove exactly the number of bytes send returned from the front")
    # ------------------------------------------------------------------ C13.c
    rets = [(i, fin.eval_expr(w, n["c"][0], {})) for i, n in enumerate(w.nodes) if n["k"] == "ReturnStmt" and n["c"]]
    apps_all = [i for i, e in buffer_events(w, r"this->") if e == "append"]
    for r, v in rets:
        if v == 1:
            atoms = fin.dominating_atoms(w, w.node_pos(r))
            # the count returned by send covers the request: `sent >= size`, `size <= sent`, `!(sent < size)`, `sent == size`
            defs_c = q.local_defs(w)
            same_ = {"sent"} | set(d_["n"] for n_ in w.nodes if n_["k"] == "DeclStmt" for d_ in n_["decls"]
                                 if d_.get("init") is not None and q.single_def(w, d_["id"], defs_c) is not None and q.no_casts(q.xr(w, d_["init"])) == "sent")
            def _full(cn_):
                return len(cn_) == 3 and ((cn_[0] == "size" and cn_[1] in ("<=", "<") and cn_[2] in same_) or
                                          (cn_[1] == "==" and {cn_[0], cn_[2]} & same_ and "size" in (cn_[0], cn_[2])))
            full = any(a[0] != "case" and _full(fin._canon(w, a[0], a[1])) for a in atoms)
            via_app = w.find_path(w.entry_pos(), {w.node_pos(r)}, avoid=q.pos_of(w, apps_all), after_src=False) is None
            if full or via_app:
                chk.ok("C13.c", w, "return true at line %s accounts for all bytes" % w.nodes[r]["l"], w.where(r), "sent >= size" if full else "an append on every path", evals=2)
            else:
                chk.bad("C13.c", w, "true-without-all-bytes", w.where(r), "write() returns true on a path that neither sent all bytes nor buffered the rest")
        elif v == 0:
            cl = [i for i in q.calls(w) if re.search(r"_closingClients\.append\(this\)", w.r(i))]
            if cl and w.find_path(w.entry_pos(), {w.node_pos(r)}, avoid=q.pos_of(w, cl), after_src=False) is None:
                chk.ok("C13.c", w, "failed send queues the client for closing", w.where(r), "_closingClients.append(this) on every path to `return false`", evals=2)
            else:
                chk.bad("C13.c", w, "failure-without-close", w.where(r), "write() returns false without queueing the client in _closingClients (no onClosed follows a failed write)")
    # ------------------------------------------------------------------ C13.d
    sites = []
    for f, owner in ((w, "this->"), (run_, OWN), (sfn(prog, P + "ClientImpl::suspend"), "this->"), (sfn(prog, P + "ClientImpl::resume"), "this->")):
        for c in q.calls(f):
            n = f.nodes[c]
            if not re.search(r"_sockets\.set\(", f.r(c)):
                continue
            args = q.call_args(f, c)
            who = q.no_casts(f.r(args[0]))
            if who not in ("*this", "client", OBJ):
                continue
            if "ClientImpl" not in f.nodes[f.strip(args[0])].get("t", ""):
                continue
            if any(re.search(r"_clients\.append", f.r(x)) and f.dominates_pos(f.node_pos(x), f.node_pos(c)) for x in q.calls(f)):
                continue   # a client created on this path: checked as a creation site below
            sites.append((f, owner, c, args[1]))
    for f, owner, c, e in sites:
        pos = f.node_pos(c)
        ks, ke = owner + "_suspended", owner + "_sendBuffer.isEmpty()"
        # suspended: last dominating store, else dominating atoms
        sus_vals = {0, 1}
        for s in q.stores(f):
            if f.r(s.lhs) == ks and f.dominates_pos(f.node_pos(s.node), pos):
                v = fin.eval_expr(f, s.rhs, {})
                if v is not None:
                    sus_vals = {int(bool(v))}
        # emptiness: last dominating buffer event with no later one, else atoms on isEmpty() (if no event in between)
        emp_vals = {0, 1}
        evs = buffer_events(f, re.escape(owner))
        dom = [(i, ef) for i, ef in evs if f.dominates_pos(f.node_pos(i), pos) and f.node_pos(i) != pos]
        last = None
        for i, ef in dom:
            if not any(j != i and q.reaches(f, i, j) and q.reaches(f, j, c) for j, _e in evs):
                last = (i, ef)
        fresh_client = False
        if last is not None and last[1] == "append":
            emp_vals = {0}
        elif last is not None and last[1] == "free":
            emp_vals = {1}
        drop = set()
        if len(sus_vals) == 1:
            drop.add(ks)
        if last is not None:
            drop.add(ke)
        all_atoms = fin.dominating_atoms(f, pos)
        feas = []
        for sv in sorted(sus_vals):
            for ev in sorted(emp_vals):
                val0 = {ks: sv, ke: ev}
                okv = True
                for a in all_atoms:
                    if a[0] == "case":
                        continue
                    kt = fin.key(f, a[0])
                    if any(d in kt for d in drop):
                        continue   # the tested quantity was overwritten between the test and this site
                    v0 = fin.eval_expr(f, a[0], val0)
                    if v0 is not None and bool(v0) != a[1]:
                        okv = False
                if okv:
                    feas.append(val0)
        wrong = []
        for v in feas:
            # a modifying event between an isEmpty() test and the site invalidates the atom-derived emptiness: handled by `last`
            val = fin.value_at(f, e, c, {ks: v[ks], ke: v[ke]})
            want = (0 if v[ks] else RF) | (0 if v[ke] else WF)
            if val is None or (val & (RF | WF)) != want or (val & ~(RF | WF)):
                wrong.append((v[ks], v[ke], val, want))
        if not feas:
            chk.bad("C13.d", f, "registration-unreachable", f.where(c), "no valuation reaches this registration (analysis cannot evaluate it)")
        elif wrong:
            s_, e_, val, want = wrong[0]
            chk.bad("C13.d", f, "interest-set-disagrees-with-state", f.where(c),
                    "for suspended=%d, backlog %s the client is registered with flags %s but must be registered with %d "
                    "(read iff not suspended, write iff backlog): %s" % (s_, "empty" if e_ else "non-empty", val, want,
                                                                           "a suspended client gets read events" if s_ and val and val & RF else
                                                                           "the backlog is never flushed" if not e_ and not (val or 0) & WF else "readiness events are lost or spurious"))
        else:
            chk.ok("C13.d", f, "interest flags `%s` agree with (suspended, backlog) for %d valuations" % (q.no_casts(f.r(e))[:50], len(feas)), f.where(c),
                   "valuations %s" % [(v[ks], v[ke]) for v in feas], evals=len(feas))
    # creation sites: a fresh client (not suspended, empty backlog) is registered for reading
    for f in prog.functions.values():
        if not f.file.endswith("Server.cpp"):
            continue
        for c in q.calls(f):
            if not re.search(r"_sockets\.set\(client, ", f.r(c)):
                continue
            if not any(re.search(r"_clients\.append", f.r(x)) and f.dominates_pos(f.node_pos(x), f.node_pos(c)) for x in q.calls(f)):
                continue
            v = fin.eval_expr(f, q.call_args(f, c)[1], {})
            # the registration must be in place before the client is handed to user code: a callback that receives the client may
            # suspend it or write to it, and a registration made afterwards overwrites what those calls registered
            born = q.pos_of(f, [x for x in q.calls(f) if re.search(r"_clients\.append", f.r(x))])      # a later round creates another client
            handed = [cb for cb, _root, _t in callback_calls(f) if any(re.search(r"\bclient\b", f.r(a_)) for a_ in q.call_args(f, cb)) and
                      f.node_pos(cb) is not None and f.find_path(f.node_pos(cb), {f.node_pos(c)}, avoid=born) is not None]
            if handed:
                chk.bad("C13.d", f, "registration-after-handover", f.where(c),
                        "the new client is registered with the poll set after `%s` has handed it to user code: suspend() or a write with a backlog "
                        "inside that callback is overwritten (a suspended client gets read events / a backlog is never flushed)" % f.r(handed[0])[:60])
                continue
            if v == RF:
                chk.ok("C13.d", f, "fresh client registered for reading", f.where(c), "flags == readFlag", nontrivial=False)
            else:
                chk.bad("C13.d", f, "fresh-client-interest", f.where(c), "a new client (not suspended, empty backlog) must be registered with readFlag, got %s" % v)
    # ------------------------------------------------------------------ C13.e
    for nm in ("Socket::send", "Socket::recv"):
        f = sfn(prog, nm)
        # every `return -1` that follows a would-block test has the error reset to 0 on the would-block edge
        okp = False
        for b in f.blocks.values():
            c = b.get("cond")
            if c is None:
                continue
            t = fin.key(f, c)
            if re.search(r"== 11\)", t):   # EWOULDBLOCK / EAGAIN == 11
                tedge = b["succ"][0]
                resets = [s.node for s in q.stores(f) if "__errno_location" in f.r(s.lhs) and q.is_zero(f, s.rhs)]
                if resets and any(f.find_path((tedge, 0), {f.node_pos(r)}, after_src=False) is not None for r in resets):
                    okp = True
        rets = [i for i, n in enumerate(f.nodes) if n["k"] == "ReturnStmt" and n["c"] and fin.eval_expr(f, n["c"][0], {}) == -1]
        if not (okp and rets):
            # decision table over (result of the system call, errno): would-block -> -1 with errno reset; other error -> -1, errno kept
            prim = [c_ for c_ in q.calls(f) if f.nodes[c_].get("callee") in ("send", "recv")]
            ek = [fin.key(f, n_["i"]) for n_ in f.nodes if n_["k"] == "UnaryOperator" and n_.get("op") == "*" and "__errno_location" in f.r(n_["i"])]
            resets = [s_.node for s_ in q.stores(f) if "__errno_location" in f.r(s_.lhs) and q.is_zero(f, s_.rhs)]
            tab_ok = bool(prim) and bool(ek) and bool(resets)
            for r_, e_, want_ret, want_reset in ((-1, 11, -1, True), (-1, 104, -1, False)):
                if not tab_ok:
                    break
                val_ = {fin.key(f, prim[0]): r_}
                val_.update({k_: e_ for k_ in ek})
                seen_, end_, fv_ = fin.walk_vals(f, f.entry, val_)
                if not isinstance(end_, int):
                    tab_ok = False
                    break
                got_ = fin.eval_expr(f, f.nodes[end_]["c"][0], dict(fv_, **{fin.key(f, prim[0]): r_})) if f.nodes[end_]["c"] else None
                if got_ != want_ret or any(x_ in seen_ for x_ in resets) != want_reset:
                    tab_ok = False
            if tab_ok:
                okp, rets = True, [1]
        if okp and rets:
            chk.ok("C13.e", f, "%s: would-block -> error 0, return -1" % nm, "%s:%s" % (f.file, f.line), "errno reset on the EWOULDBLOCK/EAGAIN edge", evals=2)
        else:
            chk.bad("C13.e", f, "would-block-not-mapped", "%s:%s" % (f.file, f.line), "%s must report EWOULDBLOCK/EAGAIN as -1 with the error set to 0 (the Server treats error 0 as retry)" % nm)
    from .server_common import io_outcomes
    for f, what, prim in ((w, "write", "Socket::send"), (sfn(prog, P + "ClientImpl::read"), "read", "Socket::recv"), (run_, "drain arm", "Socket::send")):
        tab = io_outcomes(f, prim)
        want = {"would-block": False, "error": True, "closed": True, "partial": False, "full": False}
        if tab is None:
            chk.bad("C13.e", f, "would-block-consumer:" + what.replace(" ", "-"), "%s:%s" % (f.file, f.line), "%s: the call to %s was not found" % (what, prim))
            continue
        und = [k for k, t4 in tab.items() if isinstance(t4[1], str) and t4[1].startswith("undetermined")]
        wrong = [k for k in want if tab[k][0] != want[k]]
        if und:
            chk.bad("C13.e", f, "would-block-consumer:" + what.replace(" ", "-"), "%s:%s" % (f.file, f.line), "%s: a guard could not be evaluated for result classes %s (%s)" % (what, und, tab[und[0]][1]))
        elif wrong:
            k = wrong[0]
            chk.bad("C13.e", f, "would-block-consumer:" + what.replace(" ", "-"), "%s:%s" % (f.file, f.line),
                    "%s treats a %s result of %s as %s; (-1, error 0) is would-block (keep the data, no close), (-1, error) and 0 mean the connection is gone" % (
                        what, prim, k, "closed" if tab[k][0] else "still open"))
        elif what == "write" and not (tab["would-block"][2] and tab["partial"][2] and not tab["full"][2] and tab["would-block"][3] == 1 and tab["partial"][3] == 1 and
                                      tab["full"][3] == 1 and tab["error"][3] == 0 and tab["closed"][3] == 0):
            chk.bad("C13.e", f, "write-outcome-table", "%s:%s" % (f.file, f.line),
                    "write(): for send() results {would-block, partial, full, error, closed} the data must be {buffered, buffered, not buffered, -, -} with return "
                    "{true, true, true, false, false}; found buffered=%s returns=%s — on would-block the bytes are neither sent nor queued but reported as accepted" % (
                        [tab[k][2] for k in ("would-block", "partial", "full")], [tab[k][3] for k in ("would-block", "partial", "full", "error", "closed")]))
        else:
            chk.ok("C13.e", f, "%s: (-1, error 0) retried, (-1, error) and 0 closed, partial results kept open%s" % (what, "; would-block and partial sends buffer the data" if what == "write" else ""),
                   "%s:%s" % (f.file, f.line), "decision table over 5 result classes (guard-directed walk)", evals=5)
    # ------------------------------------------------------------------ C13.f
    pst = [s for s in q.stores(w) if q.no_casts(w.r(s.lhs)) == "*postponed"]
    for s in pst:
        rhs_ = s.rhs
        rn_ = w.nodes[w.strip(rhs_)]
        if rn_["k"] == "DeclRefExpr" and rn_["ref"].get("dk") == "local":
            rd_ = q.reaching_def(w, rn_["ref"]["id"], s.node)      # the value handed to a helper that stores it (`report(postponed, 0)`)
            if rd_ is not None:
                rhs_ = rd_
        s = type(s)(*[rhs_ if fld_ == "rhs" else getattr(s, fld_) for fld_ in s._fields]) if hasattr(s, "_fields") else s
        t = q.no_casts(w.r(s.rhs))
        after_app = w.find_path(w.entry_pos(), {w.node_pos(s.node)}, avoid=q.pos_of(w, apps_all), after_src=False) is None
        # with the buffer known empty before `append(data, size)` the backlog size IS `size`
        at_ = fin.dominating_atoms(w, w.node_pos(s.node)) if w.node_pos(s.node) is not None else []
        fresh_whole = after_app and t == w.params[1]["n"] and \
            any(x[0] != "case" and x[1] and fin.key(w, x[0]) == "this->_sendBuffer.isEmpty()" for x in at_) and \
            all([q.no_casts(w.r(x)) for x in q.call_args(w, a)] == [w.params[0]["n"], w.params[1]["n"]]
                for a in apps_all if w.node_pos(a) is not None and q.reaches(w, a, s.node))
        if (after_app and (t == "this->_sendBuffer.size()" or fresh_whole)) or (not after_app and fin.eval_expr(w, s.rhs, {}) == 0):
            chk.ok("C13.f", w, "*postponed = %s" % t, w.where(s.node), "buffered path" if after_app else "nothing buffered", evals=2)
        else:
            chk.bad("C13.f", w, "postponed-value", w.where(s.node), "*postponed must be the backlog size after buffering and 0 when nothing was buffered; this store writes `%s`" % t)
    g = [f for f in prog.functions.values() if f.name == "Server::Client::getSendBufferSize"]
    if g and any("_sendBuffer.size()" in g[0].r(i) for i, n in enumerate(g[0].nodes) if n["k"] == "ReturnStmt"):
        chk.ok("C13.f", g[0], "getSendBufferSize returns the backlog size", "%s:%s" % (g[0].file, g[0].line), "return _sendBuffer.size()", nontrivial=False)
    else:
        chk.bad("C13.f", "Server::Client::getSendBufferSize", "send-buffer-size", "", "getSendBufferSize() must return _sendBuffer.size()")
    # ------------------------------------------------------------------ C13.g
    ow = [c for c, root, t in callback_calls(run_) if "onWrite" in t]
    if len(ow) == 1:
        atoms = fin.dominating_atoms(run_, run_.node_pos(ow[0]))
        empty = any(a[0] != "case" and a[1] and fin.key(run_, a[0]) == OWN + "_sendBuffer.isEmpty()" for a in atoms)
        sets = [c for c in q.calls(run_) if q.no_casts(run_.r(c)).startswith("this->_sockets.set(%s, " % OBJ) or re.search(r"_sockets\.set\(%s, " % re.escape(OBJ), run_.r(c))]
        pre = any(run_.dominates_pos(run_.node_pos(s), run_.node_pos(ow[0])) and any(a[0] != "case" and a[1] and fin.key(run_, a[0]) == OWN + "_sendBuffer.isEmpty()" for a in fin.dominating_atoms(run_, run_.node_pos(s))) for s in sets)
        if empty and pre:
            chk.ok("C13.g", run_, "onWrite after the drain, on the empty edge, after the interest set was recomputed", run_.where(ow[0]), "dominance", evals=3)
        else:
            chk.bad("C13.g", run_, "onwrite-order", run_.where(ow[0]),
                    "onWrite() must be delivered only when the backlog is empty and after the client's interest set was recomputed; a write() made inside "
                    "onWrite otherwise gets its write-readiness registration overwritten (the new backlog is never flushed)")
    else:
        chk.bad("C13.g", run_, "onwrite-count", "%s:%s" % (run_.file, run_.line), "expected exactly one onWrite delivery site, found %d" % len(ow))
    bad = use_after_callback(run_)
    if bad:
        for call, use, nm in bad:
            if "onWrite" in run_.r(call) or nm in ("client", OBJ.lstrip("*")):
                chk.bad("C13.g", run_, "client-used-after-callback:" + run_.r(call).split("->")[-1].split("(")[0], run_.where(use),
                        "`%s` is used after `%s` returned: the callback may have removed the client (use after free), and what it registered is overwritten" % (nm, run_.r(call)[:40]))
    else:
        chk.ok("C13.g", run_, "no client is touched after one of its callbacks", "%s:%s" % (run_.file, run_.line), "%d callback sites" % len(callback_calls(run_)), evals=len(callback_calls(run_)))


def send_reports_accepted_bytes(prog, chk, rid):
    """Socket::send is the only witness of how many bytes the operating system took: whatever sequence of outcomes the primitive
    produces inside one call, a positive total must be returned (the caller buffers exactly the rest)."""
    chk.rule(rid, "FIN: Socket::send evaluated over outcome sequences of ::send (full; partial then would-block / error / partial; would-block; "
                  "error): it returns the number of bytes accepted so far whenever that number is positive, -1 only when nothing was accepted", floor=1)
    f = sfn(prog, "Socket::send")
    prims = [c for c in q.calls(f) if f.nodes[c].get("callee") == "send"]
    if not prims or len(f.params) < 2:
        raise AnalysisBroken("Socket::send: the ::send primitive or the size parameter was not found")
    size_n = f.params[1]["n"]
    SIZE = 100
    scen = [("one full send", [SIZE], 0, SIZE), ("a partial send", [40, -1], 11, 40), ("a partial send, then would-block", [40, -1, -1], 11, 40),
            ("a partial send, then an error", [40, -1, -1], 32, 40), ("two partial sends, then would-block", [40, 30, -1, -1], 11, 70),
            ("would-block at once", [-1, -1], 11, -1), ("an error at once", [-1, -1], 104, -1)]
    bad = None
    n_ev = 0
    for what, outs, err, want in scen:
        val = {size_n: SIZE, "*__errno_location()": err}
        seq = {fin.key(f, c): list(outs) for c in prims}
        seen, end, fv = fin.walk_vals(f, f.entry, val, seq=seq)
        n_ev += 1
        if isinstance(end, str):
            bad = (what, "the result depends on something else (%s)" % end)
            break
        got = fin.eval_expr(f, f.nodes[end]["c"][0], fv) if f.nodes[end]["c"] else None
        calls_made = sum(1 for e in seen if e in prims)
        taken = sum(x for x in outs[:calls_made] if x > 0)
        expect = taken if taken > 0 else -1
        if got != expect:
            bad = (what, "after %d call(s) of ::send that accepted %d byte(s) it returns %s, required %d" % (calls_made, taken, got, expect))
            break
    where = "%s:%s" % (f.file, f.line)
    if bad:
        chk.bad(rid, f, "accepted-bytes-not-reported", where,
                "Socket::send with %s: %s - the caller buffers the whole data again (or treats the connection as failed), the peer receives "
                "the accepted prefix twice" % bad, evals=n_ev)
    else:
        chk.ok(rid, f, "send returns what was accepted, -1 only when nothing was", where, "%d outcome sequences evaluated" % n_ev, evals=n_ev)


def client_write_table(prog, chk, rid):
    """ClientImpl::write as a decision table: for every outcome of the direct send, the bytes that end up in the backlog are exactly the
    bytes the operating system did not take - evaluated with the machine's integer conversions (a `-1` that reaches an unsigned
    comparison is a very large number)."""
    chk.rule(rid, "FIN: ClientImpl::write evaluated over (backlog empty?, outcome of the direct send, error code): it appends exactly the "
                  "unsent tail (data + k, size - k) for k bytes taken - k = 0 on would-block -, nothing when all was taken, the whole "
                  "argument behind an existing backlog, and reports failure on 0 / a real error", floor=1)
    f = sfn(prog, P + "ClientImpl::write")
    where = "%s:%s" % (f.file, f.line)
    sends = [c for c in q.calls(f) if f.nodes[c].get("callee") == "Socket::send"]
    apps = [c for c in q.calls(f) if (f.nodes[c].get("callee") or "").endswith("Buffer::append") and "_sendBuffer" in f.r(c)]
    if len(f.params) < 2 or not sends or not apps:
        raise AnalysisBroken("ClientImpl::write: direct send / backlog append not found")
    dn, sn = f.params[0]["n"], f.params[1]["n"]
    DATA, SIZE = 4096, 100
    scen = [("an empty backlog and a send that took everything", 1, SIZE, 0, (1, None)),
            ("an empty backlog and a send that took 40 of 100 bytes", 1, 40, 0, (1, (DATA + 40, 60))),
            ("an empty backlog and a send that would block", 1, -1, 0, (1, (DATA, SIZE))),
            ("an empty backlog and a send that failed", 1, -1, 104, (0, None)),
            ("an empty backlog and a send that found the connection closed", 1, 0, 0, (0, None)),
            ("a backlog that is not empty", 0, None, 0, (1, (DATA, SIZE)))]
    bad = None
    for what, empty, out, err, (want_ret, want_app) in scen:
        val = {dn: DATA, sn: SIZE, "this->_sendBuffer.isEmpty()": empty, "Socket::getLastError()": err, "this->_suspended": 0, "postponed": 0}
        if out is not None:
            for c in sends:
                val[fin.key(f, c)] = out
        seen, end, fv = fin.walk_vals(f, f.entry, val)
        if isinstance(end, str):
            bad = (what, "the outcome depends on something else (%s)" % end)
            break
        if out is None and any(c in seen for c in sends):
            bad = (what, "the direct send is attempted although older bytes are still waiting (they would be overtaken)")
            break
        ret = fin.eval_expr(f, f.nodes[end]["c"][0], fv) if f.nodes[end]["c"] else None
        done = [c for c in apps if c in seen]
        got_app = None
        if done:
            a_ = q.call_args(f, done[-1])
            got_app = (fin.eval_expr(f, a_[0], fv), fin.eval_expr(f, a_[1], fv)) if len(a_) == 2 else ("?", "?")
        if len(done) > 1:
            bad = (what, "the argument is appended to the backlog %d times" % len(done))
            break
        if bool(ret) != bool(want_ret) or got_app != want_app:
            def show(a):
                return "nothing" if a is None else "(data + %s, %s bytes)" % (a[0] - DATA if isinstance(a[0], int) else a[0], a[1])
            bad = (what, "it returns %s and queues %s; required: %s and %s" % (bool(ret), show(got_app), bool(want_ret), show(want_app)))
            break
    if bad:
        chk.bad(rid, f, "write-outcome-table", where,
                "ClientImpl::write with %s: %s - bytes the peer never receives (or receives twice) although write() reported success" % bad, evals=len(scen))
    else:
        chk.ok(rid, f, "write queues exactly the unsent tail for %d outcomes of the direct send" % len(scen), where, "evaluation of the function body per outcome", evals=len(scen))


def backlog_creation_registers_write(prog, chk, rid):
    """a backlog is flushed by the write-ready arm of run(), which only sees clients registered for write events: where write() creates
    the backlog (appends while the buffer was empty) it has to register the client before it returns - later write() calls only append
    to the existing backlog and rely on that registration."""
    chk.rule(rid, "MPT: in ClientImpl::write every path from an append to `_sendBuffer` evaluated under `_sendBuffer.isEmpty()` (the backlog "
                  "is created) to a return passes `_p._sockets.set(*this, ...)` (whose flag value C13.d decides)", floor=1)
    w = sfn(prog, P + "ClientImpl::write")
    apps = [i for i, e in buffer_events(w, r"this->") if e in ("append", "assign", "prepend")]
    sets = [c for c in q.calls(w) if (w.nodes[c].get("callee") or "").endswith("Poll::set") and "_sockets" in q.no_casts(w.r(c))]
    n = 0
    for a in apps:
        atoms = fin.dominating_atoms(w, w.node_pos(a))
        was_empty = any(x[0] != "case" and x[1] and fin.key(w, x[0]) == "this->_sendBuffer.isEmpty()" for x in atoms)
        had_backlog = any(x[0] != "case" and not x[1] and fin.key(w, x[0]) == "this->_sendBuffer.isEmpty()" for x in atoms)
        if had_backlog:
            continue
        n += 1
        pth = w.find_path(w.node_pos(a), {w.exit_pos()}, avoid=q.pos_of(w, sets)) if w.node_pos(a) is not None else None
        if pth is None and sets:
            chk.ok(rid, w, "the append that creates the backlog is followed by the write registration on every path", w.where(a),
                   "no path to the exit avoids _p._sockets.set", evals=len(sets) + 1)
        else:
            chk.bad(rid, w, "backlog-without-write-registration", w.where(a),
                    "`%s` creates the backlog%s, but a path to the return does not register the client for write events: the write-ready arm of "
                    "run() never sees it, the accepted bytes stay in the buffer and onWrite is never called (later writes only append)" % (
                        q.no_casts(w.r(a))[:50], " (buffer known empty)" if was_empty else ""), evals=len(sets) + 1)
    if n == 0:
        raise AnalysisBroken("ClientImpl::write: no append that creates the backlog found")


def suspension_change_reregisters(prog, chk, rid):
    """the interest set of a client is (read iff not suspended) | (write iff backlog).  suspend()/resume() change the first half, so each
    has to register the client anew on every path after it has flipped `_suspended` - what was registered before (by write(), say)
    still contains the read interest of a non-suspended client."""
    chk.rule(rid, "MPT: in ClientImpl::suspend / resume every path from the store to `_suspended` to the return passes `_p._sockets.set(*this, ...)` "
                  "(whose flag value C13.d decides)", floor=2)
    for nm in ("suspend", "resume"):
        f = sfn(prog, P + "ClientImpl::" + nm)
        flips = [s_.node for s_ in q.stores(f) if q.no_casts(f.r(s_.lhs)) == "this->_suspended" and f.node_pos(s_.node) is not None]
        sets = [c for c in q.calls(f) if (f.nodes[c].get("callee") or "").endswith("Poll::set") and "_sockets" in q.no_casts(f.r(c))]
        if not flips:
            raise AnalysisBroken("ClientImpl::%s: no store to _suspended" % nm)
        bad = [x for x in flips if not sets or f.find_path(f.node_pos(x), {f.exit_pos()}, avoid=q.pos_of(f, sets)) is not None]
        if bad:
            chk.bad(rid, f, "suspension-change-without-registration:" + nm, f.where(bad[0]),
                    "%s() changes `_suspended` and a path returns without registering the client anew: the poll set keeps the interest set of the "
                    "old state%s" % (nm, " - a suspended client with a backlog still gets read events (and its backlog is starved behind them)" if nm == "suspend" else
                                     " - a resumed client is never told about input again"), evals=len(flips) + len(sets))
        else:
            chk.ok(rid, f, "%s() registers the client anew after changing `_suspended`" % nm, f.where(flips[0]), "no path from the store to the return avoids _p._sockets.set", evals=len(flips) + len(sets))
