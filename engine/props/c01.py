"""C01 — Map and MultiMap stay sorted, complete and logarithmically deep (structural part)."""
import itertools
import re
from .. import q, fin
from .. import containers as C
from ..facts import AnalysisBroken
from . import c14

EXPLANATION = (
    "Necessary conditions read from the instantiated code of Map.hpp / MultiMap.hpp: (a) forward scans over equal keys start from a "
    "lower-bound find; (b) walks along the threaded list compare with the end sentinel before reading a key; (c) every upward "
    "rebalancing loop recomputes height/slope, rebalances, moves to the parent and stops early only when the height is unchanged; the "
    "structural paths of insert/remove reach those loops; (d) list threading and _size on every path of insert/remove/clear; (e) the "
    "hinted insert chooses a cell only under an ordering of the key against its list neighbours for which that cell preserves the order "
    "(all consistent orderings enumerated); (f) the descent goes right on greater, left on less (MultiMap: right on not-less); (g, thorough) "
    "left/right mirror symmetry of rotations and of the two removal arms, and Map/MultiMap sibling agreement. Not decided: agreement with a "
    "reference sorted map over all histories, the height bound 2*floor(1.4405*log2(n+2)).")

TREE = ("Map", "MultiMap")


def rebal_loops(f):
    """[(rebal call, walked variable ref, loop blocks)]"""
    out = []
    for c in q.calls(f):
        n = f.nodes[c]
        if n.get("callee", "").endswith("::rebal") and n["k"] == "CXXMemberCallExpr":
            lb = C.loop_blocks(f, c)
            if lb is None:
                continue
            args = q.call_args(f, c)
            v = C.base_local(f, args[0]) if args else None
            if v is not None:
                out.append((c, v, lb))
    return out


def check_rebalance(chk, f, what):
    loops = rebal_loops(f)
    where = "%s:%s" % (f.file, f.line)
    if not loops:
        chk.bad("C01.c", f, "no-rebalance-loop", where, "%s contains no loop that walks up the tree calling rebal(): ancestors keep stale heights and the tree degenerates" % what)
        return
    seen = set()
    for c, v, lb in loops:
        key = frozenset(lb)
        vn = v["n"]
        # (1) update before rebal, result assigned back
        upd = [i for i in q.calls(f) if f.nodes[i].get("callee", "").endswith("::updateHeightAndSlope") and q.call_object(f, i) is not None and
               f.r(q.call_object(f, i)) == vn and (f.node_pos(i) or (None,))[0] in lb]
        p = f.up(c)
        assigned = p is not None and f.nodes[p]["k"] == "BinaryOperator" and f.nodes[p]["op"] == "=" and f.r(f.nodes[p]["c"][0]) == vn
        # the rotation root returned by rebal may also be kept in a local that stands for the walked node afterwards
        alias = {vn}
        defs0 = q.local_defs(f)
        pp = f.up(c)
        while pp is not None and f.nodes[pp]["k"] not in ("DeclStmt", "BinaryOperator", "CompoundStmt"):
            pp = f.up(pp)
        if pp is not None and f.nodes[pp]["k"] == "DeclStmt":
            alias.add(f.nodes[pp]["decls"][0]["n"])
            assigned = True
        ok1 = bool(upd) and any(q.reaches(f, u, c) and f.dominates_pos(f.node_pos(u), f.node_pos(c)) for u in upd) and assigned
        if not ok1:
            chk.bad("C01.c", f, "rebalance-step-shape", f.where(c),
                    "each step of the upward walk must call %s->updateHeightAndSlope() and then %s = rebal(%s): stale heights / a lost rotation root "
                    "break the AVL invariant" % (vn, vn, vn))
            continue
        if key in seen:
            continue
        seen.add(key)
        # (2) exits of the loop
        bad_exit = None
        for u in lb:
            blk = f.blocks[u]
            for s in blk["succ"]:
                if s is None or s in lb:
                    continue
                tk = blk.get("tk")
                if tk in ("DoStmt", "WhileStmt", "ForStmt"):
                    continue
                # facts known on this exit edge: what dominates the block plus the edge's own condition
                facts = [(fin.key(f, a[0]), a[1]) for a in fin.dominating_atoms(f, (u, 0)) if a[0] != "case"]
                if blk.get("cond") is not None and len(blk["succ"]) == 2 and tk != "SwitchStmt":
                    truth = blk["succ"][0] == s and blk["succ"][1] != s
                    facts += [(fin.key(f, a), t) for a, t in q.cond_atoms(f, blk["cond"], truth)]
                    # a disjunction/conjunction that is only partly decided on this edge contributes nothing: require a decided atom
                al = "|".join(re.escape(x) for x in alias)
                okb = any(t and (re.match(r"^\((\w+) == (%s)->height\)$" % al, k) or re.match(r"^\((%s)->height == (\w+)\)$" % al, k)) for k, t in facts)
                # the edge must not be reachable through another, undecided condition: the successor outside the loop has this block as its only loop predecessor
                others = [p for p in f.preds.get(s, []) if p in lb and p != u]
                if not okb or others:
                    bad_exit = (u, s)
        if bad_exit:
            els = [e for e in f.blocks[bad_exit[0]]["el"] if isinstance(e, int)]
            chk.bad("C01.c", f, "rebalance-loop-leaves-early", f.where(els[-1]) if els else where,
                    "the upward rebalancing walk can stop although the subtree height changed (the only early exit allowed is `oldHeight == %s->height` after "
                    "rebal): ancestors above keep stale heights/slopes and stay unbalanced" % vn)
        else:
            adv = [s for s in q.stores(f) if f.r(s.lhs) == vn and s.rhs is not None and q.no_casts(f.r(s.rhs)) in [x + "->parent" for x in alias] and (f.node_pos(s.node) or (None,))[0] in lb]
            if adv:
                chk.ok("C01.c", f, "%s: upward walk on `%s` (update, rebal, early exit only on unchanged height, move to parent)" % (what, vn), f.where(c), "loop-exit edges + dominating atoms", evals=len(lb))
            else:
                chk.bad("C01.c", f, "rebalance-loop-does-not-ascend", f.where(c), "the walk does not move to %s->parent" % vn)


def run(prog, chk):
    chk.extra["explanation"] = EXPLANATION
    chk.rule("C01.a", "MPT/DOM: forward scans over equal keys start from a lower-bound find", floor=2)
    chk.rule("C01.b", "DOM: a node reached through ->next is compared with the end sentinel before its key is read", floor=1)
    chk.rule("C01.c", "MPT: upward rebalancing loops (update, rebal, ascend; early exit only on unchanged height) on every structural path", floor=8)
    chk.rule("C01.f", "FIN: descent direction table (greater -> right, less -> left; MultiMap: not-less -> right)", floor=8)
    # ------------------------------------------------------------------ a (producer/consumer, shared with C14.T1)
    finds = [f for f in prog.functions.values() if f.gname == "MultiMap::find"]
    if not finds:
        raise AnalysisBroken("MultiMap::find not instantiated")
    for f in finds:
        lb, why = c14.find_is_lower_bound(f)
        if lb:
            chk.ok("C01.a", f, "MultiMap::find continues to the left on equal keys (lower bound)", "%s:%s" % (f.file, f.line), "no return inside the descent; equal key recorded then ->left", evals=3)
        else:
            cons = [g for g in prog.functions.values() if g.gname == "MultiMap::count"]
            chk.bad("C01.a", f, "find-not-lower-bound", "%s:%s" % (f.file, f.line),
                    "MultiMap::find %s, but count() (and Server's timer removal) scan forward from its result over equal keys: entries in front are missed" % why)
    # ------------------------------------------------------------------ b
    for cls in TREE + ("List", "HashMap", "HashSet", "PoolList", "PoolMap"):
        for tn, fs in sorted(C.class_insts(prog, cls).items()):
            for f in fs:
                if f.cls != tn:
                    continue
                defs = q.local_defs(f)
                for did, dl in defs.items():
                    nexts = [(kind, nd, init) for kind, nd, init in dl if init is not None and re.search(r"->next$", q.no_casts(f.r(init)))]
                    if not nexts or not any(C.loop_blocks(f, nd) for kind, nd, init in nexts if kind == "store") and not any(kind == "decl" for kind, _n, _i in nexts):
                        continue
                    name = None
                    for n in f.nodes:
                        if n["k"] == "DeclRefExpr" and n["ref"]["id"] == did:
                            name = n["ref"]["n"]
                    if name is None:
                        continue
                    # reads of payload through this variable inside a loop
                    for i, n in enumerate(f.nodes):
                        if n["k"] == "MemberExpr" and n["m"] in ("key", "value") and n["c"] and f.r(n["c"][0]) == name and C.loop_blocks(f, i):
                            atoms = fin.dominating_atoms(f, f.node_pos(i))
                            guard = any(a[0] != "case" and re.search(r"\b%s (!=|==) (&this->endItem|end)\b|\b(&this->endItem|end) (!=|==) %s\b" % (name, name), fin.key(f, a[0])) for a in atoms)
                            lock = f.short in ("operator==",)   # lock-step walk of two lists of equal _size (recognised idiom)
                            if guard or lock:
                                chk.ok("C01.b", f, "`%s->%s` read only after the sentinel comparison" % (name, n["m"]), f.where(i), "dominating atom", evals=len(atoms))
                            else:
                                chk.bad("C01.b", f, "sentinel-payload-read:" + name, f.where(i),
                                        "`%s->%s` is read in a walk along ->next that tests the pointer only against null: the last real node's next is the end "
                                        "sentinel, whose key/value are default-constructed (a key equal to that default is miscounted)" % (name, n["m"]))
    # ------------------------------------------------------------------ c
    for cls in TREE:
        for tn, fs in sorted(C.class_insts(prog, cls).items()):
            ins = [f for f in fs if f.short == "insert" and C.placement_news(f)]
            rem = [f for f in fs if f.short == "remove" and C.dtor_events(f)]
            if not ins or not rem:
                raise AnalysisBroken("%s: private insert / remove(Iterator) not found" % tn)
            for f in ins:
                check_rebalance(chk, f, "insert")
                # after linking a node below a parent the walk must run: every path from `*cell = item` to the exit that does not
                # go through the first-node branch passes a rebal call
                st = [s for s in q.stores(f) if q.no_casts(f.r(s.lhs)) == "*cell"]
                rb = [c for c, v, lb in rebal_loops(f)]
                first = [b for b in f.blocks.values() if b.get("cond") is not None and fin.key(f, b["cond"]) in ("!parent", "parent")]
                okp = bool(st) and bool(rb) and bool(first)
                for s in st:
                    avoid = q.pos_of(f, rb)
                    for b in first:
                        neg = fin.key(f, b["cond"]) == "!parent"
                        root_edge = b["succ"][0] if neg else b["succ"][1]
                        if root_edge is not None:
                            avoid = avoid | {(root_edge, 0)}
                    if f.find_path(f.node_pos(s.node), {f.exit_pos()}, avoid=avoid) is not None:
                        # a `while(node)` walk whose first test cannot fail (the node is the non-null parent): the only rebal-free way out
                        # would be to skip the loop at once.  Then: no rebal-free path that does not pass the head, and none from the body.
                        entered = None
                        for c_, v_, lb_ in rebal_loops(f):
                            for u_ in lb_:
                                bu = f.blocks[u_]
                                if bu.get("tk") in ("WhileStmt", "ForStmt") and bu.get("cond") is not None and q.loop_entered(f, u_, lb_):
                                    entered = (u_, bu["succ"][0])
                        if entered is not None and \
                           f.find_path(f.node_pos(s.node), {f.exit_pos()}, avoid=avoid | {(entered[0], 0)}) is None and \
                           f.find_path((entered[1], 0), {f.exit_pos()}, avoid=avoid, after_src=False) is None:
                            continue
                        okp = False
                if okp:
                    chk.ok("C01.c", f, "every non-root insertion path runs the rebalancing walk", "%s:%s" % (f.file, f.line), "MPT from `*cell = item`", evals=2)
                else:
                    chk.bad("C01.c", f, "insert-path-without-rebalance", "%s:%s" % (f.file, f.line), "a path links a new node below a parent and returns without walking up through rebal()")
            for f in rem:
                check_rebalance(chk, f, "remove")
                # every path entry -> exit passes the head of the final upward loop
                loops = rebal_loops(f)
                heads = set()
                for c, v, lb in loops:
                    for u in lb:
                        if f.blocks[u].get("tk") == "WhileStmt":
                            heads.add((u, 0))
                links = [s for s in q.stores(f) if re.search(r"^\*cell$|->left$|->right$", q.no_casts(f.r(s.lhs)))]
                if heads and f.find_path(f.entry_pos(), {f.exit_pos()}, avoid=heads, after_src=False) is None and len(links) >= 9:
                    chk.ok("C01.c", f, "all %d tree-link writes of remove() flow into the upward rebalancing loop" % len(links), "%s:%s" % (f.file, f.line), "MPT through the while(parent) head", evals=len(links))
                else:
                    chk.bad("C01.c", f, "remove-path-without-rebalance", "%s:%s" % (f.file, f.line), "a path through remove() bypasses the upward rebalancing loop (or the structural writes vanished: %d link writes found)" % len(links))
    # ------------------------------------------------------------------ f
    for cls in TREE:
        for tn, fs in sorted(C.class_insts(prog, cls).items()):
            if not tn.startswith(cls + "<int"):
                continue   # scalar key: comparisons are built-in operators, evaluable
            for f in [f for f in fs if (f.short == "find" and f.cls == tn) or (f.short == "insert" and C.placement_news(f))]:
                cases_ = []
                for s in q.stores(f):
                    if s.rhs is None:
                        continue
                    rn_ = f.nodes[f.strip(s.rhs)]
                    if rn_["k"] == "ConditionalOperator" and len(rn_["c"]) == 3:
                        # `cell = key < node->key ? &node->left : &node->right`: each arm under its side of the condition
                        ck_ = fin.key(f, rn_["c"][0])
                        cases_.append((s, rn_["c"][1], [(ck_, True)]))
                        cases_.append((s, rn_["c"][2], [(ck_, False)]))
                    else:
                        cases_.append((s, s.rhs, []))
                for s, rhs_, extra_ in cases_:
                    t = q.no_casts(f.r(rhs_))
                    m = re.match(r"^&?(\w+)->(left|right)$", t)
                    if not m or q.no_casts(f.r(s.lhs)) not in ("item", "cell"):
                        continue
                    node, side = m.group(1), m.group(2)
                    atoms = fin.dominating_atoms(f, f.node_pos(s.node))
                    facts = [(fin.key(f, a[0]), a[1]) for a in atoms if a[0] != "case"] + extra_
                    gt = ("(key > %s->key)" % node)
                    lt = ("(key < %s->key)" % node)
                    if side == "right":
                        ok = (gt, True) in facts or (cls == "MultiMap" and (lt, False) in facts)
                    else:
                        ok = (lt, True) in facts or (cls == "MultiMap" and f.short == "find" and (gt, False) in facts)
                    if ok:
                        chk.ok("C01.f", f, "%s: descent to %s->%s under the matching comparison" % (f.short, node, side), f.where(s.node), str([x for x in facts if "key" in x[0]])[:80], evals=len(atoms))
                    else:
                        chk.bad("C01.f", f, "descent-direction:" + side, f.where(s.node),
                                "the descent moves to `%s->%s` under %s; keys greater than a node belong to its right subtree, smaller ones to its left "
                                "(in-order iteration and find() stop agreeing)" % (node, side, [x for x in facts if "key" in x[0]]))
    C.wrappers(prog, chk, "C01.w", TREE)
    subtree_start(prog, chk)
    double_rotation_table(prog, chk)
    C.parent_pairing(prog, chk, "C01.h", TREE)
    from .. import containers
    containers.link_idiom(prog, chk, "C01.d1", TREE)
    containers.unlink_idiom(prog, chk, "C01.d2", TREE)
    containers.clear_resets(prog, chk, "C01.d3", TREE)
    containers.iterator_param_alias(prog, chk, "C01.d4", TREE)
    from . import c01_hint
    c01_hint.run(prog, chk)


def subtree_start(prog, chk):
    """C01.i — who may start the cell-based descent below the root"""
    chk.rule("C01.i", "WHO/DOM: the private cell-based insert(cell, parent, key, value) is started at `&root, 0`; a start at "
                      "`&N->left, N` / `&N->right, N` is accepted only in the hinted insert, whose every ordering C01.e enumerates, "
                      "or when comparisons against N and its list neighbour dominate the call (key range of the cell established)", floor=6)
    for cls in TREE:
        for tn, fs in sorted(C.class_insts(prog, cls).items()):
            multi = cls == "MultiMap"
            for f in [f for f in fs if f.cls == tn]:
                defs = q.local_defs(f)
                for c in q.calls(f):
                    n = f.nodes[c]
                    g = prog.functions.get(n.get("csig"))
                    if g is None or g.short != "insert" or len(g.params) != 4 or not g.params[0]["t"].endswith("Item **"):
                        continue
                    args = q.call_args(f, c)
                    cell = q.no_casts(q.xr(f, args[0], defs))
                    par = q.no_casts(q.xr(f, args[1], defs))
                    key = q.no_casts(f.r(args[2]))
                    hinted = f.short == "insert" and len(f.params) == 3 and f.params[0]["t"].endswith("Iterator &")
                    if hinted and cell != "&this->root":
                        chk.ok("C01.i", f, "subtree start in the hinted insert", f.where(c), "decided by C01.e (exhaustive ordering enumeration)", nontrivial=False)
                        continue
                    if cell == "&this->root":
                        if q.is_zero(f, args[1]):
                            chk.ok("C01.i", f, "descent from the root", f.where(c), "insert(&root, 0, ...)", nontrivial=False)
                        else:
                            chk.bad("C01.i", f, "root-start-with-parent", f.where(c), "a descent from `&root` must pass a null parent, got `%s`" % par)
                        continue
                    m = re.match(r"^&(.+)->(left|right)$", cell)
                    if not m or m.group(1) != par:
                        chk.bad("C01.i", f, "cell-parent-mismatch", f.where(c),
                                "the descent starts at `%s` with parent `%s`: the cell must be a child link of that parent" % (cell, par))
                        continue
                    if f.short == "insert" and len(f.params) == 3 and f.params[0]["t"].endswith("Iterator &"):
                        chk.ok("C01.i", f, "subtree start in the hinted insert", f.where(c), "decided by C01.e (exhaustive ordering enumeration)", nontrivial=False)
                        continue
                    N, side = m.group(1), m.group(2)
                    facts = set()
                    for a in fin.dominating_atoms(f, f.node_pos(c)):
                        if a[0] != "case":
                            facts.add((q.no_casts(q.xr(f, a[0], defs)), a[1]))
                    def has(*alts):
                        return any(x in facts for x in alts)
                    nk = "%s->key" % N
                    if side == "right":
                        near = has(("(%s > %s)" % (key, nk), True), ("(%s < %s)" % (nk, key), True)) or \
                            (multi and has(("(%s < %s)" % (key, nk), False), ("(%s >= %s)" % (key, nk), True)))
                        nb = "%s->next" % N
                        far = has(("(%s == &this->endItem)" % nb, True), ("(%s < %s->key)" % (key, nb), True), ("(%s->key > %s)" % (nb, key), True))
                    else:
                        near = has(("(%s < %s)" % (key, nk), True), ("(%s > %s)" % (nk, key), True))
                        nb = "%s->prev" % N
                        far = has(("%s" % nb, False), ("(!%s)" % nb, True), ("(%s > %s->key)" % (key, nb), True), ("(%s->key < %s)" % (nb, key), True))
                    if near and far:
                        chk.ok("C01.i", f, "subtree start under established key range", f.where(c), "dominating comparisons against %s and %s" % (N, nb), evals=len(facts))
                    else:
                        chk.bad("C01.i", f, "subtree-start-without-key-range:" + side, f.where(c),
                                "the descent for `%s` starts at `%s` without dominating comparisons that place the key between `%s` and its list %s "
                                "(%s; %s): a key that belongs elsewhere in the tree is hung below `%s`, so iteration is no longer ascending and find() misses entries"
                                % (key, cell, N, "successor" if side == "right" else "predecessor",
                                   "comparison with %s: %s" % (nk, "found" if near else "missing"),
                                   "comparison with %s: %s" % (nb, "found" if far else "missing"), N), evals=max(1, len(facts)))


def run_thorough(prog, chk):
    from . import c01_sib
    c01_sib.run(prog, chk)


def double_rotation_table(prog, chk):
    """C01.j — FIN: shiftl/shiftr perform the inner (double) rotation exactly when the pivot child leans towards the inside.
    Slots read from the code: sign of `slope` (updateHeightAndSlope: slope = leftHeight - rightHeight), the pivot child (the child whose
    slope the shift tests), inner/outer rotation callees."""
    chk.rule("C01.j", "FIN: for pivot-child slope in {-1, 0, +1} the shift helpers rotate the child first exactly when it leans towards the inside "
                      "(double rotation), then rotate the top the other way; a balanced child takes the single rotation", floor=4)
    for cls in TREE:
        for tn, fs in sorted(C.class_insts(prog, cls).items()):
            if not tn.startswith(cls + "<int"):
                continue
            upd = [f for f in prog.functions.values() if f.short == "updateHeightAndSlope" and (f.cls or "").startswith(tn)]
            sign = None
            for f in upd:
                for s in q.stores(f):
                    if q.no_casts(f.r(s.lhs)).endswith("slope") and s.rhs is not None:
                        t = q.no_casts(q.xr(f, s.rhs, q.local_defs(f))).replace(" ", "")
                        if re.search(r"left.*-.*right", t):
                            sign = 1
                        elif re.search(r"right.*-.*left", t):
                            sign = -1
            if sign is None:
                raise AnalysisBroken("%s: sign convention of `slope` not found in updateHeightAndSlope" % tn)
            for f in [f for f in fs if f.short in ("shiftl", "shiftr") and f.cls == tn]:
                where = "%s:%s" % (f.file, f.line)
                conds = [b for b in f.blocks.values() if b.get("cond") is not None and len(b["succ"]) == 2]
                m = None
                for b in conds:
                    for i in f.desc(b["cond"]):
                        n = f.nodes[i]
                        if n["k"] == "MemberExpr" and n.get("m") == "slope":
                            mm = re.search(r"->(left|right)->slope$", q.no_casts(f.r(i)))
                            if mm:
                                m = (b, i, mm.group(1))
                if m is None or len(conds) != 1:
                    chk.bad("C01.j", f, "shift-shape", where, "%s must test the slope of exactly one child of the top node" % f.short)
                    continue
                b, slope_node, side = m
                inner_want = "rotl" if side == "left" else "rotr"
                outer_want = "rotr" if side == "left" else "rotl"
                bad = None
                for v in (-1, 0, 1):
                    seen, end = fin.walk(f, f.entry, {fin.key(f, slope_node): v}, stop_at_loop_back=False)
                    rots = [f.nodes[e]["callee"].split("::")[-1] for e in seen if f.nodes[e]["k"] == "CallExpr" and re.search(r"::rot[lr]$", f.nodes[e].get("callee", ""))]
                    # the child leans towards the inside when its slope points away from its own side
                    inside = (sign * v < 0) if side == "left" else (sign * v > 0)
                    want = ([inner_want] if inside else []) + [outer_want]
                    if isinstance(end, str) and end.startswith("undetermined"):
                        bad = (v, "the branch is not decided by the child's slope (%s)" % end)
                        break
                    if rots != want:
                        bad = (v, "performs %s, required %s" % (" then ".join(rots) or "no rotation", " then ".join(want)))
                        break
                if bad:
                    chk.bad("C01.j", f, "double-rotation-decision:%+d" % bad[0], where,
                            "%s with %s child slope %+d %s: a wrong choice leaves a node with |slope| = 2 that the upward loop never repairs, the "
                            "tree degrades beyond the AVL height bound" % (f.short, side, bad[0], bad[1]), evals=3)
                else:
                    chk.ok("C01.j", f, "%s: child slope -1/0/+1 -> rotation sequence as required" % f.short, where, "guard evaluation under 3 valuations", evals=3)
