"""C01 — Map and MultiMap stay sorted, complete and logarithmically deep (structural part)."""
import itertools
import re
from .. import q, fin
from .. import containers as C
from ..facts import AnalysisBroken
from . import c14

EXPLANATION = (
    "Necessary conditions read from the instantiated code of Map.hpp / MultiMap.hpp: (a) forward scans over equal keys start from a "
    "lower-bound find; (b) walks along the threaded list compare with the end sentinel before reading a key; (c) every upward "
    "rebalancing loop recomputes height/slope, rebalances, moves to the parent and stops early only when the height is unchanged; the "
    "structural paths of insert/remove reach those loops; (d) list threading and _size on every path of insert/remove/clear; (e) the "
    "hinted insert chooses a cell only under an ordering of the key against its list neighbours for which that cell preserves the order "
    "(all consistent orderings enumerated); (f) the descent goes right on greater, left on less (MultiMap: right on not-less); (g, thorough) "
    "left/right mirror symmetry of rotations and of the two removal arms, and Map/MultiMap sibling agreement. Not decided: agreement with a "
    "reference sorted map over all histories, the height bound 2*floor(1.4405*log2(n+2)).")

TREE = ("Map", "MultiMap")


def rebal_loops(f):
    """[(rebal call, walked variable ref, loop blocks)]"""
    out = []
    for c in q.calls(f):
        n = f.nodes[c]
        if n.get("callee", "").endswith("::rebal") and n["k"] == "CXXMemberCallExpr":
            lb = C.loop_blocks(f, c)
            if lb is None:
                continue
            args = q.call_args(f, c)
            v = C.base_local(f, args[0]) if args else None
            if v is not None:
                out.append((c, v, lb))
    return out


def check_rebalance(chk, f, what):
    loops = rebal_loops(f)
    where = "%s:%s" % (f.file, f.line)
    if not loops:
        chk.bad("C01.c", f, "no-rebalance-loop", where, "%s contains no loop that walks up the tree calling rebal(): ancestors keep stale heights and the tree degenerates" % what)
        return
    seen = set()
    for c, v, lb in loops:
        key = frozenset(lb)
        vn = v["n"]
        # (1) update before rebal, result assigned back
        upd = [i for i in q.calls(f) if f.nodes[i].get("callee", "").endswith("::updateHeightAndSlope") and q.call_object(f, i) is not None and
               f.r(q.call_object(f, i)) == vn and (f.node_pos(i) or (None,))[0] in lb]
        p = f.up(c)
        assigned = p is not None and f.nodes[p]["k"] == "BinaryOperator" and f.nodes[p]["op"] == "=" and f.r(f.nodes[p]["c"][0]) == vn
        # the rotation root returned by rebal may also be kept in a local that stands for the walked node afterwards
        alias = {vn}
        defs0 = q.local_defs(f)
        pp = f.up(c)
        while pp is not None and f.nodes[pp]["k"] not in ("DeclStmt", "BinaryOperator", "CompoundStmt"):
            pp = f.up(pp)
        if pp is not None and f.nodes[pp]["k"] == "DeclStmt":
            alias.add(f.nodes[pp]["decls"][0]["n"])
            assigned = True
        ok1 = bool(upd) and any(q.reaches(f, u, c) and f.dominates_pos(f.node_pos(u), f.node_pos(c)) for u in upd) and assigned
        if not ok1:
            chk.bad("C01.c", f, "rebalance-step-shape", f.where(c),
                    "each step of the upward walk must call %s->updateHeightAndSlope() and then %s = rebal(%s): stale heights / a lost rotation root "
                    "break the AVL invariant" % (vn, vn, vn))
            continue
        if key in seen:
            continue
        seen.add(key)
        # (2) exits of the loop
        bad_exit = None
        for u in lb:
            blk = f.blocks[u]
            for s in blk["succ"]:
                if s is None or s in lb:
                    continue
                tk = blk.get("tk")
                if tk in ("DoStmt", "WhileStmt", "ForStmt"):
                    continue
                # facts known on this exit edge: what dominates the block plus the edge's own condition
                facts = [(fin.key(f, a[0]), a[1]) for a in fin.dominating_atoms(f, (u, 0)) if a[0] != "case"]
                if blk.get("cond") is not None and len(blk["succ"]) == 2 and tk != "SwitchStmt":
                    truth = blk["succ"][0] == s and blk["succ"][1] != s
                    facts += [(fin.key(f, a), t) for a, t in q.cond_atoms(f, blk["cond"], truth)]
                    # a disjunction/conjunction that is only partly decided on this edge contributes nothing: require a decided atom
                al = "|".join(re.escape(x) for x in alias)
                okb = any(t and (re.match(r"^\((\w+) == (%s)->height\)$" % al, k) or re.match(r"^\((%s)->height == (\w+)\)$" % al, k)) for k, t in facts)
                if not okb:
                    # the same test spelled the other way round (`oldHeight != parent->height` known false), and the walk's own bound
                    # established by a dominating test when the exit is a plain `break` block (`if(parent == origParent) break;`)
                    own_ = []
                    if blk.get("cond") is not None and len(blk["succ"]) == 2 and tk != "SwitchStmt":
                        own_ = [(n_, t_) for n_, t_ in q.cond_atoms(f, blk["cond"], blk["succ"][0] == s and blk["succ"][1] != s)]
                    for a_ in list(fin.dominating_atoms(f, (u, 0))) + own_:
                        if a_[0] == "case":
                            continue
                        cn_ = fin._canon(f, a_[0], a_[1])
                        if cn_[0] == "val":
                            continue
                        if cn_[1] == "==" and any(re.fullmatch(r"(%s)->height" % al, x_) for x_ in (cn_[0], cn_[2])) and \
                           any(re.fullmatch(r"\w+", x_) for x_ in (cn_[0], cn_[2])):
                            okb = True
                        elif cn_[1] == "==" and (cn_[0] in alias or cn_[2] in alias) and (f.node_pos(f.strip(a_[0])) or (None,))[0] in lb:
                            oth_ = cn_[2] if cn_[0] in alias else cn_[0]
                            stored_ = any(f.r(st_.lhs) == oth_ and (f.node_pos(st_.node) or (None,))[0] in lb for st_ in q.stores(f))
                            if re.match(r"^\w+$", oth_) and not stored_:
                                okb = True
                if not okb and blk.get("cond") is not None and len(blk["succ"]) == 2 and tk != "SwitchStmt":
                    # the height test kept in a bool local defined inside the walk (`const bool heightKept = oldHeight == parent->height;`)
                    defs_c = q.local_defs(f)
                    for an_, tr_ in q.cond_atoms(f, blk["cond"], blk["succ"][0] == s and blk["succ"][1] != s):
                        xn_ = f.nodes[f.strip(an_)]
                        if tr_ and xn_["k"] == "DeclRefExpr" and xn_["ref"].get("dk") == "local":
                            ini_ = q.single_def(f, xn_["ref"]["id"], defs_c)
                            if ini_ is not None and (f.node_pos(f.strip(ini_)) or (None,))[0] in lb:
                                ki_ = fin.key(f, ini_)
                                if re.match(r"^\((\w+) == (%s)->height\)$" % al, ki_) or re.match(r"^\((%s)->height == (\w+)\)$" % al, ki_):
                                    okb = True
                if not okb and blk.get("cond") is not None and len(blk["succ"]) == 2:
                    # the walk's own bound, spelled as a statement inside the body instead of as the loop condition: the walked node has
                    # run out (null) or has reached a local / parameter that the loop does not change (`if(parent == origParent) break;`)
                    truth_ = blk["succ"][0] == s and blk["succ"][1] != s
                    for an_, tr_ in q.cond_atoms(f, blk["cond"], truth_):
                        cn_ = fin._canon(f, an_, tr_)
                        if cn_[0] == "val" and cn_[1] in alias and not cn_[2]:
                            okb = True
                        elif cn_[0] != "val" and cn_[1] == "==" and (cn_[0] in alias or cn_[2] in alias):
                            oth_ = cn_[2] if cn_[0] in alias else cn_[0]
                            stored_ = any(f.r(st_.lhs) == oth_ and (f.node_pos(st_.node) or (None,))[0] in lb for st_ in q.stores(f))
                            if re.match(r"^\w+$", oth_) and not stored_:
                                okb = True
                # the edge must not be reachable through another, undecided condition: the successor outside the loop has this block as its only loop predecessor
                # (every other edge into the successor from inside the loop is an exit edge of its own and judged separately)
                if not okb:
                    bad_exit = (u, s)
        if bad_exit:
            els = [e for e in f.blocks[bad_exit[0]]["el"] if isinstance(e, int)]
            chk.bad("C01.c", f, "rebalance-loop-leaves-early", f.where(els[-1]) if els else where,
                    "the upward rebalancing walk can stop although the subtree height changed (the only early exit allowed is `oldHeight == %s->height` after "
                    "rebal): ancestors above keep stale heights/slopes and stay unbalanced" % vn)
        else:
            adv = [s for s in q.stores(f) if f.r(s.lhs) == vn and s.rhs is not None and q.no_casts(f.r(s.rhs)) in [x + "->parent" for x in alias] and (f.node_pos(s.node) or (None,))[0] in lb]
            if adv:
                chk.ok("C01.c", f, "%s: upward walk on `%s` (update, rebal, early exit only on unchanged height, move to parent)" % (what, vn), f.where(c), "loop-exit edges + dominating atoms", evals=len(lb))
            else:
                chk.bad("C01.c", f, "rebalance-loop-does-not-ascend", f.where(c), "the walk does not move to %s->parent" % vn)


def run(prog, chk):
    chk.extra["explanation"] = EXPLANATION
    chk.rule("C01.a", "MPT/DOM: forward scans over equal keys start from a lower-bound find", floor=2)
    chk.rule("C01.b", "DOM: a node reached through ->next is compared with the end sentinel before its key is read", floor=1)
    chk.rule("C01.c", "MPT: upward rebalancing loops (update, rebal, ascend; early exit only on unchanged height) on every structural path", floor=8)
    chk.rule("C01.f", "FIN: descent direction table (greater -> right, less -> left; MultiMap: not-less -> right)", floor=8)
    # ------------------------------------------------------------------ a (producer/consumer, shared with C14.T1)
    finds = [f for f in prog.functions.values() if f.gname == "MultiMap::find"]
    if not finds:
        raise AnalysisBroken("MultiMap::find not instantiated")
    for f in finds:
        lb, why = c14.find_is_lower_bound(f)
        if lb:
            chk.ok("C01.a", f, "MultiMap::find continues to the left on equal keys (lower bound)", "%s:%s" % (f.file, f.line), "no return inside the descent; equal key recorded then ->left", evals=3)
        else:
            cons = [g for g in prog.functions.values() if g.gname == "MultiMap::count"]
            chk.bad("C01.a", f, "find-not-lower-bound", "%s:%s" % (f.file, f.line),
                    "MultiMap::find %s, but count() (and Server's timer removal) scan forward from its result over equal keys: entries in front are missed" % why)
    # ------------------------------------------------------------------ b
    for cls in TREE + ("List", "HashMap", "HashSet", "PoolList", "PoolMap"):
        for tn, fs in sorted(C.class_insts(prog, cls).items()):
            for f in fs:
                if f.cls != tn:
                    continue
                defs = q.local_defs(f)
                for did, dl in defs.items():
                    nexts = [(kind, nd, init) for kind, nd, init in dl if init is not None and re.search(r"->next$", q.no_casts(f.r(init)))]
                    if not nexts or not any(C.loop_blocks(f, nd) for kind, nd, init in nexts if kind == "store") and not any(kind == "decl" for kind, _n, _i in nexts):
                        continue
                    name = None
                    for n in f.nodes:
                        if n["k"] == "DeclRefExpr" and n["ref"]["id"] == did:
                            name = n["ref"]["n"]
                    if name is None:
                        continue
                    # reads of payload through this variable inside a loop
                    for i, n in enumerate(f.nodes):
                        if n["k"] == "MemberExpr" and n["m"] in ("key", "value") and n["c"] and f.r(n["c"][0]) == name and C.loop_blocks(f, i):
                            atoms = fin.dominating_atoms(f, f.node_pos(i))
                            guard = any(a[0] != "case" and re.search(r"\b%s (!=|==) (&this->endItem|end)\b|\b(&this->endItem|end) (!=|==) %s\b" % (name, name), fin.key(f, a[0])) for a in atoms)
                            if not guard:
                                # the sentinel may be named by any local (or written out): compare by what the other side designates
                                for a in atoms:
                                    if a[0] == "case":
                                        continue
                                    an = f.nodes[f.strip(a[0])]
                                    sides = an["c"][-2:] if an["k"] in ("BinaryOperator", "CXXOperatorCallExpr") and (an.get("op") or an.get("oop")) in ("==", "!=") else []
                                    if len(sides) == 2 and name in [q.no_casts(f.r(x)) for x in sides]:
                                        oth = [x for x in sides if q.no_casts(f.r(x)) != name]
                                        # `_end` is the iterator every constructor seats on `&endItem` and nothing re-seats: `X._end.item` is the sentinel
                                        if oth and re.search(r"&(this->|\w+\.)endItem\)*$|(this->|\w+\.)_end(\.item)?\)*$", q.no_casts(q.xr(f, oth[0], defs))):
                                            guard = True
                            lock = f.short in ("operator==",)   # lock-step walk of two lists of equal _size (recognised idiom)
                            if guard or lock:
                                chk.ok("C01.b", f, "`%s->%s` read only after the sentinel comparison" % (name, n["m"]), f.where(i), "dominating atom", evals=len(atoms))
                            else:
                                chk.bad("C01.b", f, "sentinel-payload-read:" + name, f.where(i),
                                        "`%s->%s` is read in a walk along ->next that tests the pointer only against null: the last real node's next is the end "
                                        "sentinel, whose key/value are default-constructed (a key equal to that default is miscounted)" % (name, n["m"]))
    # ------------------------------------------------------------------ c
    for cls in TREE:
        for tn, fs in sorted(C.class_insts(prog, cls).items()):
            ins = [f for f in fs if f.short == "insert" and C.placement_news(f)]
            rem = [f for f in fs if f.short == "remove" and C.dtor_events(f)]
            if not ins or not rem:
                raise AnalysisBroken("%s: private insert / remove(Iterator) not found" % tn)
            for f in ins:
                check_rebalance(chk, f, "insert")
                # after linking a node below a parent the walk must run: every path from `*cell = item` to the exit that does not
                # go through the first-node branch passes a rebal call
                st = [s for s in q.stores(f) if q.no_casts(f.r(s.lhs)) == "*cell"]
                rb = [c for c, v, lb in rebal_loops(f)]
                first = [b for b in f.blocks.values() if b.get("cond") is not None and fin.key(f, b["cond"]) in ("!parent", "parent")]
                okp = bool(st) and bool(rb) and bool(first)
                for s in st:
                    avoid = q.pos_of(f, rb)
                    for b in first:
                        neg = fin.key(f, b["cond"]) == "!parent"
                        root_edge = b["succ"][0] if neg else b["succ"][1]
                        if root_edge is not None:
                            avoid = avoid | {(root_edge, 0)}
                    if f.find_path(f.node_pos(s.node), {f.exit_pos()}, avoid=avoid) is not None:
                        # a `while(node)` walk whose first test cannot fail (the node is the non-null parent): the only rebal-free way out
                        # would be to skip the loop at once.  Then: no rebal-free path that does not pass the head, and none from the body.
                        entered = None
                        for c_, v_, lb_ in rebal_loops(f):
                            for u_ in lb_:
                                bu = f.blocks[u_]
                                if bu.get("tk") in ("WhileStmt", "ForStmt") and bu.get("cond") is not None and q.loop_entered(f, u_, lb_):
                                    entered = (u_, bu["succ"][0])
                        if entered is not None and \
                           f.find_path(f.node_pos(s.node), {f.exit_pos()}, avoid=avoid | {(entered[0], 0)}) is None and \
                           f.find_path((entered[1], 0), {f.exit_pos()}, avoid=avoid, after_src=False) is None:
                            continue
                        okp = False
                if okp:
                    chk.ok("C01.c", f, "every non-root insertion path runs the rebalancing walk", "%s:%s" % (f.file, f.line), "MPT from `*cell = item`", evals=2)
                else:
                    chk.bad("C01.c", f, "insert-path-without-rebalance", "%s:%s" % (f.file, f.line), "a path links a new node below a parent and returns without walking up through rebal()")
            for f in rem:
                check_rebalance(chk, f, "remove")
                # every path entry -> exit passes the head of the final upward loop
                loops = rebal_loops(f)
                heads = set()
                for c, v, lb in loops:
                    for u in lb:
                        if f.blocks[u].get("tk") in ("WhileStmt", "ForStmt") and f.blocks[u].get("cond") is not None:
                            heads.add((u, 0))
                links = [s for s in q.stores(f) if re.search(r"^\*cell$|->left$|->right$", q.no_casts(f.r(s.lhs)))]
                if heads and f.find_path(f.entry_pos(), {f.exit_pos()}, avoid=heads, after_src=False) is None and len(links) >= 9:
                    chk.ok("C01.c", f, "all %d tree-link writes of remove() flow into the upward rebalancing loop" % len(links), "%s:%s" % (f.file, f.line), "MPT through the while(parent) head", evals=len(links))
                else:
                    chk.bad("C01.c", f, "remove-path-without-rebalance", "%s:%s" % (f.file, f.line), "a path through remove() bypasses the upward rebalancing loop (or the structural writes vanished: %d link writes found)" % len(links))
                transplant_refresh(chk, f, loops)
    # ------------------------------------------------------------------ f
    for cls in TREE:
        for tn, fs in sorted(C.class_insts(prog, cls).items()):
            if not tn.startswith(cls + "<int"):
                continue   # scalar key: comparisons are built-in operators, evaluable
            for f in [f for f in fs if (f.short == "find" and f.cls == tn) or (f.short == "insert" and C.placement_news(f))]:
                cases_ = []
                for s in q.stores(f):
                    if s.rhs is None:
                        continue
                    rn_ = f.nodes[f.strip(s.rhs)]
                    if rn_["k"] == "ConditionalOperator" and len(rn_["c"]) == 3:
                        # `cell = key < node->key ? &node->left : &node->right`: each arm under its side of the condition
                        cases_.append((s, rn_["c"][1], [(rn_["c"][0], True)]))
                        cases_.append((s, rn_["c"][2], [(rn_["c"][0], False)]))
                    else:
                        cases_.append((s, s.rhs, []))
                for s, rhs_, extra_ in cases_:
                    t = q.no_casts(f.r(rhs_))
                    m = re.match(r"^&?(\w+)->(left|right)$", t)
                    if not m or q.no_casts(f.r(s.lhs)) not in ("item", "cell"):
                        continue
                    node, side = m.group(1), m.group(2)
                    atoms = fin.dominating_atoms(f, f.node_pos(s.node), assume=tuple(extra_))
                    facts = [(fin.key(f, a[0]), a[1]) for a in atoms if a[0] != "case"]
                    cf = set(fin._canon(f, a[0], a[1]) for a in atoms if a[0] != "case")
                    nk = "%s->key" % node
                    gt_t, gt_f = (nk, "<", "key") in cf, ("key", "<=", nk) in cf        # key > node->key holds / fails
                    lt_t, lt_f = ("key", "<", nk) in cf, (nk, "<=", "key") in cf        # key < node->key holds / fails
                    if side == "right":
                        ok = gt_t or (cls == "MultiMap" and lt_f)
                    else:
                        ok = lt_t or (cls == "MultiMap" and f.short == "find" and gt_f)
                    if ok:
                        chk.ok("C01.f", f, "%s: descent to %s->%s under the matching comparison" % (f.short, node, side), f.where(s.node), str([x for x in facts if "key" in x[0]])[:80], evals=len(atoms))
                    else:
                        chk.bad("C01.f", f, "descent-direction:" + side, f.where(s.node),
                                "the descent moves to `%s->%s` under %s; keys greater than a node belong to its right subtree, smaller ones to its left "
                                "(in-order iteration and find() stop agreeing)" % (node, side, [x for x in facts if "key" in x[0]]))
    C.wrappers(prog, chk, "C01.w", TREE)
    subtree_start(prog, chk)
    double_rotation_table(prog, chk)
    slots_by_reference(prog, chk)
    parent_slot_by_identity(prog, chk, "C01.o")
    C.assignment_discards_old(prog, chk, "C01.p", TREE)
    short_cut_only_without_adoption(prog, chk, "C01.q")
    balance_bookkeeping(prog, chk)
    C.parent_pairing(prog, chk, "C01.h", TREE)
    from .. import containers
    containers.link_idiom(prog, chk, "C01.d1", TREE)
    containers.unlink_idiom(prog, chk, "C01.d2", TREE)
    containers.clear_resets(prog, chk, "C01.d3", TREE)
    containers.iterator_param_alias(prog, chk, "C01.d4", TREE)
    from . import c01_hint
    c01_hint.run(prog, chk)


def subtree_start(prog, chk):
    """C01.i — who may start the cell-based descent below the root"""
    chk.rule("C01.i", "WHO/DOM: the private cell-based insert(cell, parent, key, value) is started at `&root, 0`; a start at "
                      "`&N->left, N` / `&N->right, N` is accepted only in the hinted insert, whose every ordering C01.e enumerates, "
                      "or when comparisons against N and its list neighbour dominate the call (key range of the cell established)", floor=6)
    for cls in TREE:
        for tn, fs in sorted(C.class_insts(prog, cls).items()):
            multi = cls == "MultiMap"
            for f in [f for f in fs if f.cls == tn]:
                defs = q.local_defs(f)
                for c in q.calls(f):
                    n = f.nodes[c]
                    g = prog.functions.get(n.get("csig"))
                    if g is None or g.short != "insert" or len(g.params) != 4 or not g.params[0]["t"].endswith("Item **"):
                        continue
                    args = q.call_args(f, c)
                    cell = q.no_casts(q.xr(f, args[0], defs))
                    par = q.no_casts(q.xr(f, args[1], defs))
                    key = q.no_casts(f.r(args[2]))
                    hinted = f.short == "insert" and len(f.params) == 3 and f.params[0]["t"].endswith("Iterator &")
                    if hinted and cell != "&this->root":
                        chk.ok("C01.i", f, "subtree start in the hinted insert", f.where(c), "decided by C01.e (exhaustive ordering enumeration)", nontrivial=False)
                        continue
                    if cell == "&this->root":
                        if q.is_zero(f, args[1]):
                            chk.ok("C01.i", f, "descent from the root", f.where(c), "insert(&root, 0, ...)", nontrivial=False)
                        else:
                            chk.bad("C01.i", f, "root-start-with-parent", f.where(c), "a descent from `&root` must pass a null parent, got `%s`" % par)
                        continue
                    m = re.match(r"^&(.+)->(left|right)$", cell)
                    if not m or m.group(1) != par:
                        chk.bad("C01.i", f, "cell-parent-mismatch", f.where(c),
                                "the descent starts at `%s` with parent `%s`: the cell must be a child link of that parent" % (cell, par))
                        continue
                    if f.short == "insert" and len(f.params) == 3 and f.params[0]["t"].endswith("Iterator &"):
                        chk.ok("C01.i", f, "subtree start in the hinted insert", f.where(c), "decided by C01.e (exhaustive ordering enumeration)", nontrivial=False)
                        continue
                    N, side = m.group(1), m.group(2)
                    facts = set()
                    for a in fin.dominating_atoms(f, f.node_pos(c)):
                        if a[0] != "case":
                            facts.add((q.no_casts(q.xr(f, a[0], defs)), a[1]))
                    def has(*alts):
                        return any(x in facts for x in alts)
                    nk = "%s->key" % N
                    if side == "right":
                        near = has(("(%s > %s)" % (key, nk), True), ("(%s < %s)" % (nk, key), True)) or \
                            (multi and has(("(%s < %s)" % (key, nk), False), ("(%s >= %s)" % (key, nk), True)))
                        nb = "%s->next" % N
                        far = has(("(%s == &this->endItem)" % nb, True), ("(%s < %s->key)" % (key, nb), True), ("(%s->key > %s)" % (nb, key), True))
                    else:
                        near = has(("(%s < %s)" % (key, nk), True), ("(%s > %s)" % (nk, key), True))
                        nb = "%s->prev" % N
                        far = has(("%s" % nb, False), ("(!%s)" % nb, True), ("(%s > %s->key)" % (key, nb), True), ("(%s->key < %s)" % (nb, key), True))
                    if near and far:
                        chk.ok("C01.i", f, "subtree start under established key range", f.where(c), "dominating comparisons against %s and %s" % (N, nb), evals=len(facts))
                    else:
                        chk.bad("C01.i", f, "subtree-start-without-key-range:" + side, f.where(c),
                                "the descent for `%s` starts at `%s` without dominating comparisons that place the key between `%s` and its list %s "
                                "(%s; %s): a key that belongs elsewhere in the tree is hung below `%s`, so iteration is no longer ascending and find() misses entries"
                                % (key, cell, N, "successor" if side == "right" else "predecessor",
                                   "comparison with %s: %s" % (nk, "found" if near else "missing"),
                                   "comparison with %s: %s" % (nb, "found" if far else "missing"), N), evals=max(1, len(facts)))


def run_thorough(prog, chk):
    from . import c01_sib
    c01_sib.run(prog, chk)


def double_rotation_table(prog, chk):
    """C01.j — FIN: shiftl/shiftr perform the inner (double) rotation exactly when the pivot child leans towards the inside.
    Slots read from the code: sign of `slope` (updateHeightAndSlope: slope = leftHeight - rightHeight), the pivot child (the child whose
    slope the shift tests), inner/outer rotation callees."""
    chk.rule("C01.j", "FIN: for pivot-child slope in {-1, 0, +1} the shift helpers rotate the child first exactly when it leans towards the inside "
                      "(double rotation), then rotate the top the other way; a balanced child takes the single rotation", floor=4)
    for cls in TREE:
        for tn, fs in sorted(C.class_insts(prog, cls).items()):
            if not tn.startswith(cls + "<int"):
                continue
            upd = [f for f in prog.functions.values() if f.short == "updateHeightAndSlope" and (f.cls or "").startswith(tn)]
            sign = None
            for f in upd:
                for s in q.stores(f):
                    if q.no_casts(f.r(s.lhs)).endswith("slope") and s.rhs is not None:
                        t = q.no_casts(q.xr(f, s.rhs, q.local_defs(f))).replace(" ", "")
                        if re.search(r"left.*-.*right", t):
                            sign = 1
                        elif re.search(r"right.*-.*left", t):
                            sign = -1
            if sign is None:
                raise AnalysisBroken("%s: sign convention of `slope` not found in updateHeightAndSlope" % tn)
            for f in [f for f in fs if f.short in ("shiftl", "shiftr") and f.cls == tn]:
                where = "%s:%s" % (f.file, f.line)
                conds = [b for b in f.blocks.values() if b.get("cond") is not None and len(b["succ"]) == 2]
                m = None
                defs_j = q.local_defs(f)
                for b in conds:
                    expr_j = b["cond"]
                    cn_j = f.nodes[f.strip(expr_j)]
                    if cn_j["k"] == "DeclRefExpr" and cn_j["ref"].get("dk") == "local":
                        ini_j = q.single_def(f, cn_j["ref"]["id"], defs_j)      # `const bool leansRight = left->slope == -1; if(leansRight)`
                        if ini_j is not None:
                            expr_j = ini_j
                    for i in f.desc(expr_j):
                        n = f.nodes[i]
                        if n["k"] == "MemberExpr" and n.get("m") == "slope":
                            mm = re.search(r"->(left|right)->slope$", q.no_casts(f.r(i)))
                            if mm:
                                m = (b, i, mm.group(1))
                if m is None or len(conds) != 1:
                    chk.bad("C01.j", f, "shift-shape", where, "%s must test the slope of exactly one child of the top node" % f.short)
                    continue
                b, slope_node, side = m
                inner_want = "rotl" if side == "left" else "rotr"
                outer_want = "rotr" if side == "left" else "rotl"
                bad = None
                for v in (-1, 0, 1):
                    seen, end = fin.walk(f, f.entry, {fin.key(f, slope_node): v}, stop_at_loop_back=False)
                    rots = [f.nodes[e]["callee"].split("::")[-1] for e in seen if f.nodes[e]["k"] == "CallExpr" and re.search(r"::rot[lr]$", f.nodes[e].get("callee", ""))]
                    # the child leans towards the inside when its slope points away from its own side
                    inside = (sign * v < 0) if side == "left" else (sign * v > 0)
                    want = ([inner_want] if inside else []) + [outer_want]
                    if isinstance(end, str) and end.startswith("undetermined"):
                        bad = (v, "the branch is not decided by the child's slope (%s)" % end)
                        break
                    if rots != want:
                        bad = (v, "performs %s, required %s" % (" then ".join(rots) or "no rotation", " then ".join(want)))
                        break
                if bad:
                    chk.bad("C01.j", f, "double-rotation-decision:%+d" % bad[0], where,
                            "%s with %s child slope %+d %s: a wrong choice leaves a node with |slope| = 2 that the upward loop never repairs, the "
                            "tree degrades beyond the AVL height bound" % (f.short, side, bad[0], bad[1]), evals=3)
                else:
                    chk.ok("C01.j", f, "%s: child slope -1/0/+1 -> rotation sequence as required" % f.short, where, "guard evaluation under 3 valuations", evals=3)


def balance_bookkeeping(prog, chk):
    """C01.k / C01.l - FIN: the two pieces the AVL argument rests on besides the rotations themselves.
    k: updateHeightAndSlope() computes height = max(hl, hr) + 1 and slope = hl - hr (one consistent sign) from the children's heights, a
       missing child counting 0 - evaluated for all combinations of missing / height 1..3 children.
    l: rebal() rotates exactly when |slope| = 2, in the direction that lowers the heavy side, on the link that holds the node (parent's
       left / right link or the root), and returns that link's new content; otherwise it returns the node untouched."""
    chk.rule("C01.k", "FIN: updateHeightAndSlope() stores height = max(left, right) + 1 and slope = left - right (missing child = 0) for all "
                      "16 combinations of absent / height 1..3 children", floor=2)
    chk.rule("C01.l", "FIN: rebal() calls the shift that lowers the heavy side exactly for slope +-2, on the parent's link to the node (or the "
                      "root), and returns that link; for |slope| <= 1 it returns the node and rotates nothing", floor=2)
    for cls in TREE:
        for tn, fs in sorted(C.class_insts(prog, cls).items()):
            if not tn.startswith(cls + "<int"):
                continue
            sign = None
            for f in [g for g in prog.functions.values() if g.short == "updateHeightAndSlope" and (g.cls or "").startswith(tn)]:
                where = "%s:%s" % (f.file, f.line)
                bad = None
                signs = set()
                n_ev = 0
                for ln, lh in ((0, 0), (1, 1), (1, 2), (1, 3)):
                    for rn, rh in ((0, 0), (1, 1), (1, 2), (1, 3)):
                        val = {"this->left": ln, "this->right": rn, "this->slope": 99, "this->height": 99}
                        if ln:
                            val["this->left->height"] = lh
                        if rn:
                            val["this->right->height"] = rh
                        _seen, end, fv = fin.walk_vals(f, f.entry, val)
                        n_ev += 1
                        L, R = (lh if ln else 0), (rh if rn else 0)
                        if isinstance(end, str) and end.startswith("undetermined"):
                            bad = ((L, R), "the computation depends on something else than the children's heights (%s)" % end)
                            break
                        h, sl = fv.get("this->height"), fv.get("this->slope")
                        if h != max(L, R) + 1:
                            bad = ((L, R), "height becomes %s, required %d" % (h, max(L, R) + 1))
                            break
                        if sl == L - R and L != R:
                            signs.add(1)
                        elif sl == R - L and L != R:
                            signs.add(-1)
                        elif sl != L - R:
                            bad = ((L, R), "slope becomes %s, required %d (or %d throughout)" % (sl, L - R, R - L))
                            break
                    if bad:
                        break
                if not bad and len(signs) != 1:
                    bad = (("*", "*"), "slope has no consistent sign")
                if bad:
                    chk.bad("C01.k", f, "height-slope-formula", where,
                            "with child heights (left %s, right %s) %s: every balance decision above this node is then taken on wrong numbers" % (bad[0][0], bad[0][1], bad[1]), evals=n_ev)
                else:
                    sign = signs.pop()
                    chk.ok("C01.k", f, "height = max + 1, slope = %s for 16 child configurations" % ("left - right" if sign > 0 else "right - left"), where, "expression evaluation", evals=n_ev)
            if sign is None:
                continue
            for f in [g for g in fs if g.short == "rebal" and g.cls == tn]:
                where = "%s:%s" % (f.file, f.line)
                item = f.params[0]["n"]
                defs = q.local_defs(f)

                walked = [[]]

                def select(node, val, pl):
                    node = f.strip(node)
                    n = f.nodes[node]
                    for _ in range(6):
                        if n["k"] == "UnaryOperator" and n.get("op") in ("&", "*") and n["c"]:
                            node = f.strip(n["c"][0])      # the link handed over by address instead of by reference
                            n = f.nodes[node]
                            continue
                        if n["k"] == "DeclRefExpr" and n["ref"].get("dk") == "local":
                            ini = q.single_def(f, n["ref"]["id"], defs)
                            # several rebal arms declare their own `cell`: take the declaration that reaches this use
                            if ini is None:
                                # the definition that was executed last on the evaluated path (a helper's result set on several branches)
                                dnodes = {d_[1]: d_[2] for d_ in defs.get(n["ref"]["id"], []) if d_[2] is not None and d_[0] != "addr"}
                                for e_ in reversed(walked[0]):
                                    if e_ in dnodes:
                                        ini = dnodes[e_]
                                        break
                            if ini is None:
                                cands = [d_[2] for d_ in defs.get(n["ref"]["id"], []) if d_[0] == "decl" and d_[2] is not None]
                                ini = cands[0] if len(cands) == 1 else None
                            if ini is None:
                                break
                            node = f.strip(ini)
                            n = f.nodes[node]
                            continue
                        if n["k"] == "ConditionalOperator":
                            c = fin.eval_expr(f, n["c"][0], val)
                            if c is None and re.search(r"->left == %s\b|\b%s == \w+->left" % (item, item), q.no_casts(f.r(n["c"][0]))):
                                c = pl
                            elif c is None and re.search(r"->right == %s\b|\b%s == \w+->right" % (item, item), q.no_casts(f.r(n["c"][0]))):
                                c = None if pl is None else (not pl)
                            if c is None:
                                return None
                            node = f.strip(n["c"][1] if c else n["c"][2])
                            n = f.nodes[node]
                            continue
                        break
                    return q.no_casts(q.xr(f, node, defs))
                bad = None
                n_ev = 0
                for v in (-2, -1, 0, 1, 2):
                    for p_, pl in ((0, None), (1, 1), (1, 0)):
                        val = {item + "->slope": v, item + "->parent": p_}
                        asm = lambda k, pl=pl: (pl if re.search(r"->left == %s\b" % item, k) else ((not pl) if pl is not None and re.search(r"->right == %s\b" % item, k) else None))
                        seen, end, fv = fin.walk_vals(f, f.entry, val, assume=asm)
                        walked[0] = seen
                        n_ev += 1
                        if isinstance(end, str):
                            bad = (v, "the decision is not made by the node's slope and parent (%s)" % end)
                            break
                        shifts = [(f.nodes[e]["callee"].split("::")[-1], e) for e in seen if f.nodes[e]["k"] in ("CallExpr", "CXXMemberCallExpr") and re.search(r"::shift[lr]$", f.nodes[e].get("callee", "") or "")]
                        want_link = "this->root" if not p_ else ("%s->parent->left" % item if pl else "%s->parent->right" % item)
                        if abs(v) < 2:
                            if shifts:
                                bad = (v, "a balanced node is rotated (%s)" % shifts[0][0])
                            elif q.no_casts(f.r(f.nodes[end]["c"][0])) != item:
                                bad = (v, "returns `%s` instead of the node" % q.no_casts(f.r(f.nodes[end]["c"][0])))
                        else:
                            want = "shiftr" if sign * v > 0 else "shiftl"
                            if [x for x, _e in shifts] != [want]:
                                bad = (v, "calls %s, required %s" % ([x for x, _e in shifts] or "no shift", want))
                            else:
                                link = select(q.call_args(f, shifts[0][1])[0], fv, pl)
                                ret = select(f.nodes[end]["c"][0], fv, pl)
                                if link != want_link:
                                    bad = (v, "rotates on `%s` but the node hangs on `%s` (parent %s)" % (link, want_link, "null" if not p_ else "left link" if pl else "right link"))
                                elif ret != want_link:
                                    bad = (v, "returns `%s` instead of the re-rooted link `%s`" % (ret, want_link))
                        if bad:
                            break
                    if bad:
                        break
                if bad:
                    chk.bad("C01.l", f, "rebal-decision:%+d" % bad[0], where,
                            "rebal() with slope %+d %s: the subtree stays (or becomes) out of balance / the parent keeps pointing at the old subtree root" % (bad[0], bad[1]), evals=n_ev)
                else:
                    chk.ok("C01.l", f, "rebal: slope +-2 -> shift on the holding link, else untouched", where, "15 valuations (slope x parent link)", evals=n_ev)


def transplant_refresh(chk, f, loops):
    """C01.m - the node moved into the removed node's place (`*cell`) keeps the height of its old position.  The bounded walk from the
    replacement's old parent reaches it unless it stops early (height unchanged); on that early exit the node has to be refreshed
    explicitly before the walk continues above it."""
    if "C01.m" not in chk.rules:
        chk.rule("C01.m", "MPT: in remove() every early exit (unchanged height) of the walk that is bounded by the removed node's parent passes "
                          "updateHeightAndSlope() on the node now stored in `*cell` before the upward walk continues", floor=2)
    where = "%s:%s" % (f.file, f.line)
    # the bounded walk: a rebal loop one of whose exits compares the walked variable with another local
    done = set()
    for c, v, lb in loops:
        key = frozenset(lb)
        if key in done:
            continue
        done.add(key)
        vn = v["n"]
        bound_exit, early = [], []
        for u in lb:
            blk = f.blocks[u]
            if blk.get("cond") is None or len(blk["succ"]) != 2:
                continue
            for s_ in blk["succ"]:
                if s_ is None or s_ in lb:
                    continue
                cns = [fin._canon(f, a_, t_) for a_, t_ in fin.edge_atoms(f, blk, s_)]
                if any(cn[0] != "val" and cn[1] == "==" and vn in (cn[0], cn[2]) and re.match(r"^\w+$", cn[0]) and re.match(r"^\w+$", cn[2]) for cn in cns):
                    bound_exit.append((u, s_))
                elif any(cn[0] != "val" and cn[1] == "==" and any(x.endswith("->height") for x in (cn[0], cn[2])) for cn in cns):
                    early.append((u, s_))
        if not bound_exit:
            continue        # the final walk up to the root: nothing above it is skipped
        others = [lb2 for c2, v2, lb2 in loops if frozenset(lb2) != key]
        tgt = set((h, 0) for lb2 in others for h in lb2 if any(p_ not in lb2 for p_ in f.preds.get(h, []))) | {f.exit_pos()}
        defs = q.local_defs(f)
        upd = []
        for i in q.calls(f):
            if not (f.nodes[i].get("callee") or "").endswith("::updateHeightAndSlope"):
                continue
            o = q.call_object(f, i)
            if o is not None and q.no_casts(f.r(o)).strip("()") in ("*cell", "*(cell"):
                upd.append(i)
            elif o is not None:
                # `parent = *cell; parent->updateHeightAndSlope();` - the walked variable re-seated on the transplanted node
                on = f.nodes[f.strip(o)]
                if on["k"] == "DeclRefExpr" and on["ref"].get("dk") == "local":
                    rd = q.reaching_def(f, on["ref"]["id"], i, defs)
                    if rd is not None and q.no_casts(f.r(rd)).strip("()") == "*cell":
                        upd.append(i)
        if not early:
            chk.ok("C01.m", f, "the bounded walk has no early exit: it reaches the transplanted node", where, "loop exits", nontrivial=False)
            continue
        bad = None
        for u, s_ in early:
            # the early exit may lie inside the loop body (a `break`): follow from the edge's target to the next walk / the exit
            pth = f.find_path((s_, 0), tgt, avoid=q.pos_of(f, upd), after_src=False)
            if pth is not None:
                bad = pth
        if bad:
            chk.bad("C01.m", f, "transplanted-node-not-refreshed", where,
                    "the walk that starts at the replacement's old parent stops early when a height did not change (lines %s) and the upward walk goes "
                    "on above the removed node, but the node now in `*cell` still carries the height and slope of its old position: later balance "
                    "decisions are taken on a stale, too small height" % f.path_lines(bad)[:8], evals=len(early) + 1)
        else:
            chk.ok("C01.m", f, "early exit of the bounded walk refreshes `*cell`", where, "MPT from %d early exit edge(s)" % len(early), evals=len(early) + 1)


def slots_by_reference(prog, chk):
    """C01.n - rotations publish the new subtree top by assigning to their `Item*&` parameter: the argument has to BE the slot of the
    tree (a child field, the root, or a reference bound to one).  A pointer local that merely holds the slot's value takes the
    assignment instead, the tree keeps pointing at the old top and the rotated-in node drops out of the search structure."""
    chk.rule("C01.n", "WHO/TYPE: every argument bound to an `Item*&` parameter of a tree helper designates a slot of the tree - a left/right/root "
                      "field, a reference variable, or a choice between such - never a pointer variable holding a copy", floor=6)
    for cls in TREE:
        for tn, fs in sorted(C.class_insts(prog, cls).items()):
            for f in fs:
                if not f.blocks:
                    continue
                for c in q.calls(f):
                    g = prog.functions.get(f.nodes[c].get("csig"))
                    if g is None or (g.clsq or "").split("<")[0] != cls:
                        continue
                    args = q.call_args(f, c)
                    for k, gp in enumerate(g.params):
                        if not re.search(r"Item \*&$", gp.get("t") or "") or k >= len(args):
                            continue

                        def is_slot(x, depth=0):
                            x = f.strip(x)
                            n = f.nodes[x]
                            while n["k"] == "ParenExpr" and n["c"]:
                                n = f.nodes[f.strip(n["c"][0])]
                            if n["k"] == "MemberExpr":
                                return True
                            if n["k"] == "DeclRefExpr":
                                return "&" in (n["ref"].get("t") or "")
                            if n["k"] == "ConditionalOperator" and depth < 3:
                                return is_slot(n["c"][1], depth + 1) and is_slot(n["c"][2], depth + 1)
                            if n["k"] == "UnaryOperator" and n.get("op") == "*":
                                return True
                            return False
                        if is_slot(args[k]):
                            chk.ok("C01.n", f, "%s(%s): the argument is a slot of the tree" % (g.short, q.no_casts(f.r(args[k]))[:30]), f.where(c), "lvalue kind of the bound argument", evals=1)
                        else:
                            chk.bad("C01.n", f, "slot-passed-by-copy:" + g.short, f.where(c),
                                    "`%s` binds the pointer variable `%s` to the slot parameter of %s: the helper stores the new subtree top "
                                    "into that variable, the tree's own child pointer still names the old top - the node rotated in (and its "
                                    "subtree) can no longer be found by key although iteration still shows it" % (
                                        q.no_casts(f.r(c))[:40], q.no_casts(f.r(args[k]))[:30], g.short), evals=1)


def parent_slot_by_identity(prog, chk, rid):
    """removal locates the child slot of the parent that holds the removed node.  With equal keys (MultiMap) a rotation can put an entry
    to the LEFT of an equal-key parent, so the slot can only be told by comparing the node pointer with the parent's child pointers;
    a key comparison picks the wrong slot, detaches a live subtree and leaves the destroyed node linked into the tree."""
    chk.rule(rid, "TYPE/DOM: in MultiMap::remove every choice between `&parent->left` and `&parent->right` for the slot of the removed node "
                  "is governed by a pointer-identity test against the parent's child pointers, never by a key comparison", floor=1)
    n = 0
    for tn, fs in sorted(C.class_insts(prog, "MultiMap").items()):
        for f in fs:
            if f.cls != tn or f.short != "remove" or not f.blocks:
                continue
            for i, nd in enumerate(f.nodes):
                if nd["k"] != "ConditionalOperator" or len(nd["c"]) != 3:
                    continue
                a, b = q.no_casts(f.r(nd["c"][1])), q.no_casts(f.r(nd["c"][2]))
                m1, m2 = re.match(r"^&(.+)->(left|right)$", a), re.match(r"^&(.+)->(left|right)$", b)
                if not m1 or not m2 or m1.group(1) != m2.group(1) or m1.group(2) == m2.group(2):
                    continue
                _slot_choice(chk, rid, f, nd["c"][0], i, m1.group(1))
                n += 1
            # the same choice written as an if/else that assigns the slot
            for blk in f.blocks.values():
                c = blk.get("cond")
                if c is None or len(blk["succ"]) != 2 or blk.get("tk") == "SwitchStmt" or None in blk["succ"]:
                    continue
                arms = []
                for s_ in blk["succ"]:
                    got = None
                    for st in q.stores(f):
                        if st.rhs is not None and st.op == "=" and (f.node_pos(st.node) or (None,))[0] == s_:
                            m = re.match(r"^&(.+)->(left|right)$", q.no_casts(f.r(st.rhs)))
                            if m:
                                got = (q.no_casts(f.r(st.lhs)), m.group(1), m.group(2))
                    arms.append(got)
                if arms[0] and arms[1] and arms[0][0] == arms[1][0] and arms[0][1] == arms[1][1] and arms[0][2] != arms[1][2]:
                    _slot_choice(chk, rid, f, c, f.strip(c), arms[0][1])
                    n += 1
    if n == 0:
        raise AnalysisBroken("MultiMap::remove: no choice between &parent->left and &parent->right found")


def _slot_choice(chk, rid, f, cond, at, par):
    cn = f.nodes[f.strip(cond)]
    while cn["k"] == "UnaryOperator" and cn.get("op") == "!" and cn["c"]:
        cn = f.nodes[f.strip(cn["c"][0])]
    txt = q.no_casts(f.r(f.strip(cond)))
    ident = cn["k"] == "BinaryOperator" and cn.get("op") in ("==", "!=") and len(cn["c"]) == 2 and \
        any(re.fullmatch(re.escape(par) + r"->(left|right)", q.no_casts(f.r(x))) for x in cn["c"]) and \
        all("*" in (f.nodes[f.strip(x)].get("t") or "") for x in cn["c"])
    if ident:
        chk.ok(rid, f, "slot of the removed node chosen by `%s`" % txt[:50], f.where(at), "pointer identity against the parent's child pointers", evals=2)
    else:
        chk.bad(rid, f, "parent-slot-by-key", f.where(at),
                "the slot of the removed node is chosen by `%s`: after a rotation an entry can be the left child of a parent with an EQUAL key, "
                "the test then names the other slot - a live subtree is detached and the destroyed node stays linked in the tree "
                "(insert 5,5,5; remove(begin()); find(5) compares against the destroyed entry)" % txt[:60], evals=2)


def short_cut_only_without_adoption(prog, chk, rid):
    """remove() ends in two walks: the first recomputes heights from the point of surgery up to the removed node's old parent, the
    second only continues upwards and stops as soon as a height is unchanged.  The stop test compares a node's STORED height with its
    recomputed one, which says something about the subtree only if that node has kept its children.  A node that has just adopted
    the removed node's children (the moved successor / predecessor) still stores the height of its old position: entered directly,
    the second walk stops at once and every ancestor keeps a stale height."""
    chk.rule(rid, "ORD: in Map/MultiMap::remove a jump to the final upward walk (the one that only stops on an unchanged height) is not "
                  "reachable from a store that gives a node new children (`X->left = ..` / `X->right = ..`); those cases enter the first walk", floor=4)
    n = 0
    for cls in TREE:
        for tn, fs in sorted(C.class_insts(prog, cls).items()):
            for f in fs:
                if f.cls != tn or f.short != "remove" or not f.blocks:
                    continue
                labels = [(nd.get("l") or 0, nd.get("label")) for nd in f.nodes if nd["k"] == "LabelStmt" and nd.get("label")]
                gotos = [i for i, nd in enumerate(f.nodes) if nd["k"] == "GotoStmt" and nd.get("label")]
                if len(labels) < 2 or not gotos:
                    continue
                last = max(labels)[1]
                adopt = [s_ for s_ in q.stores(f) if re.search(r"\w->(left|right)$", q.no_casts(f.r(s_.lhs))) and s_.rhs is not None and not q.is_zero(f, s_.rhs)]
                for g in gotos:
                    if f.nodes[g]["label"] != last or f.node_pos(g) is None:
                        continue
                    n += 1
                    pre = [s_ for s_ in adopt if f.node_pos(s_.node) is not None and q.reaches(f, s_.node, g)]
                    if pre:
                        chk.bad(rid, f, "short-cut-after-adoption", f.where(g),
                                "`goto %s` follows `%s`: the node that has just taken over the removed node's children still stores the height of its "
                                "old position, the walk's stop test (stored height == recomputed height) holds by accident and the ancestors keep "
                                "heights that are one too large - later rotations act on them and the tree stops being balanced" % (
                                    last, q.no_casts(f.r(pre[0].node))[:40]), evals=len(adopt) + 1)
                    else:
                        chk.ok(rid, f, "jump to the final walk at line %s follows no adoption of children" % f.nodes[g].get("l"), f.where(g), "reachability from the child-link stores", evals=len(adopt) + 1)
    if n < 4:
        raise AnalysisBroken("C01.q: only %d jumps to the final upward walk found in Map/MultiMap::remove" % n)
