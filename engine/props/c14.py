"""C14 — the event loop honours timers, removals, readiness and interrupts (structural part)."""
import re
from .. import q, fin
from .. import containers as C
from ..facts import AnalysisBroken
from .server_common import sfn, use_after_callback, callback_calls, Only

EXPLANATION = (
    "Structural rules on Server.cpp and the epoll implementation of Socket::Poll: (T1) consumers that scan forward from "
    "MultiMap::find (timer removal) are complete only if find returns the first equal key — producer fact read from find's CFG; "
    "(T2) every remove() unregisters from the poll set / timer queue before the pool frees the object; (T3) Poll::remove drops the "
    "buffered event of the socket and Poll::set masks buffered events with exactly the flags that were removed; (T4) each dispatch arm "
    "casts the event's socket to the type that is registered with the flag it tested; (T5) nothing of an object is used after one of its "
    "callbacks returned (the callback may have removed it), in particular the timer is re-queued before onActivated; (T6) _interrupted "
    "is written under the interrupt mutex, interrupt() stores the flag before waking the poll, run() consumes it under the mutex and "
    "returns only there or when poll fails; (T7) every failed read/write/drain leads to onClosed (directly or through _closingClients), "
    "the closing loop pops before calling back; (T8) the default timer is always present. Not decided: timing (never before due, order "
    "of due times), eventual dispatch of every ready socket, the behaviour of epoll.")

P = "Server::Private::"


def flagv(prog, name):
    for f in prog.functions.values():
        for n in f.nodes:
            if n["k"] == "DeclRefExpr" and n["ref"].get("q") == "Socket::Poll::" + name:
                return n["ref"]["v"]
    raise AnalysisBroken("enumerator Socket::Poll::%s not found" % name)


def find_is_lower_bound(f):
    """producer fact from MultiMap::find's CFG: on the not-greater/not-less branch the search continues to the left"""
    # there must be no return inside the descent loop, or the equal branch must move to ->left
    rets_in_loop = [i for i, n in enumerate(f.nodes) if n["k"] == "ReturnStmt" and C.loop_blocks(f, i)]
    left_moves = [s for s in q.stores(f) if s.rhs is not None and re.search(r"->left$", q.no_casts(f.r(s.rhs)))]
    if rets_in_loop:
        return False, "find returns from inside the descent as soon as it meets an equal key"
    # a store `result = item` guarded by !(key < item->key) followed by a move to the left
    rec = [s for s in q.stores(f) if f.nodes[s.lhs]["k"] == "DeclRefExpr" and s.rhs is not None and f.nodes[f.strip(s.rhs)]["k"] == "DeclRefExpr"
           and C.loop_blocks(f, s.node)]
    ok = False
    for s in rec:
        for lm in left_moves:
            if q.reaches(f, s.node, lm.node) and C.after_all_pass(f, f.node_pos(s.node), {f.node_pos(lm.node)}, stop_pos=())[0]:
                ok = True
    return ok, "" if ok else "find does not continue to the left after recording an equal key"


def poll_set_prunes(prog, chk, rid):
    """Poll::set: events buffered from the current epoll_wait round are masked with exactly the flags that were removed"""
    ps = [f for f in prog.functions.values() if f.gname == "Socket::Poll::Private::set" and f.file.endswith("Socket.cpp")]
    if not ps:
        raise AnalysisBroken("Socket::Poll::Private::set (epoll) not found")
    f = ps[0]
    defs = q.local_defs(f)
    ev_par = f.params[1]["n"]
    # the buffered-events word: what the iterator returned by selectedSockets.find() designates
    iters = [d["n"] for n in f.nodes if n["k"] == "DeclStmt" for d in n["decls"] if d.get("init") is not None and "selectedSockets.find(" in f.r(d["init"])]
    regs = sorted(set(q.no_casts(f.r(i)) for i, n in enumerate(f.nodes) if n["k"] == "MemberExpr" and n.get("m") == "events" and
                      re.search(r"^\w+\.events$|^\w+->events$", q.no_casts(f.r(i))) and not q.no_casts(f.r(i)).startswith("ev.")))
    if not iters or not regs:
        chk.bad(rid, f, "buffered-events-not-pruned", "%s:%s" % (f.file, f.line),
                "Poll::set: the buffered events are not looked up at all — an event kind that was just un-registered (e.g. read after suspend()) is still delivered from the buffered round")
        return
    word, reg = "*" + iters[0], regs[0]

    def asm(k):
        m = re.match(r"^\((\w+) (!=|==) this->(\w+)\.end\(\)\)$", k) or re.match(r"^\((\w+) (!=|==) (\w+)\)$", k)
        if m:
            return 1 if m.group(2) == "!=" else 0      # the socket is registered and has a buffered entry
        return None
    bad = None
    n_ev = 0
    for O in range(16):
        for E in range(16):
            for B in range(1, 16):
                if B & ~O:
                    continue        # only flags that are registered can have been buffered
                val = {reg: O, ev_par: E, word: B}
                seen, end_, fv = fin.walk_vals(f, f.entry, val, assume=asm)
                n_ev += 1
                if isinstance(end_, str) and end_.startswith("undetermined"):
                    bad = (O, E, B, "the outcome depends on something else (%s)" % end_)
                    break
                removed = any(f.nodes[e]["k"] == "CXXMemberCallExpr" and re.search(r"selectedSockets\.remove\(", f.r(e)) for e in seen)
                # the word's final value: through the iterator or through a reference local bound to it
                cands = [fv.get(word)] + [fv.get(d["n"]) for n in f.nodes if n["k"] == "DeclStmt" for d in n["decls"]
                                          if d.get("init") is not None and q.no_casts(f.r(d["init"])) == word and (d.get("t") or "").rstrip().endswith("&")]
                want = B & ~(O & ~E)
                if want == 0:
                    if not removed:
                        bad = (O, E, B, "every buffered flag was un-registered but the entry is not dropped")
                elif removed:
                    bad = (O, E, B, "the entry is dropped although the flags %d remain registered and buffered" % want)
                elif want not in [c for c in cands if c is not None] or (fv.get(word) not in (None, want, B) ):
                    bad = (O, E, B, "the buffered flags become %s, required %d" % ([c for c in cands if c is not None][-1:] or "?", want))
                if bad:
                    break
            if bad:
                break
        if bad:
            break
    if bad is None:
        chk.ok(rid, f, "Poll::set masks buffered events with exactly the removed flags and drops emptied entries", "%s:%s" % (f.file, f.line),
               "decision table over registered x requested x buffered flags", evals=n_ev)
    else:
        chk.bad(rid, f, "buffered-events-not-pruned", "%s:%s" % (f.file, f.line),
                "Poll::set: with registered flags %d, requested %d, buffered %d %s — an event kind that was just un-registered (e.g. read after "
                "suspend()) is still delivered from the buffered round (or a still wanted one is lost)" % bad, evals=n_ev)


def run(prog, chk):
    chk.extra["explanation"] = EXPLANATION
    chk.rule("C14.T1", "MPT/DOM: forward scans from MultiMap::find over equal keys require find to return the first equal entry", floor=2)
    chk.rule("C14.T2", "ORD: unregister (poll set / timer queue / resolver back-pointer) precedes the pool removal in every remove()", floor=4)
    chk.rule("C14.T3", "MPT: Poll::remove drops the socket's buffered event; Poll::set masks buffered events with the removed flags only", floor=2)
    chk.rule("C14.T4", "TAG: the dispatch arm for a flag casts the socket to the type registered with that flag", floor=6)
    chk.rule("C14.T5", "ORD (typestate): no use of an object after one of its callbacks; timers are re-queued before onActivated", floor=2)
    chk.rule("C14.T6", "DOM/ORD: _interrupted written under the mutex; interrupt() sets the flag before waking the poll; run() returns only on a consumed interrupt or failed poll", floor=4)
    chk.rule("C14.T7", "MPT: failed read/write/drain leads to onClosed; the closing loop pops before the callback", floor=4)
    chk.rule("C14.T8", "MPT: the default timer is inserted by the constructor and clear(), and re-inserted when it fires", floor=3)
    run_ = sfn(prog, P + "run")
    # ------------------------------------------------------------------ T1
    finds = [f for f in prog.functions.values() if f.gname == "MultiMap::find"]
    if not finds:
        raise AnalysisBroken("no instantiation of MultiMap::find")
    lb_all = True
    for f in finds:
        lb, why = find_is_lower_bound(f)
        lb_all = lb_all and lb
    consumers = []
    for f in prog.functions.values():
        for i in q.calls(f):
            if re.search(r"MultiMap<.*>::find$|^MultiMap::find$", f.nodes[i].get("callee", "") ) or (f.nodes[i].get("callee", "").endswith("::find") and "MultiMap" in f.nodes[i].get("ccls", "")):
                # a loop whose iterator starts at the result and only moves forward
                lb = None
                p = f.up(i)
                while p is not None and f.nodes[p]["k"] not in ("DeclStmt",):
                    p = f.up(p)
                if p is None:
                    continue
                var = f.nodes[p]["decls"][0]
                fw = [n["i"] for n in f.nodes if (n["k"] == "CXXOperatorCallExpr" and n.get("oop") == "++" and var["n"] in f.r(n["i"])) or
                      (n["k"] in ("BinaryOperator",) and n["op"] == "=" and re.search(r"->next$", q.no_casts(f.r(n["c"][1]))))]
                fw = [x for x in fw if C.loop_blocks(f, x)]
                bw = [n["i"] for n in f.nodes if n["k"] == "CXXOperatorCallExpr" and n.get("oop") == "--"]
                if fw and not bw:
                    consumers.append((f, i))
    if not consumers:
        raise AnalysisBroken("no forward-scanning consumer of MultiMap::find found (Server::Private::remove(TimerImpl&), MultiMap::count)")
    for f, i in consumers:
        if lb_all:
            chk.ok("C14.T1", f, "forward scan from find(): find is a lower-bound search", f.where(i), "producer fact: no return inside the descent, equal keys continue to the left", evals=len(finds) + 1)
        else:
            chk.bad("C14.T1", f, "forward-scan-from-arbitrary-equal-entry", f.where(i),
                    "this scan walks forward from MultiMap::find(key), but find may return an equal entry that is not the first: entries in front of it "
                    "are missed (a removed timer stays queued and fires on a destroyed object)")
    # the scan itself: an entry with the wanted key that is not the wanted entry must not end the scan
    rt = sfn(prog, P + "remove", 1, "TimerImpl")
    heads = [b for b in rt.blocks.values() if b.get("tk") in ("ForStmt", "WhileStmt") and b.get("cond") is not None and len(b["succ"]) == 2]
    if not heads:
        chk.bad("C14.T1", rt, "timer-scan-missing", "%s:%s" % (rt.file, rt.line), "remove(TimerImpl&) no longer scans the queue for the timer's entry")
    else:
        body = heads[0]["succ"][0]
        verdicts = {}
        for rel, kv in (("equal", 5), ("greater", 6)):
            val = {"i.key()": kv, "timer.executionTime": 5, "(*i == &timer)": 0, "(i.operator*() == &timer)": 0}
            # the element test: any comparison of the iterated value with &timer evaluates to false (not the wanted entry)
            for b in rt.blocks.values():
                c = b.get("cond")
                if c is not None and "&timer" in fin.key(rt, c):
                    val[fin.key(rt, c)] = 0
            for i_, n_ in enumerate(rt.nodes):      # the same test kept in a local (`queued = *i == &timer`)
                if n_["k"] in ("BinaryOperator", "CXXOperatorCallExpr") and (n_.get("op") or n_.get("oop")) in ("==", "!=") and "&timer" in fin.key(rt, i_):
                    val[fin.key(rt, i_)] = 0 if (n_.get("op") or n_.get("oop")) == "==" else 1
            seen, end, _fv = fin.walk_vals(rt, body, val, stop_at_loop_back=True)
            verdicts[rel] = "continues" if end == "loop back" else "leaves"
        if verdicts.get("equal") == "continues":
            chk.ok("C14.T1", rt, "timer scan continues over other entries with the same due time (and %s at a later one)" % verdicts.get("greater"), "%s:%s" % (rt.file, rt.line),
                   "loop body evaluated for key == wanted / key > wanted with a non-matching entry", evals=2)
        else:
            chk.bad("C14.T1", rt, "scan-stops-at-equal-key", "%s:%s" % (rt.file, rt.line),
                    "the scan for the removed timer leaves the loop at an entry with the same due time that is not the wanted one: with several timers due at the same "
                    "tick only the first is ever found, the removed timer's queue entry survives and fires on freed memory")
    # ------------------------------------------------------------------ T2
    for psub, unreg, pool in (("ListenerImpl", r"_sockets\.remove\(listener\)", r"_listeners\.remove\("),
                              ("EstablisherImpl", r"_sockets\.remove\(establisher\)", r"_establishers\.remove\("),
                              ("TimerImpl", r"_queuedTimers\.remove\(", r"_timers\.remove\(")):
        f = sfn(prog, P + "remove", 1, psub)
        a = [c for c in q.calls(f) if re.search(unreg, f.r(c))]
        b = [c for c in q.calls(f) if re.search(pool, f.r(c))]
        ok = bool(a) and bool(b) and all(not q.reaches(f, y, x) for x in a for y in b) and all(any(q.reaches(f, x, y) for x in a) or psub == "TimerImpl" for y in b)
        if psub != "TimerImpl":
            ok = ok and all(q.precedes_always(f, a, y) for y in b)
        if ok:
            chk.ok("C14.T2", f, "remove(%s): unregister before the pool frees it" % psub, "%s:%s" % (f.file, f.line), "ORD", evals=2)
        else:
            chk.bad("C14.T2", f, "destroy-before-unregister:" + psub, "%s:%s" % (f.file, f.line),
                    "remove(%s&) must take the object out of the poll set / timer queue before the pool destroys it (a pending event or queue entry then refers to freed memory)" % psub)
    f = sfn(prog, P + "remove", 1, "EstablisherImpl")
    det = [s for s in q.stores(f) if re.search(r"resolver->establisher$", f.r(s.lhs)) and q.is_zero(f, s.rhs)]
    pool = [c for c in q.calls(f) if re.search(r"_establishers\.remove\(", f.r(c))]
    if det and all(q.reaches(f, d.node, p) for d in det for p in pool):
        chk.ok("C14.T2", f, "pending resolver detached before the establisher is freed", f.where(det[0].node), "ORD", evals=1)
    else:
        chk.bad("C14.T2", f, "resolver-not-detached", "%s:%s" % (f.file, f.line), "remove(EstablisherImpl&) must clear resolver->establisher before freeing the establisher (the finished resolver calls back into it)")
    f = sfn(prog, P + "deleteClient")
    # the client is the function's parameter, by reference or by pointer
    pn_ = re.escape(f.params[0]["n"]) if f.params else "client"
    obj_ = r"\*?%s" % pn_           # the object:  client | *client
    adr_ = r"&?%s" % pn_             # its address: &client | client
    a = [c for c in q.calls(f) if re.search(r"_sockets\.remove\(%s\)" % obj_, q.no_casts(f.r(c)))]
    a2 = [c for c in q.calls(f) if re.search(r"_closingClients\.remove\(%s\)" % adr_, q.no_casts(f.r(c)))]
    b = [c for c in q.calls(f) if re.search(r"_clients\.remove\(%s\)" % obj_, q.no_casts(f.r(c)))]
    if a and a2 and b and all(q.precedes_always(f, a, y) and q.precedes_always(f, a2, y) for y in b):
        chk.ok("C14.T2", f, "deleteClient: poll set and closing list before the pool", "%s:%s" % (f.file, f.line), "ORD", evals=2)
    else:
        chk.bad("C14.T2", f, "destroy-before-unregister:ClientImpl", "%s:%s" % (f.file, f.line), "deleteClient must remove the client from the poll set and from _closingClients before the pool destroys it")
    # ------------------------------------------------------------------ T3
    pr = [f for f in prog.functions.values() if f.gname == "Socket::Poll::Private::remove" and f.file.endswith("Socket.cpp")]
    ps = [f for f in prog.functions.values() if f.gname == "Socket::Poll::Private::set" and f.file.endswith("Socket.cpp")]
    if not pr or not ps:
        raise AnalysisBroken("Socket::Poll::Private::remove/set (epoll) not found")
    f = pr[0]
    sel = [c for c in q.calls(f) if re.search(r"selectedSockets\.remove\(", f.r(c))]
    reg = [c for c in q.calls(f) if re.search(r"this->sockets\.remove\(", f.r(c))]
    if sel and reg and all(C.paths_all_pass(f, f.node_pos(r), q.pos_of(f, sel)) for r in reg):
        chk.ok("C14.T3", f, "Poll::remove drops the buffered event of the socket", f.where(sel[0]), "selectedSockets.remove on every path that unregisters", evals=2)
    else:
        chk.bad("C14.T3", f, "pending-event-survives-removal", "%s:%s" % (f.file, f.line),
                "Poll::remove must also erase the socket from selectedSockets: an event buffered by the same epoll_wait round is otherwise delivered for a removed (freed) object")
    poll_set_prunes(prog, chk, "C14.T3")
    pl = [f for f in prog.functions.values() if f.gname == "Socket::Poll::Private::poll" and f.file.endswith("Socket.cpp")]
    if pl:
        f = pl[0]
        st = C.nstores(f)
        sock = [s_.node for s_, l, r in st if l == "event.socket" and "key()" in r]
        flg = [s_.node for s_, l, r in st if l == "event.flags" and r.startswith("*")]
        pop = [c for c in q.calls(f) if re.search(r"selectedSockets\.remove\(it\)", f.r(c))]
        fill = [c for c in q.calls(f) if re.search(r"selectedSockets\.append\(", f.r(c))]
        ok = bool(sock) and bool(flg) and bool(pop) and all(q.reaches(f, a_, p_) for a_ in sock + flg for p_ in pop)
        # the refill from epoll_wait happens only when nothing is buffered
        refill_guard = all(any(a[0] != "case" and a[1] and fin.key(f, a[0]) == "this->selectedSockets.isEmpty()" for a in fin.dominating_atoms(f, f.node_pos(c))) for c in fill)
        if ok and refill_guard:
            chk.ok("C14.T3", f, "poll() delivers one buffered event, pops it, and refills only when the buffer is empty", "%s:%s" % (f.file, f.line), "ORD + dominating atom", evals=3)
        else:
            chk.bad("C14.T3", f, "poll-delivery", "%s:%s" % (f.file, f.line), "poll() must copy the first buffered (socket, flags) into the event, remove that entry, and call epoll_wait only when no buffered event is left (else events are duplicated or overwritten)")
    # ------------------------------------------------------------------ T4
    table = {}
    for f in prog.functions.values():
        if not f.file.endswith("Server.cpp"):
            continue
        for c in q.calls(f):
            if not re.search(r"_sockets\.set\(", f.r(c)):
                continue
            args = q.call_args(f, c)
            ty = f.nodes[f.strip(args[0])].get("t", "")
            for nm in ("acceptFlag", "connectFlag", "readFlag", "writeFlag"):
                if nm in f.r(args[1]):
                    table.setdefault(nm, set()).add(ty.replace("Server::Private::", ""))
    want = {"acceptFlag": {"ListenerImpl"}, "connectFlag": {"EstablisherImpl"}, "readFlag": {"ClientImpl"}, "writeFlag": {"ClientImpl"}}
    for nm in want:
        if table.get(nm) == want[nm]:
            chk.ok("C14.T4", "registration", "%s is registered only for %s" % (nm, sorted(want[nm])[0]), "", "all _sockets.set sites", nontrivial=False)
        else:
            chk.bad("C14.T4", "registration", "flag-registered-for-other-type:" + nm, "", "%s is registered for %s, the dispatch casts it to %s" % (nm, sorted(table.get(nm, [])), sorted(want[nm])[0]))
    casts = 0
    for i, n in enumerate(run_.nodes):
        if n["k"] == "CStyleCastExpr" and n["c"] and q.no_casts(run_.r(n["c"][0])) == "pollEvent.socket":
            if run_.node_pos(i) is None:
                continue      # a copy that is not evaluated (argument expression of an inlined helper, substituted at its uses)
            ty = n["t"].replace("Server::Private::", "").rstrip(" *")
            atoms = fin.dominating_atoms(run_, run_.node_pos(i))
            flags = [m.group(1) for a in atoms if a[0] != "case" and a[1] for m in [re.search(r"pollEvent\.flags & Socket::Poll::(\w+)", q.no_casts(q.xr(run_, a[0])))] if m]
            casts += 1
            if flags and all(want.get(fl) == {ty} for fl in flags[-1:]):
                chk.ok("C14.T4", run_, "(%s*)pollEvent.socket under %s" % (ty, flags[-1]), run_.where(i), "dominating flag test", evals=len(atoms))
            else:
                chk.bad("C14.T4", run_, "dispatch-cast-disagrees-with-registration:" + ty, run_.where(i),
                        "pollEvent.socket is cast to %s in the arm that tested %s; that flag is registered for %s" % (ty, flags[-1:] or "no flag", sorted(want.get(flags[-1], ["?"]))[0] if flags else "?"))
    # ------------------------------------------------------------------ T5
    n_cb = 0
    for f in [x for x in prog.functions.values() if x.file.endswith("Server.cpp")]:
        cbs = callback_calls(f)
        if not cbs:
            continue
        n_cb += len(cbs)
        bad = use_after_callback(f)
        for call, use, nm in bad:
            chk.bad("C14.T5", f, "object-used-after-callback:" + f.r(call).split("(")[0].split(".")[-1].split(">")[-1], f.where(use),
                    "`%s` is used after its callback `%s` returned; the callback may have removed it (remove() is allowed inside callbacks): use after free, "
                    "or bookkeeping done after the callback overrides what the callback did" % (nm, f.r(call)[:50]))
        if not bad:
            chk.ok("C14.T5", f, "%d callback sites: the object is not used afterwards" % len(cbs), "%s:%s" % (f.file, f.line), "reachability from each callback to later uses", evals=len(cbs))
    act = [c for c, root, t in callback_calls(run_) if "onActivated" in t]
    # the due time moves on by the interval (`+=`, or `= executionTime + interval`, possibly through a local), and the timer is queued again
    # under that new due time - whatever names carry the value
    defs_r = q.local_defs(run_)
    adv = []
    newval = set()
    for s_ in q.stores(run_):
        if not re.search(r"timer->executionTime$", run_.r(s_.lhs)) or s_.rhs is None:
            continue
        rn_ = run_.nodes[run_.strip(s_.rhs)]
        ini_ = q.single_def(run_, rn_["ref"]["id"], defs_r) if rn_["k"] == "DeclRefExpr" and rn_["ref"].get("dk") == "local" else None
        rt_ = q.no_casts(run_.r(ini_ if ini_ is not None else s_.rhs)).replace(" ", "")
        if (s_.op == "+=" and rt_ == "timer->interval") or (s_.op == "=" and rt_.strip("()") in ("timer->executionTime+timer->interval", "timer->interval+timer->executionTime")):
            adv.append(s_.node)
            newval.add(q.no_casts(run_.r(s_.rhs)))
    ins = []
    for c in q.calls(run_):
        if not re.search(r"_queuedTimers\.insert\(", run_.r(c)):
            continue
        a_ = q.call_args(run_, c)
        if len(a_) != 2 or q.no_casts(run_.r(a_[1])) != "timer":
            continue
        kt_ = q.no_casts(run_.r(a_[0]))
        if kt_ == "timer->executionTime" or kt_ in newval:
            ins.append(c)
    if act and ins and adv and all(q.precedes_always(run_, ins, a) for a in act) and all(q.reaches(run_, x, y) for x in adv for y in ins):
        chk.ok("C14.T5", run_, "timer advanced by its interval and re-queued before onActivated", run_.where(act[0]), "ORD", evals=3)
    else:
        chk.bad("C14.T5", run_, "timer-requeue-order", "%s:%s" % (run_.file, run_.line), "a due timer must be advanced by its interval and re-inserted into the queue before onActivated() is called (the callback may remove the timer)")
    # ------------------------------------------------------------------ T6
    intr = sfn(prog, P + "interrupt")
    for f in (run_, intr):
        guards = [i for i, n in enumerate(f.nodes) if n["k"] == "CXXConstructExpr" and n.get("callee", "").endswith("Mutex::Guard::Guard") and "_interruptMutex" in f.r(i)]
        ends = [(b["id"], i) for b in f.blocks.values() for i, e in enumerate(b["el"]) if isinstance(e, dict) and e.get("k") == "autodtor" and "Guard" in e.get("t", "")]
        for s in q.stores(f):
            if f.r(s.lhs) != "this->_interrupted":
                continue
            p = f.node_pos(s.node)
            alive = any(f.dominates_pos(f.node_pos(g), p) and f.find_path(f.node_pos(g), {p}, avoid=set(ends)) is not None for g in guards)
            if alive:
                chk.ok("C14.T6", f, "_interrupted written under _interruptMutex", f.where(s.node), "live guard dominates", evals=2)
            else:
                chk.bad("C14.T6", f, "interrupt-flag-without-mutex", f.where(s.node), "_interrupted is written without holding _interruptMutex: a concurrent interrupt() can be lost")
    st = [s.node for s in q.stores(intr) if intr.r(s.lhs) == "this->_interrupted" and fin.eval_expr(intr, s.rhs, {}) == 1]
    wake = [c for c in q.calls(intr) if re.search(r"_sockets\.interrupt\(\)", intr.r(c))]
    # decision table over the flag's value on entry: whenever the poll is woken, the flag is already set (path correlation through
    # locals such as `already = _interrupted` is followed by the guard-directed walk)
    okw = bool(st) and bool(wake)
    for v0 in (0, 1):
        for w in wake:
            _seen, end_, fv = fin.walk_vals(intr, intr.entry, {"this->_interrupted": v0}, stop_at=w)
            if end_ == "stop":
                if fv.get("this->_interrupted") != 1:
                    okw = False
            elif isinstance(end_, str) and end_.startswith("undetermined"):
                okw = False
    if okw and all(q.reaches(intr, s, w) for s in st for w in wake):
        chk.ok("C14.T6", intr, "flag stored before the poll is woken", intr.where(wake[0]), "ORD", evals=2)
    else:
        chk.bad("C14.T6", intr, "wake-before-flag", "%s:%s" % (intr.file, intr.line), "interrupt() must store _interrupted before _sockets.interrupt(): run() woken first finds no flag and goes back to sleep")
    rets = [i for i, n in enumerate(run_.nodes) if n["k"] == "ReturnStmt"]
    brk = [b for b in run_.blocks.values() if b.get("cond") is not None and re.search(r"_sockets\.poll\(", fin.key(run_, b["cond"]))]
    okr = True
    for r in rets:
        atoms = fin.dominating_atoms(run_, run_.node_pos(r))
        cons = [s.node for s in q.stores(run_) if run_.r(s.lhs) == "this->_interrupted" and fin.eval_expr(run_, s.rhs, {}) == 0]
        if not (any(a[0] != "case" and a[1] and fin.key(run_, a[0]) == "this->_interrupted" for a in atoms) and cons and q.precedes_always(run_, cons, r)):
            okr = False
    if okr and rets and brk:
        chk.ok("C14.T6", run_, "run() returns only after consuming _interrupted (or when poll fails)", run_.where(rets[0]), "dominating atoms", evals=len(rets) + 1)
    else:
        chk.bad("C14.T6", run_, "run-exit-condition", "%s:%s" % (run_.file, run_.line), "run() must return exactly when it consumed the interrupt flag (set to false under the mutex) or poll failed")
    # ------------------------------------------------------------------ T7
    from .server_common import io_outcomes
    for nm, prim in (("ClientImpl::write", "Socket::send"), ("ClientImpl::read", "Socket::recv")):
        f = sfn(prog, P + nm)
        tab = io_outcomes(f, prim)
        if tab is not None and tab["closed"][0] and tab["error"][0]:
            chk.ok("C14.T7", f, "%s: a closed or failed connection queues the client for onClosed" % nm, "%s:%s" % (f.file, f.line), "decision table (guard-directed walk)", evals=2)
        else:
            chk.bad("C14.T7", f, "failure-without-deferred-close", "%s:%s" % (f.file, f.line), "%s must append the client to _closingClients when send/recv reports a closed connection or an error" % nm)
    loop = [c for c, root, t in callback_calls(run_) if "onClosed" in t and root is not None]
    pops = [c for c in q.calls(run_) if re.search(r"_closingClients\.removeFront\(\)", run_.r(c))]
    inloop = [c for c in loop if any(q.precedes_always(run_, pops, c) and q.reaches(run_, p, c) for p in pops)]
    if inloop:
        chk.ok("C14.T7", run_, "closing loop pops the client before calling onClosed", run_.where(inloop[0]), "ORD", evals=2)
    else:
        chk.bad("C14.T7", run_, "closing-loop-order", "%s:%s" % (run_.file, run_.line), "the closing loop must remove the client from _closingClients before onClosed() (the callback usually removes the client)")
    # the drain arm of run(): decision table over the result classes of send (no assumption about switch / if shape)
    tabd = io_outcomes(run_, "Socket::send")
    if tabd is not None and tabd["closed"][0] and tabd["error"][0] and not tabd["would-block"][0] and not tabd["partial"][0] and not tabd["full"][0]:
        chk.ok("C14.T7", run_, "failed drain delivers onClosed (closed and error outcomes only)", "%s:%s" % (run_.file, run_.line), "decision table (guard-directed walk)", evals=5)
    else:
        chk.bad("C14.T7", run_, "drain-failure-without-close", "%s:%s" % (run_.file, run_.line),
                "a failed send in the write-ready arm must be followed by onClosed(), and only a failed one (table: %s)" % (
                    {k: v[0] for k, v in (tabd or {}).items()}))
    # ------------------------------------------------------------------ T8
    for f in (sfn(prog, P + "Private"), sfn(prog, P + "clear")):
        ins0 = [c for c in q.calls(f) if re.search(r"_queuedTimers\.insert\(0, 0\)", q.no_casts(f.r(c)).replace("(Server::Private::TimerImpl *)", ""))]
        clr = [c for c in q.calls(f) if re.search(r"_queuedTimers\.clear\(\)", f.r(c))]
        ok = bool(ins0) and q.must_pass_from_entry(f, ins0) is None and all(q.reaches(f, c, i) for c in clr for i in ins0)
        if ok:
            chk.ok("C14.T8", f, "default timer inserted", f.where(ins0[0]), "on every path%s" % (", after the queue is cleared" if clr else ""), evals=2)
        else:
            chk.bad("C14.T8", f, "default-timer-missing", "%s:%s" % (f.file, f.line), "%s must leave the default (null) timer in _queuedTimers: run() reads _queuedTimers.begin().key() unconditionally" % f.short)
    re_ins = [c for c in q.calls(run_) if re.search(r"_queuedTimers\.insert\(\(now \+ ", q.no_casts(run_.r(c)))]
    ok = bool(re_ins) and all(any(a[0] != "case" and not a[1] and fin.key(run_, a[0]) == "timer" for a in fin.dominating_atoms(run_, run_.node_pos(c))) for c in re_ins)
    if ok:
        chk.ok("C14.T8", run_, "default timer re-inserted when it fires", run_.where(re_ins[0]), "on the null-timer edge", evals=2)
    else:
        chk.bad("C14.T8", run_, "default-timer-not-requeued", "%s:%s" % (run_.file, run_.line), "when the default (null) timer fires it must be re-inserted, else the queue can become empty and begin().key() reads the sentinel")

    # ------------------------------------------------------------------ T9: "a client that is writable with a backlog is eventually dispatched"
    # needs the client to stay registered for write readiness whenever it has a backlog (and for read readiness unless suspended): the
    # registration table of C13.d decides that clause as well
    from . import c13
    c13.run(prog, Only(chk, "C13.d", "C14.T9"))
    backlinks_cleared_before_removal(prog, chk, "C14.T10")
    event_translation_tables(prog, chk, "C14.T11")
    poll_failure_not_on_eintr(prog, chk, "C14.T12")
    timer_key_is_execution_time(prog, chk, "C14.T13")
    # the set of clients whose onClosed is pending is a HashSet (anchored here): a node dropped from its bucket chain while still on
    # the list makes remove() a silent no-op - the removed client is still called back - or keeps a later client from being queued
    from .. import containers as _C
    # the timer queue is a MultiMap (anchored here): a child link without the matching parent pointer makes a later removal cut a
    # subtree out of the search tree - timers stay on the list but re-queued ones are positioned wrongly: due timers starve
    _C.parent_pairing(prog, chk, "C14.T17", ("MultiMap",))
    _C.link_idiom(prog, chk, "C14.T15", ("HashSet",))
    _C.unlink_idiom(prog, chk, "C14.T16", ("HashSet",))
    from . import c13 as _c13
    _c13.backlog_creation_registers_write(prog, chk, "C14.T14")      # writable-with-backlog is dispatched only if the backlog's creation registered it


def backlinks_cleared_before_removal(prog, chk, rid):
    """A pending host-name resolution and its establisher point at each other (Resolver::establisher, EstablisherImpl::resolver).  The
    pools hand removed slots out again: whichever of the two goes first has to clear the other side's pointer, otherwise the survivor
    later writes through it into a slot that belongs to somebody else (and detaches that one's resolution - it is never dispatched)."""
    chk.rule(rid, "PAIRF/MPT: every path to `_resolvers.remove(r)` on which r.establisher is not known null stores 0 into that "
                  "establisher's `resolver`; every path to `_establishers.remove(e)` on which e.resolver is not known null stores 0 "
                  "into that resolver's `establisher`", floor=2)
    n = 0
    for f in [g for g in prog.functions.values() if g.gname.startswith(P) and g.blocks and g.file.endswith("Server.cpp")]:
        for c in q.calls(f):
            callee = f.nodes[c].get("callee") or ""
            o = q.call_object(f, c)
            if not callee.endswith("::remove") or o is None:
                continue
            pool = q.no_casts(f.r(o))
            if pool == "this->_resolvers":
                link, back = "establisher", "resolver"
            elif pool == "this->_establishers":
                link, back = "resolver", "establisher"
            else:
                continue
            args = q.call_args(f, c)
            if not args:
                continue
            n += 1
            obj = q.no_casts(f.r(args[0])).strip("()")
            objs = {obj, q.no_casts(q.xr(f, args[0])).strip("()")}       # the object as written and with reference locals followed
            alt = "|".join(re.escape(o_) for o_ in sorted(objs))
            lk = re.compile(r"^\(?\*?(%s)\)?(\.|->)%s$" % (alt, link))
            # edges on which the link is known null need no clearing
            cut = set()
            for b_ in f.blocks.values():
                if b_.get("cond") is None or len(b_["succ"]) != 2 or b_.get("tk") == "SwitchStmt":
                    continue
                for truth, null_succ in ((True, 1), (False, 0)):
                    x_ = fin.nonzero_operand(f, b_["cond"], truth)       # non-zero on this edge: the other edge is the null edge
                    if x_ is not None and b_["succ"][null_succ] is not None and \
                       (lk.match(q.no_casts(f.r(x_))) or lk.match(q.no_casts(q.xr(f, x_)).strip("()"))):
                        cut.add((b_["id"], b_["succ"][null_succ]))
            clears = [s_.node for s_ in q.stores(f) if s_.op == "=" and s_.rhs is not None and q.is_zero(f, s_.rhs) and
                      re.search(r"(\.|->)%s$" % back, q.no_casts(f.r(s_.lhs))) and
                      re.search(r"(^|[^\w>.])\*?\(?(%s)\)?(\.|->)%s(\W|$)" % (alt, link), q.no_casts(q.xr(f, f.nodes[s_.lhs]["c"][0])) + " ")]
            path = fin.path_with_cuts(f, f.entry_pos(), f.node_pos(c), avoid=q.pos_of(f, clears), cut=cut, after_src=False)
            if path is None:
                chk.ok(rid, f, "%s.remove(%s): the other side's `%s` is cleared first (or `%s` is null)" % (pool, obj, back, link), f.where(c),
                       "no path to the removal avoids the clearing store and the null edges", evals=2)
            else:
                chk.bad(rid, f, "backlink-not-cleared:" + back, f.where(c),
                        "`%s` is released on a path (lines %s) that leaves the `%s` pointer of its %s pointing at it: the pool hands the slot "
                        "out again, and when the survivor is removed it writes through the stale pointer into the new owner - that "
                        "owner's resolution result is dropped and its onConnected/onAbolished never comes" % (
                            obj, f.path_lines(path)[-8:], back, link), f.path_lines(path), evals=2)
    if n < 2:
        raise AnalysisBroken("removals from _resolvers / _establishers: %d found, 2 expected" % n)


def event_translation_tables(prog, chk, rid):
    """Between the registered interest set (read/write/accept/connect flags) and epoll's event bits stand two small functions.
    Evaluated over every interest set and every combination of native bits: what is reported lies inside what was registered, a
    readable socket registered for reading is reported readable (likewise writable), and registration asks epoll for the matching bit."""
    from .c13 import flag
    chk.rule(rid, "FIN: Poll::Private::mapEvents / unmapEvents (epoll) evaluated over all 16 interest sets x 32 native bit sets: "
                  "unmap(native, set) is a subset of set; EPOLLIN (EPOLLOUT) with a read/accept (write/connect) interest is reported; "
                  "map(set) contains EPOLLIN (EPOLLOUT) exactly when set has a read/accept (write/connect) flag", floor=2)
    RF, WF, AF, CF = (flag(None, prog, n_) for n_ in ("readFlag", "writeFlag", "acceptFlag", "connectFlag"))
    IN, OUT, ERR, HUP, RDHUP = 0x001, 0x004, 0x008, 0x010, 0x2000
    ms = [f for f in prog.functions.values() if f.gname == "Socket::Poll::Private::mapEvents" and f.blocks and "unsigned int" in (f.d.get("ret") or "")]
    us = [f for f in prog.functions.values() if f.gname == "Socket::Poll::Private::unmapEvents" and f.blocks and f.params and "unsigned int" in f.params[0]["t"]]
    if not ms or not us:
        raise AnalysisBroken("epoll variants of Poll::Private::mapEvents / unmapEvents not found")
    sets = [a | b | c | d for a in (0, RF) for b in (0, WF) for c in (0, AF) for d in (0, CF)]
    m = ms[0]
    bad = None
    for ev in sets:
        seen, end, fv = fin.walk_vals(m, m.entry, {m.params[0]["n"]: ev}, limit=100)
        got = fin.eval_expr(m, m.nodes[end]["c"][0], fv) if isinstance(end, int) and m.nodes[end]["c"] else None
        if got is None:
            bad = "map(%#x) could not be evaluated" % ev
            break
        if got & (0x80000000 | 0x40000000):
            bad = "an interest set %#x is registered %s: the loop serves one kind of readiness per event and relies on the other being " \
                  "reported again (level-triggered) - a backlog whose write event coincided with a read is never drained" % (
                      ev, "edge-triggered (EPOLLET)" if got & 0x80000000 else "one-shot (EPOLLONESHOT)")
            break
        if bool(got & IN) != bool(ev & (RF | AF)) or bool(got & OUT) != bool(ev & (WF | CF)):
            bad = "an interest set %#x is registered with the native bits %#x: %s" % (
                ev, got, "EPOLLIN missing/extra" if bool(got & IN) != bool(ev & (RF | AF)) else "EPOLLOUT missing/extra")
            break
    where = "%s:%s" % (m.file, m.line)
    if bad:
        chk.bad(rid, m, "event-map-table", where, "Poll::mapEvents: %s - a socket is never (or always) reported for a kind of readiness it is (not) registered for" % bad, evals=16)
    else:
        chk.ok(rid, m, "mapEvents: EPOLLIN iff read/accept, EPOLLOUT iff write/connect for 16 interest sets", where, "evaluation", evals=16)
    u = us[0]
    bad = None
    n_ev = 0
    for ev in sets:
        for nat in [a | b | c | d | e for a in (0, IN) for b in (0, OUT) for c in (0, ERR) for d in (0, HUP) for e in (0, RDHUP)]:
            seen, end, fv = fin.walk_vals(u, u.entry, {u.params[0]["n"]: nat, u.params[1]["n"]: ev}, limit=100)
            n_ev += 1
            got = fin.eval_expr(u, u.nodes[end]["c"][0], fv) if isinstance(end, int) and u.nodes[end]["c"] else None
            if got is None:
                bad = "unmap(%#x, %#x) could not be evaluated (%s)" % (nat, ev, end)
            elif got & ~ev:
                bad = "native bits %#x on a socket registered for %#x are reported as %#x: an event kind it is not registered for" % (nat, ev, got)
            elif (nat & IN) and (ev & (RF | AF)) and (got & (RF | AF)) != (ev & (RF | AF)):
                bad = "EPOLLIN on a socket registered for %#x is reported as %#x: the readable socket is not dispatched" % (ev, got)
            elif (nat & OUT) and (ev & (WF | CF)) and (got & (WF | CF)) != (ev & (WF | CF)):
                bad = "EPOLLOUT on a socket registered for %#x is reported as %#x: the writable socket is not dispatched" % (ev, got)
            if bad:
                break
        if bad:
            break
    where = "%s:%s" % (u.file, u.line)
    if bad:
        chk.bad(rid, u, "event-unmap-table", where, "Poll::unmapEvents: %s" % bad, evals=n_ev)
    else:
        chk.ok(rid, u, "unmapEvents: result inside the registered set, EPOLLIN/EPOLLOUT reported, for %d combinations" % n_ev, where, "evaluation", evals=n_ev)


def poll_failure_not_on_eintr(prog, chk, rid):
    """Server::run leaves its loop when Poll::poll reports failure - "run() never returns otherwise" than by interrupt().  A wait that
    was merely interrupted by a signal (EINTR, never restarted for epoll_wait / poll) is not a failure: every `return false` of poll()
    has to lie behind a test that tells EINTR from a real error."""
    chk.rule(rid, "DOM: in Socket::Poll::Private::poll a `return false` is reached only where a dominating test has excluded errno == EINTR "
                  "(an interrupted wait is an empty round, not the end of the event loop)", floor=1)
    fs = [f for f in prog.functions.values() if f.gname == "Socket::Poll::Private::poll" and f.blocks]
    if not fs:
        raise AnalysisBroken("Socket::Poll::Private::poll not found")
    for f in fs:
        where = "%s:%s" % (f.file, f.line)
        waits = [c for c in q.calls(f) if (f.nodes[c].get("callee") or "") in ("epoll_wait", "poll", "ppoll", "epoll_pwait", "select")]
        if not waits:
            continue
        rets = [i for i, n in enumerate(f.nodes) if n["k"] == "ReturnStmt" and n["c"] and f.node_pos(i) is not None and fin.eval_expr(f, n["c"][0], {}) == 0]
        if not rets:
            chk.ok(rid, f, "poll() never reports failure", where, "no `return false`", nontrivial=False)
            continue
        for r in rets:
            atoms = [a for a in fin.dominating_atoms(f, f.node_pos(r)) if a[0] != "case"]
            excl = False
            for a in atoms:
                k_ = fin.key(f, a[0])
                if "__errno_location" in k_ or "errno" in k_:
                    v4 = fin.eval_expr(f, a[0], {"*__errno_location()": 4})
                    if v4 is not None and bool(v4) != bool(a[1]):
                        excl = True
            if excl:
                chk.ok(rid, f, "failure reported only for errors other than EINTR", f.where(r), "dominating errno test", evals=len(atoms) + 1)
            else:
                chk.bad(rid, f, "poll-fails-on-interrupted-wait", f.where(r),
                        "`return false` is reached without a test that excludes errno == EINTR: a signal delivered to the loop thread makes "
                        "the wait return -1, poll() reports failure and Server::run() returns although nobody called interrupt() - timers and "
                        "sockets stop being served", evals=len(atoms) + 1)


def timer_key_is_execution_time(prog, chk, rid):
    """remove(TimerImpl&) looks its queue entry up under `timer.executionTime`: the key a timer is queued under has to be that very
    value - the field itself, or one local that is stored into the field as well.  Two readings of the clock are two values."""
    chk.rule(rid, "KEY: every `_queuedTimers.insert(key, timer)` with a non-null timer uses the timer's executionTime as key: the field itself "
                  "or a local that a dominating store put into that field (never a second evaluation of an expression that contains a call)", floor=2)
    n = 0
    for f in [g for g in prog.functions.values() if g.gname.startswith(P) and g.blocks and g.file.endswith("Server.cpp")]:
        defs = q.local_defs(f)
        for c in q.calls(f):
            o = q.call_object(f, c)
            if not (f.nodes[c].get("callee") or "").endswith("::insert") or o is None or q.no_casts(f.r(o)) != "this->_queuedTimers":
                continue
            args = q.call_args(f, c)
            if len(args) != 2 or q.is_zero(f, args[1]):
                continue        # the default timeout entry carries no timer
            n += 1
            tv = q.no_casts(q.xr(f, args[1], defs)).lstrip("&").strip("()")
            key = q.no_casts(f.r(args[0])).strip("()")
            want = set(x % tv for x in ("%s.executionTime", "%s->executionTime", "(*%s).executionTime"))
            tv_raw = q.no_casts(f.r(args[1])).lstrip("&").strip("()")
            want |= set(x % tv_raw for x in ("%s.executionTime", "%s->executionTime"))
            ok = key in want or q.no_casts(q.xr(f, args[0], defs)).strip("()") in want
            if not ok:
                kn = f.nodes[f.strip(args[0])]
                if kn["k"] == "DeclRefExpr" and kn["ref"].get("dk") in ("local", "parm"):
                    # a local: some dominating store puts this same local into the timer's field (or it was read from the field)
                    for s_ in q.stores(f):
                        if q.no_casts(f.r(s_.lhs)).strip("()") in want and s_.rhs is not None and q.no_casts(f.r(s_.rhs)).strip("()") == key and \
                           f.dominates_pos(f.node_pos(s_.node), f.node_pos(c)):
                            ok = True
                    ini = q.single_def(f, kn["ref"]["id"], defs)
                    if ini is not None and q.no_casts(f.r(ini)).strip("()") in want:
                        ok = True
                    # ... or the same local was handed to the call that created the timer (its constructor stores it as the due time)
                    tn_ = f.nodes[f.strip(args[1])]
                    while tn_["k"] in ("UnaryOperator", "CStyleCastExpr", "ImplicitCastExpr", "ParenExpr") and tn_["c"]:
                        nx_ = f.strip(tn_["c"][0])
                        tn_ = f.nodes[nx_] if nx_ != tn_["i"] else f.nodes[tn_["c"][0]]
                    if tn_["k"] == "DeclRefExpr" and tn_["ref"].get("dk") == "local" and ini is not None:
                        mk = q.single_def(f, tn_["ref"]["id"], defs)
                        if mk is not None and any(f.nodes[x]["k"] == "DeclRefExpr" and f.nodes[x]["ref"].get("id") == kn["ref"]["id"] for x in f.desc(mk)) and \
                           any(f.nodes[x]["k"] in ("CallExpr", "CXXMemberCallExpr") for x in [f.strip(mk)] + list(f.desc(mk))):
                            ok = True
            if ok:
                chk.ok(rid, f, "queued under the timer's executionTime", f.where(c), key[:40], evals=1)
            else:
                chk.bad(rid, f, "timer-queued-under-other-key", f.where(c),
                        "`%s` queues the timer under `%s`, which is not (provably) the value of its executionTime: remove() searches the queue "
                        "under executionTime, misses the entry, the timer's slot is freed and the stale queue entry keeps calling "
                        "onActivated() on it" % (q.no_casts(f.r(c))[:60], key[:40]), evals=1)
    if n < 2:
        raise AnalysisBroken("insertions of timers into _queuedTimers: %d found, 2 expected" % n)
