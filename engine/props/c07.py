"""C07 — Variant keeps the last assigned value with independent lazy copies."""
from .. import q
from .. import refcount as R
from . import c04_alias
from .. import containers as C

EXPLANATION = (
    "Tag/ownership rules over every member of class Variant: (a) the tag<->payload-type table is read from the allocating "
    "constructors; every cast of the payload area is dominated by a test for the matching tag (finite valuation of the dominating "
    "guards over all tags) and clear() destroys every allocated tag with the matching destructor; (b) mutable accessors and the "
    "container/String assignment operators reach the current payload only for reference count <= 1 and matching tag (valuations ref "
    "in {0,1,2,3} x all tags); (c) clones are constructed in the freshly allocated block; (d) no built-in pointer comparison of class "
    "operands behind implicit conversions; (e) release/share idioms of the reference count; (f) copy assignment is guarded against "
    "self-assignment. Not decided: the coercion tables and equality over all value pairs (value-level).")


def pointer_compare_of_class_operands(prog, chk, rid):
    chk.rule(rid, "AST: in Variant's members no `==`/`!=` is a built-in pointer comparison whose operands are class objects converted by "
                  "a user-defined conversion (that compares storage addresses, not values)", floor=1)
    n_cmp = 0
    for f in prog.functions.values():
        if f.clsq != "Variant":
            continue
        for i, n in enumerate(f.nodes):
            if n["k"] != "BinaryOperator" or n["op"] not in ("==", "!="):
                continue
            n_cmp += 1
            convs = []
            for c in n["c"]:
                x = c
                while x >= 0 and f.nodes[x]["k"] in ("ImplicitCastExpr", "ParenExpr", "ExprWithCleanups", "MaterializeTemporaryExpr", "CXXBindTemporaryExpr"):
                    if f.nodes[x].get("ck") == "UserDefinedConversion":
                        convs.append(f.nodes[x].get("conv", "?"))
                    x = f.nodes[x]["c"][0] if f.nodes[x]["c"] else -1
            if len(convs) == 2 and f.nodes[f.strip(n["c"][0])].get("t", "").endswith("*") is False:
                chk.bad(rid, f, "pointer-comparison-of-class-operands", f.where(i),
                        "`%s` compares two class objects through %s: the result is address equality of their storage, not value equality" % (f.r(i)[:70], convs[0]))
            elif len(convs) == 2:
                chk.bad(rid, f, "pointer-comparison-of-class-operands", f.where(i),
                        "`%s` compares two class objects through %s: address equality, not value equality" % (f.r(i)[:70], convs[0]))
    chk.ok(rid, "Variant", "%d built-in comparisons in Variant members inspected" % n_cmp, "", "no pair of user-defined conversions", evals=max(1, n_cmp))


def run(prog, chk):
    chk.extra["explanation"] = EXPLANATION
    R.tag_casts(prog, chk, "C07.a", ("Variant",), floor=15)
    R.exclusive_guard(prog, chk, "C07.b", ("Variant",), floor=8)
    R.clone_into_fresh(prog, chk, "C07.c", ("Variant",), floor=8)
    pointer_compare_of_class_operands(prog, chk, "C07.d")
    R.release_idiom(prog, chk, "C07.e1", ("Variant",), floor=4)
    R.share_idiom(prog, chk, "C07.e2", ("Variant",), floor=4)
    R.acquire_before_release(prog, chk, "C07.f", ("Variant",), floor=1)
