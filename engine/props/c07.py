"""C07 — Variant keeps the last assigned value with independent lazy copies."""
import re
from .. import q, fin
from ..facts import AnalysisBroken
from .. import refcount as R
from . import c04_alias
from .. import containers as C

EXPLANATION = (
    "Tag/ownership rules over every member of class Variant: (a) the tag<->payload-type table is read from the allocating "
    "constructors; every cast of the payload area is dominated by a test for the matching tag (finite valuation of the dominating "
    "guards over all tags) and clear() destroys every allocated tag with the matching destructor; (b) mutable accessors and the "
    "container/String assignment operators reach the current payload only for reference count <= 1 and matching tag (valuations ref "
    "in {0,1,2,3} x all tags); (c) clones are constructed in the freshly allocated block; (d) no built-in pointer comparison of class "
    "operands behind implicit conversions; (e) release/share idioms of the reference count; (f) copy assignment is guarded against "
    "self-assignment. Not decided: the coercion tables and equality over all value pairs (value-level).")


def pointer_compare_of_class_operands(prog, chk, rid):
    chk.rule(rid, "AST: in Variant's members no `==`/`!=` is a built-in pointer comparison whose operands are class objects converted by "
                  "a user-defined conversion (that compares storage addresses, not values)", floor=1)
    n_cmp = 0
    for f in prog.functions.values():
        if f.clsq != "Variant":
            continue
        for i, n in enumerate(f.nodes):
            if n["k"] != "BinaryOperator" or n["op"] not in ("==", "!="):
                continue
            n_cmp += 1
            convs = []
            for c in n["c"]:
                x = c
                while x >= 0 and f.nodes[x]["k"] in ("ImplicitCastExpr", "ParenExpr", "ExprWithCleanups", "MaterializeTemporaryExpr", "CXXBindTemporaryExpr"):
                    if f.nodes[x].get("ck") == "UserDefinedConversion":
                        convs.append(f.nodes[x].get("conv", "?"))
                    x = f.nodes[x]["c"][0] if f.nodes[x]["c"] else -1
            if len(convs) == 2 and f.nodes[f.strip(n["c"][0])].get("t", "").endswith("*") is False:
                chk.bad(rid, f, "pointer-comparison-of-class-operands", f.where(i),
                        "`%s` compares two class objects through %s: the result is address equality of their storage, not value equality" % (f.r(i)[:70], convs[0]))
            elif len(convs) == 2:
                chk.bad(rid, f, "pointer-comparison-of-class-operands", f.where(i),
                        "`%s` compares two class objects through %s: address equality, not value equality" % (f.r(i)[:70], convs[0]))
    chk.ok(rid, "Variant", "%d built-in comparisons in Variant members inspected" % n_cmp, "", "no pair of user-defined conversions", evals=max(1, n_cmp))


def scalar_tags(prog, chk, rid):
    """tag <-> union member agreement for the scalar alternatives"""
    chk.rule(rid, "TAG: the table tag -> union member is read from the scalar constructors; every access of a union member is dominated by a test "
                  "for (or a store of) its tag, and operator== compares each member with the accessor of exactly its type", floor=30)
    fs = [f for f in prog.functions.values() if f.clsq == "Variant" and f.blocks]
    table = {}     # member -> tag
    for f in fs:
        if f.kind != "ctor" or len(f.params) != 1:
            continue
        tg, mem = None, None
        for s in q.stores(f):
            lt = q.no_casts(f.r(s.lhs))
            if lt == "this->_data.type":
                tg = fin.eval_expr(f, s.rhs, {})
            m = re.match(r"^this->_data\.data\.(\w+)$", lt)
            if m:
                mem = m.group(1)
        if tg is not None and mem is not None:
            table[mem] = tg
    if len(table) < 5:
        from ..facts import AnalysisBroken
        raise AnalysisBroken("scalar tag table of Variant could not be read from its constructors: %s" % table)
    tags = sorted(set(R._enum_values(prog, "Variant::").values()))
    for f in fs:
        for i, n in enumerate(f.nodes):
            if n["k"] != "MemberExpr" or n["m"] not in table or not n["c"]:
                continue
            base = q.no_casts(f.r(n["c"][0]))
            if base not in ("this->data->data", "this->_data.data"):
                continue
            want = table[n["m"]]
            pos = f.node_pos(i)
            where = f.where(i)
            if f.kind == "ctor":
                continue
            if base == "this->data->data":
                feas, opaque, atoms = fin.feasible_valuations(f, pos, {"this->data->type": tags})
                vals = sorted(set(v["this->data->type"] for v in feas))
                if vals == [want]:
                    chk.ok(rid, f, "data->data.%s read under tag %d" % (n["m"], want), where, "feasible tags %s" % vals, evals=len(tags))
                else:
                    chk.bad(rid, f, "union-member-read-under-other-tag:" + n["m"], where,
                            "`%s` is read while the tag may be %s; that member belongs to tag %d (the value of another alternative is reinterpreted)" % (f.r(i), vals[:6], want))
            else:
                # write into the inline descriptor: on every path the type is (tested or set to) the member's tag
                sets = [s2.node for s2 in q.stores(f) if q.no_casts(f.r(s2.lhs)) == "this->_data.type" and fin.eval_expr(f, s2.rhs, {}) == want]
                tests = set()
                for b in f.blocks.values():
                    c = b.get("cond")
                    if c is None or len(b["succ"]) != 2:
                        continue
                    k = fin.key(f, c)
                    mm = re.match(r"^\(this->data->type (==|!=) (.+)\)$", k)
                    if mm and fin.eval_expr(f, f.nodes[f.strip(c)]["c"][1], {}) == want:
                        e = b["succ"][0] if mm.group(1) == "==" else b["succ"][1]
                        if e is not None:
                            tests.add((e, 0))
                        continue
                    # the tag test kept in a bool local (`const bool typeChanges = data->type != boolType; if(typeChanges) ...`), or negated
                    if b.get("tk") == "SwitchStmt" or None in b["succ"]:
                        continue
                    defs_g = q.local_defs(f)
                    for kk in (0, 1):
                        ats = list(q.cond_atoms(f, c, kk == 0))
                        for an_, tr_ in list(ats):
                            xn_ = f.nodes[f.strip(an_)]
                            if xn_["k"] == "DeclRefExpr" and xn_["ref"].get("dk") == "local":
                                ini_ = q.single_def(f, xn_["ref"]["id"], defs_g)
                                if ini_ is not None:
                                    ats += list(q.cond_atoms(f, ini_, tr_))
                        for an_, tr_ in ats:
                            cn_ = f.nodes[f.strip(an_)]
                            if cn_["k"] == "BinaryOperator" and cn_.get("op") in ("==", "!=") and len(cn_["c"]) == 2 and \
                               "this->data->type" in [fin.key(f, x_) for x_ in cn_["c"]] and want in [fin.eval_expr(f, x_, {}) for x_ in cn_["c"]] and \
                               (cn_["op"] == "==") == bool(tr_):
                                tests.add((b["succ"][kk], 0))
                avoid = q.pos_of(f, sets) | tests
                pth = f.find_path(f.entry_pos(), {pos}, avoid=avoid, after_src=False)
                if pth is None and (sets or tests):
                    chk.ok(rid, f, "_data.data.%s written with tag %d established" % (n["m"], want), where, "type test or store on every path", evals=2)
                else:
                    chk.bad(rid, f, "union-member-written-under-other-tag:" + n["m"], where,
                            "`%s` is written on a path where the tag was neither tested nor set to %d: the Variant reports another type than the value it holds" % (f.r(i), want))
    # operator==: operand types agree
    eqs = [f for f in fs if f.short == "operator==" and len(f.params) == 1]
    for f in eqs:
        for i, n in enumerate(f.nodes):
            if n["k"] != "BinaryOperator" or n["op"] != "==":
                continue
            l, r = n["c"]
            ln = f.nodes[f.strip(l)]
            if not (ln["k"] == "MemberExpr" and ln["m"] in table):
                continue
            conv = []
            x = r
            while x >= 0 and f.nodes[x]["k"] in ("ImplicitCastExpr", "ParenExpr"):
                if f.nodes[x].get("ck") in ("IntegralCast", "IntegralToFloating", "FloatingToIntegral", "FloatingCast", "IntegralToBoolean"):
                    conv.append(f.nodes[x]["ck"])
                x = f.nodes[x]["c"][0] if f.nodes[x]["c"] else -1
            rt = f.nodes[x].get("t", "") if x >= 0 else ""
            if rt and rt != ln.get("t", "").replace("const ", ""):
                chk.bad(rid, f, "equality-operand-converted:" + ln["m"], f.where(i),
                        "`%s` compares the %s member with `%s` of type %s through an implicit %s: the other operand was narrowed by its accessor before "
                        "the comparison (a value outside that type's range never equals its own copy)" % (f.r(i)[:60], ln.get("t"), f.r(x)[:30], rt, conv or "conversion"))
            else:
                chk.ok(rid, f, "%s compared with the accessor of its own type (%s)" % (ln["m"], rt), f.where(i), "operand types agree, no implicit arithmetic conversion", evals=2)


def run(prog, chk):
    chk.extra["explanation"] = EXPLANATION
    scalar_tags(prog, chk, "C07.g")
    type_queries_by_tag(prog, chk, "C07.j")
    inline_descriptor_uncounted(prog, chk, "C07.k")
    R.tag_casts(prog, chk, "C07.a", ("Variant",), floor=15)
    R.exclusive_guard(prog, chk, "C07.b", ("Variant",), floor=8)
    R.clone_into_fresh(prog, chk, "C07.c", ("Variant",), floor=8)
    pointer_compare_of_class_operands(prog, chk, "C07.d")
    R.release_idiom(prog, chk, "C07.e1", ("Variant",), floor=4)
    R.share_idiom(prog, chk, "C07.e2", ("Variant",), floor=4)
    R.acquire_before_release(prog, chk, "C07.f", ("Variant",), floor=1)
    R.own_payload_after_release(prog, chk, "C07.h", fams=("Variant",), floor=8)
    R.argument_after_release(prog, chk, "C07.i", fams=("Variant",), floor=3)


def type_queries_by_tag(prog, chk, rid):
    """"A Variant reports the type and value it was last given": the tag is the one place that says which value is held.  getType()
    returns it, isNull() is `tag == nullType` - for every tag, wherever the descriptor lives (the shared null descriptor, the inline
    one a scalar assignment leaves behind, a heap block)."""
    from ..facts import AnalysisBroken
    chk.rule(rid, "FIN: Variant::isNull() / getType() (and the Xml::Variant counterparts) evaluated for every type tag: the answer is "
                  "determined by `data->type` alone - isNull() is true exactly for the null tag, getType() returns the tag", floor=2)
    n = 0
    for f in sorted(prog.functions.values(), key=lambda g: g.sig):
        if not f.blocks or f.clsq not in ("Variant", "Xml::Variant") or f.short not in ("isNull", "getType") or f.params:
            continue
        n += 1
        rets = [i for i, x in enumerate(f.nodes) if x["k"] == "ReturnStmt" and x["c"]]
        bad = None
        for tag in range(0, 11 if f.clsq == "Variant" else 3):
            seen, end, fv = fin.walk_vals(f, f.entry, {"this->data->type": tag}, limit=100)
            got = fin.eval_expr(f, f.nodes[end]["c"][0], fv) if isinstance(end, int) and f.nodes[end]["c"] else None
            if got is None:
                tx = q.no_casts(f.r(f.nodes[rets[0]]["c"][0]))[:50] if rets else "?"
                bad = (tag, "`%s` is not decided by the tag" % tx)
                break
            want = (tag == 0) if f.short == "isNull" else tag
            if int(got) != int(want):
                bad = (tag, "it answers %s, the tag says %s" % (got, want))
                break
        if bad:
            chk.bad(rid, f, "type-query-not-by-tag:" + f.short, "%s:%s" % (f.file, f.line),
                    "%s::%s() for the tag %d: %s - a Variant assigned from a null Variant holds the null tag in its inline descriptor and "
                    "then reports getType() == nullType but isNull() == false (and compares unequal to its own copy)" % (f.clsq, f.short, bad[0], bad[1]), evals=11)
        else:
            chk.ok(rid, f, "%s() decided by the tag for every tag" % f.short, "%s:%s" % (f.file, f.line), "evaluation over the tag values", evals=11)
    if n < 2:
        raise AnalysisBroken("Variant::isNull / getType not found")


def inline_descriptor_uncounted(prog, chk, rid):
    """copies tell a shared heap block from the inline descriptor by `ref`: non-zero means "share the block".  Whenever a Variant
    switches to its inline descriptor `_data`, ref has to be written as 0 along with the type - `_data` holds whatever the storage
    contained when the Variant was born as a string / list / map, and a copy of such a Variant would otherwise point INTO the original."""
    chk.rule(rid, "PAIRF: every path through a store `data = &_data` (or the constructor initialiser data(&_data)) also writes `_data.ref` with "
                  "0 - by `_data.ref = 0`, or by assigning the whole descriptor from a block known uncounted (`ref` tested false)", floor=12)
    n = 0
    for f in sorted([f for f in prog.functions.values() if (f.clsq or "") == "Variant" and f.blocks], key=lambda g: g.sig):
        sites = [(s_.node, f.node_pos(s_.node)) for s_ in q.stores(f) if q.no_casts(f.r(s_.lhs)) == "this->data" and s_.rhs is not None and
                 q.no_casts(f.r(s_.rhs)) == "&this->_data" and s_.node is not None and f.node_pos(s_.node) is not None]
        for ini in f.d.get("inits", []) or []:
            if ini.get("field") == "data" and "_data" in q.no_casts(f.r(ini["e"])) and q.no_casts(f.r(ini["e"])).startswith("&"):
                sites.append((None, f.entry_pos()))
        if not sites:
            continue
        zero = [s_.node for s_ in q.stores(f) if q.no_casts(f.r(s_.lhs)) == "this->_data.ref" and s_.rhs is not None and fin.eval_expr(f, s_.rhs, {}) == 0]
        whole = []
        for i, nd in enumerate(f.nodes):
            if nd["k"] in ("CXXOperatorCallExpr", "BinaryOperator") and (nd.get("oop") or nd.get("op")) == "=" and f.node_pos(i) is not None:
                lhs = nd["c"][1] if nd["k"] == "CXXOperatorCallExpr" and len(nd["c"]) == 3 else nd["c"][0] if nd["c"] else None
                if lhs is None or q.no_casts(f.r(lhs)) != "this->_data":
                    continue
                at = fin.dominating_atoms(f, f.node_pos(i))
                if any(a[0] != "case" and not a[1] and re.search(r"->ref$", fin.key(f, a[0])) for a in at) or \
                   any(a[0] != "case" and fin.null_test(f, a[0]) is not None and re.search(r"->ref$", fin.null_test(f, a[0])[0]) and
                       (fin.null_test(f, a[0])[1] == 0) == bool(a[1]) for a in at):
                    whole.append(i)
        W = q.pos_of(f, zero + whole)
        for node, pos in sites:
            n += 1
            through_entry = node is None
            ok = bool(W) and (f.find_path(f.entry_pos(), {f.exit_pos()}, avoid=W, after_src=False) is None if through_entry else C.paths_all_pass(f, pos, W))
            where = f.where(node) if node is not None else "%s:%s" % (f.file, f.line)
            if ok:
                chk.ok(rid, f, "switch to the inline descriptor writes ref = 0", where, "%d zero store(s), %d whole-descriptor copy(ies) from an uncounted block" % (len(zero), len(whole)), evals=len(W) + 1)
            else:
                chk.bad(rid, f, "inline-descriptor-ref-not-reset", where,
                        "%s makes `data` point at the inline descriptor on a path that does not write `_data.ref = 0`: `_data` still holds what the "
                        "storage contained (a Variant born as string/list/map never initialised it), a non-zero ref makes the next copy share - i.e. "
                        "point into - this Variant instead of taking its own value" % f.name, evals=len(W) + 1)
    if n < 12:
        raise AnalysisBroken("C07.k: only %d switches to the inline descriptor found in Variant" % n)
