"""C05 — elements of node and pool containers never move while they live."""
from .. import containers as C
from . import wit

EXPLANATION = (
    "Who-may-relocate rules over the seven node/pool container templates: only the destructor frees node blocks (WHO); every "
    "placement-new targets a slot fresh from the free list (DOM); no member assigns one node's payload from another's (WHO on "
    "payload stores); swap hands all ownership fields over in both directions and re-anchors the sentinels without constructing "
    "or destroying (WHO+FIN); pool containers instantiate every member for a non-copyable element type and cannot be copied "
    "themselves (compile witnesses); the pool remove derives the node from the element address consistently with the Item "
    "layout. Not decided: that a particular re-found address equals the recorded one in every history (needs shape invariants).")


def run(prog, chk):
    chk.extra["explanation"] = EXPLANATION
    C.free_only_in_dtor(prog, chk, "C05.a")
    C.construct_targets(prog, chk, "C05.b")
    C.payload_moves(prog, chk, "C05.c")
    C.swap_handover(prog, chk, "C05.d")
    wit.pool_noncopyable(prog, chk, "C05.e")
    C.pool_layout(prog, chk, "C05.f")
    # tree removals and rotations relink nodes instead of moving payloads: every relinked child keeps a correct parent pointer,
    # otherwise later relinks cut live nodes out of the tree (they stay in the list but are no longer reachable / get freed twice)
    C.parent_pairing(prog, chk, "C05.g", ("Map", "MultiMap"))
    C.unlink_idiom(prog, chk, "C05.h", tuple(C.NODE))
    # a slot becomes reusable only after its element's destructor has run: an append made from inside that destructor (or any
    # re-entrant use) otherwise constructs a new element over the one being destroyed
    C.destroy_once(prog, chk, "C05.i", tuple(C.NODE))
    # clear() must not leave a table/list pointer to a recycled slot: the slot is handed out again while the stale pointer still designates it
    C.clear_resets(prog, chk, "C05.j", tuple(C.NODE))
    # a rotation that publishes its result into a copy of the slot cuts a live node out of the search tree: its address is still
    # valid, but find() no longer leads to it (the rule of C01.n decides this clause of C05 as well)
    from . import c01
    from .server_common import Only
    c01.slots_by_reference(prog, Only(chk, "C01.n", "C05.n"))
    # a node linked with a wrong back pointer is later unlinked wrongly: its slot is recycled while still reachable, two elements share an address
    C.link_idiom(prog, chk, "C05.k", tuple(C.NODE))
    C.self_assign_noop(prog, chk, "C05.l")
    # an insertion before begin() must not lose sight of the old first element: the position argument may be the container's own
    # _begin member, which the insertion re-seats (rule shared with C01.d4 / C02.g / C03.d)
    C.iterator_param_alias(prog, chk, "C05.m", tuple(C.NODE))
