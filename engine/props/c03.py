"""C03 — List, Array and PoolList hold exactly the reference sequence."""
from .. import containers as C
from . import wit, c04_alias

EXPLANATION = (
    "Structural necessary conditions for the sequence containers: every API member instantiates (compile witness), the "
    "link/unlink idioms write all four pointers, _begin and _size on every path and return the documented iterator (MPT), "
    "clear resets the list, swap hands over completely, Array keeps its storage discipline (reserve before placement-new, "
    "allocation sized by the stored capacity, shifting removal destroys exactly the last slot). Not decided: element-wise "
    "agreement with a reference sequence, List::sort's ordering (value-dependent).")

SEQ = ("List", "PoolList")


def run(prog, chk):
    chk.extra["explanation"] = EXPLANATION
    wit.members_instantiate(prog, chk, "C03.a", ("List", "Array", "PoolList"))
    if chk.viol:
        return   # a member does not instantiate: the path rules have no complete instantiation to look at
    c04_alias.array_rules(prog, chk, "C03.b")
    C.link_idiom(prog, chk, "C03.c1", SEQ)
    C.unlink_idiom(prog, chk, "C03.c2", SEQ)
    C.clear_resets(prog, chk, "C03.c3", SEQ)
    C.swap_handover(prog, chk, "C03.c4", ["List", "PoolList", "Array"])
    C.iterator_param_alias(prog, chk, "C03.d", SEQ)
