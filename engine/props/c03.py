"""C03 — List, Array and PoolList hold exactly the reference sequence."""
from .. import containers as C
from . import wit, c04_alias

EXPLANATION = (
    "Structural necessary conditions for the sequence containers: every API member instantiates (compile witness), the "
    "link/unlink idioms write all four pointers, _begin and _size on every path and return the documented iterator (MPT), "
    "clear resets the list, swap hands over completely, Array keeps its storage discipline (reserve before placement-new, "
    "allocation sized by the stored capacity, shifting removal destroys exactly the last slot). Not decided: element-wise "
    "agreement with a reference sequence, List::sort's ordering (value-dependent).")

SEQ = ("List", "PoolList")


def run(prog, chk):
    chk.extra["explanation"] = EXPLANATION
    wit.members_instantiate(prog, chk, "C03.a", ("List", "Array", "PoolList"))
    if chk.viol:
        return   # a member does not instantiate: the path rules have no complete instantiation to look at
    c04_alias.array_rules(prog, chk, "C03.b")
    C.link_idiom(prog, chk, "C03.c1", SEQ)
    C.unlink_idiom(prog, chk, "C03.c2", SEQ)
    C.clear_resets(prog, chk, "C03.c3", SEQ)
    C.swap_handover(prog, chk, "C03.c4", ["List", "PoolList", "Array"])
    C.iterator_param_alias(prog, chk, "C03.d", SEQ)
    index_guard(prog, chk, "C03.e")
    C.wrappers(prog, chk, "C03.w", ("List", "PoolList"))
    C.lockstep_equality(prog, chk, "C03.g", ("List",))
    sort_early_out(prog, chk, "C03.i")
    C.counting_against_moving_bound(prog, chk, "C03.j", SEQ + ("Array",))
    array_blocks_cover_capacity(prog, chk, "C03.k")
    first_match_search(prog, chk, "C03.l")
    effects_survive_ndebug(prog, chk, "C03.m")
    # `a.append(a)` / `l.append(l)` / `a.append(a[0])` are operation histories of this property as well: the argument is part of the
    # sequence that the operation reallocates or grows (rule shared with C04.e)
    c04_alias.alias_rules(prog, chk, "C03.h")
    C.self_assign(prog, chk, "C03.f", ("List", "Array"))


def index_guard(prog, chk, rid):
    """DOM: an element position computed from an integer parameter (`_begin.item + index`) is used for a write, a destruction or a
    shrink of the array only under a dominating test that places the index strictly below the current size."""
    import re
    from .. import q, fin
    chk.rule(rid, "DOM: in Array members that take an integer index and shrink the array by one element (removal by index), every modification of the array (`_end.item` update, element assignment, "
                  "destructor call) is dominated by `index < size()` with size = _end.item - _begin.item", floor=2)
    for tn, fs in sorted(C.class_insts(prog, "Array").items()):
        for f in fs:
            if f.cls != tn or f.d.get("const"):
                continue
            idx = [p for p in f.params if p["t"] in ("unsigned long", "usize", "unsigned int", "long", "int")
                   and any(n["k"] == "BinaryOperator" and n.get("op") == "+" and len(n["c"]) == 2 and q.no_casts(f.r(n["c"][0])) == "this->_begin.item"
                           and re.fullmatch(re.escape(p["n"]), q.no_casts(f.r(n["c"][1]))) for n in f.nodes)]
            shrink = [i for i, n in enumerate(f.nodes) if n["k"] == "UnaryOperator" and "--" in str(n.get("op")) and q.no_casts(f.r(n["c"][0])) == "this->_end.item"]
            shrink += [s.node for s in q.stores(f) if q.no_casts(f.r(s.lhs)) == "this->_end.item" and s.rhs is not None
                       and q.no_casts(f.r(s.rhs)).replace(" ", "") == "(this->_end.item-1)"]
            # removal by index may also be expressed through the iterator overload: the call then is the modification to guard
            deleg = [c for c in q.calls(f) if f.nodes[c]["k"] == "CXXMemberCallExpr" and f.nodes[c].get("callee", "").endswith("::remove")
                     and (q.call_object(f, c) is None or f.nodes[q.call_object(f, c)]["k"] == "CXXThisExpr")] if f.short == "remove" else []
            if not idx or not (shrink or deleg):
                continue     # only removal by index: the member shrinks the array by one element
            defs = q.local_defs(f)
            size_texts = ("(this->_end.item - this->_begin.item)", "this->size()")
            for p in idx:
                mods = [s.node for s in q.stores(f) if q.no_casts(f.r(s.lhs)) == "this->_end.item" or q.no_casts(f.r(s.lhs)).startswith("*")]
                mods += [i for i, n in enumerate(f.nodes) if n["k"] == "UnaryOperator" and "--" in str(n.get("op")) and q.no_casts(f.r(n["c"][0])) == "this->_end.item"]
                mods += [d for d, _o in C.dtor_events(f)]
                mods += deleg
                bad = None
                for m in sorted(set(mods)):
                    pos = f.node_pos(m)
                    if pos is None:
                        continue
                    ok = False
                    for a in fin.dominating_atoms(f, pos):
                        if a[0] == "case":
                            continue
                        n = f.nodes[f.strip(a[0])]
                        if n["k"] != "BinaryOperator" or len(n["c"]) != 2:
                            continue
                        l = q.no_casts(q.xr(f, n["c"][0], defs))
                        r = q.no_casts(q.xr(f, n["c"][1], defs))
                        op, truth = n["op"], a[1]
                        I = p["n"]
                        if (truth and ((op == "<" and l == I and r in size_texts) or (op == ">" and r == I and l in size_texts))) or \
                           (not truth and ((op == ">=" and l == I and r in size_texts) or (op == "<=" and r == I and l in size_texts))):
                            ok = True
                    if not ok:
                        bad = m
                        break
                if bad is not None:
                    chk.bad(rid, f, "array-modified-without-index-below-size:" + p["n"], f.where(bad),
                            "`%s` modifies the array although no dominating test establishes %s < size(): for %s == size() the slot behind the last "
                            "element is destroyed and the array loses its last element (size() wraps below zero on an empty array)"
                            % (f.r(bad)[:50], p["n"], p["n"]), evals=len(mods))
                else:
                    chk.ok(rid, f, "every modification under %s < size()" % p["n"], "%s:%s" % (f.file, f.line), "%d modifying sites, dominating comparison" % len(set(mods)), evals=max(1, len(set(mods))))


def sort_early_out(prog, chk, rid):
    """List::sort leaves without sorting only when there is nothing to sort.  Its early-out evaluated over lists of 0, 1, 2 and 3
    elements (begin / last / size as they are in those states): two or more elements must reach the sorting routine."""
    import re
    from .. import fin, q
    from ..facts import AnalysisBroken
    chk.rule(rid, "FIN: the early-out of List::sort evaluated for lists of 0..3 elements: a list of two or more elements reaches the "
                  "partitioning routine", floor=1)
    fs = [f for f in prog.functions.values() if f.gname == "List::sort" and f.blocks and not f.params]
    if not fs:
        raise AnalysisBroken("List::sort() not instantiated")
    for f in fs[:2]:
        where = "%s:%s" % (f.file, f.line)
        sorts = [c for c in q.calls(f) if re.search(r"::sort$", f.nodes[c].get("callee") or "") and f.nodes[c].get("callee") != f.name]
        if not sorts:
            raise AnalysisBroken("List::sort(): the call of the partitioning routine was not found")
        bad = None
        for n in (0, 1, 2, 3):
            END, FIRST = 900, 1000
            val = {"this->endItem.prev": 0 if n == 0 else FIRST + n - 1, "this->_begin.item": END if n == 0 else FIRST, "&this->endItem": END,
                   "this->_size": n, "this->isEmpty()": int(n == 0), "this->size()": n, "this->_end.item": END}
            seen, end, fv = fin.walk_vals(f, f.entry, val, limit=200, stop_at=sorts[0])
            reached = end == "stop"
            if isinstance(end, str) and end not in ("stop", "exit"):
                bad = (n, "its early-out depends on something else (%s)" % end)
                break
            if n >= 2 and not reached:
                bad = (n, "it returns without sorting")
                break
        if bad:
            chk.bad(rid, f, "sort-early-out", where,
                    "List::sort on a list of %d element(s): %s - the list [b, a] stays as it is, not the ascending permutation" % bad, evals=4)
        else:
            chk.ok(rid, f, "lists of 2 and 3 elements reach the partitioning routine", where, "early-out evaluated for 0..3 elements", evals=4)


def array_blocks_cover_capacity(prog, chk, rid):
    """Array trusts `_capacity`: append() constructs behind the last element without looking at the block as long as size < _capacity.
    Wherever a member other than reserve() allocates the element block itself (a constructor that allocates eagerly, a copy), the block
    has to hold at least as many elements as `_capacity` says when the member returns - evaluated for several argument values."""
    import re
    from .. import fin, q
    from ..facts import AnalysisBroken
    chk.rule(rid, "FIN: every Array member outside reserve() that allocates element storage leaves `_capacity` no larger than the number of "
                  "elements the block it allocated can hold (evaluated for argument values 0, 1, 4, 5, 7)", floor=0)
    n = 0
    for tn, fs in sorted(C.class_insts(prog, "Array").items()):
        for f in [g for g in fs if g.blocks and g.short != "reserve"]:
            news = [i for i, x in enumerate(f.nodes) if x["k"] == "CXXNewExpr" and x.get("arr") and "asize" in x and f.node_pos(i) is not None]
            if not news:
                continue
            unit = None
            for x in f.desc(f.nodes[news[0]]["asize"]):
                if f.nodes[x]["k"] == "UnaryExprOrTypeTraitExpr" and "cv" in f.nodes[x]:
                    unit = f.nodes[x]["cv"]
            ints = [p_["n"] for p_ in f.params if re.search(r"unsigned long|usize|int", p_.get("t") or "") and "*" not in (p_.get("t") or "") and "&" not in (p_.get("t") or "")]
            if not unit or not ints:
                continue
            n += 1
            inits = [w for w in q.field_writes(f, "_capacity", "this") if w.node is None and w.rhs is not None]      # constructor initialisers
            bad = None
            for v in (0, 1, 4, 5, 7):
                val = {p_: v for p_ in ints}
                val.update({"this->_capacity": 0, "this->_begin.item": 0, "this->_end.item": 0})
                for w in inits:
                    c0 = fin.eval_expr(f, w.rhs, val)
                    if c0 is not None:
                        val["this->_capacity"] = c0
                got = {}

                def trace(e, v_, _g=got):
                    if e in news:
                        _g["bytes"] = fin.eval_expr(f, f.nodes[e]["asize"], v_)
                seen, end, fv = fin.walk_vals(f, f.entry, val, limit=300, assume=lambda k_: 0, trace=trace)
                cap = fv.get("this->_capacity")
                if "bytes" not in got:
                    continue
                if got["bytes"] is None or cap is None:
                    bad = (v, "the block size or the capacity could not be evaluated")
                    break
                if got["bytes"] // unit < cap:
                    bad = (v, "a block for %d element(s) is allocated while _capacity becomes %d" % (got["bytes"] // unit, cap))
                    break
            if bad:
                chk.bad(rid, f, "capacity-exceeds-block", f.where(news[0]),
                        "%s(%d): %s - append() constructs up to _capacity elements without reallocating, the last ones behind the block" % (
                            f.short, bad[0], bad[1]), evals=5)
            else:
                chk.ok(rid, f, "block covers _capacity for 5 argument values", f.where(news[0]), "evaluation", evals=5)
    if not n:
        chk.ok(rid, "Array", "only reserve() allocates element storage (checked by C04.arr)", "", "scan of new-expressions", nontrivial=False)


def first_match_search(prog, chk, rid):
    """search and removal by value designate the FIRST equal element of the sequence (what the reference sequence removes): the search
    walks forward from the first element, and removal by value removes what that search found"""
    import re
    from .. import q
    from ..facts import AnalysisBroken
    chk.rule(rid, "ORD: List::find / Array::find walk forward from the first element (cursor started at _begin, stepped by next / ++), and "
                  "List::remove(const T&) removes the element such a search designates (delegation to find, or a forward walk of its own)", floor=3)
    n = 0
    for cls, short in (("List", "find"), ("Array", "find"), ("List", "remove")):
        for tn, fs in sorted(C.class_insts(prog, cls).items()):
            for f in fs:
                if f.cls != tn or f.short != short or len(f.params) != 1 or not f.blocks or "Iterator" in f.params[0]["t"] or \
                   f.params[0]["t"] in ("unsigned long", "usize"):
                    continue
                n += 1
                where = "%s:%s" % (f.file, f.line)
                v = f.params[0]["n"]
                if short == "remove":
                    fnd = [c for c in q.calls(f) if (f.nodes[c].get("callee") or "").endswith("::find") and
                           [q.no_casts(f.r(a)) for a in q.call_args(f, c)] == [v]]
                    rem = [c for c in q.calls(f) if (f.nodes[c].get("callee") or "").endswith("::remove")]
                    if fnd and any(q.no_casts(q.xr(f, q.call_args(f, c)[0])).startswith(q.no_casts(f.r(fnd[0]))[:20]) or f.r(fnd[0]) in q.xr(f, q.call_args(f, c)[0])
                                   for c in rem if q.call_args(f, c)):
                        chk.ok(rid, f, "removes what find(%s) designates" % v, f.where(fnd[0]), "delegation to the forward search", evals=2)
                        continue
                # a search of its own: every stepped cursor moves forward and starts at the first element
                back, fwd = [], []
                for st in q.stores(f):
                    if st.rhs is None or st.op != "=":
                        continue
                    l, r = q.no_casts(f.r(st.lhs)), q.no_casts(f.r(st.rhs))
                    ln = f.nodes[f.strip(st.lhs)]
                    if ln["k"] != "DeclRefExpr" or ln["ref"].get("dk") != "local":
                        continue
                    if r == l + "->prev" or r == l + ".item->prev" or re.fullmatch(r"\(?%s - 1\)?" % re.escape(l), r):
                        back.append(st.node)
                    elif r == l + "->next" or r == l + ".item->next" or re.fullmatch(r"\(?%s \+ 1\)?" % re.escape(l), r):
                        fwd.append(st.node)
                for i, nd in enumerate(f.nodes):
                    if nd["k"] in ("UnaryOperator", "CXXOperatorCallExpr") and (nd.get("op") or nd.get("oop")) in ("++", "--") and nd["c"]:
                        tgt = f.nodes[f.strip(nd["c"][-1] if nd["k"] == "CXXOperatorCallExpr" and len(nd["c"]) > 1 else nd["c"][0])]
                        if nd["k"] == "CXXOperatorCallExpr":
                            tgt = f.nodes[f.strip(nd["c"][1])] if len(nd["c"]) > 1 else tgt
                        is_cursor = tgt["k"] == "DeclRefExpr" and tgt["ref"].get("dk") == "local" and ("*" in (tgt["ref"].get("t") or "") or "Iterator" in (tgt["ref"].get("t") or ""))
                        if tgt["k"] == "DeclRefExpr" and tgt["ref"].get("dk") == "local" and not is_cursor:
                            # an integer index counts as the cursor when it forms an element address (`data + i`, `data[i]`)
                            for m_ in f.nodes:
                                if (m_["k"] == "BinaryOperator" and m_.get("op") == "+" or m_["k"] == "ArraySubscriptExpr") and len(m_["c"]) == 2:
                                    ops_ = [f.nodes[f.strip(x)] for x in m_["c"]]
                                    if any(o_["k"] == "DeclRefExpr" and o_.get("ref", {}).get("id") == tgt["ref"]["id"] for o_ in ops_) and \
                                       any("*" in (o_.get("t") or "") for o_ in ops_):
                                        is_cursor = True
                        if is_cursor:
                            (fwd if (nd.get("op") or nd.get("oop")) == "++" else back).append(i)
                if back:
                    chk.bad(rid, f, "search-walks-backwards", f.where(back[0]),
                            "%s::%s(const T&) moves its cursor towards the front (`%s`): with equal elements it designates the LAST one, the "
                            "reference sequence %s the first - [1 2 1 3] minus 1 becomes [1 2 3] instead of [2 1 3]" % (
                                cls, short, q.no_casts(f.r(back[0]))[:40], "removes" if short == "remove" else "finds"), evals=2)
                elif fwd:
                    chk.ok(rid, f, "forward search", f.where(fwd[0]), "every stepped cursor moves by next / ++", evals=len(fwd) + 1)
                else:
                    raise AnalysisBroken("%s::%s(const T&): neither a delegation to find nor a stepped cursor was recognised" % (cls, short))
    if n < 3:
        raise AnalysisBroken("first_match_search: only %d of List::find, Array::find, List::remove(const T&) found" % n)


def effects_survive_ndebug(prog, chk, rid):
    """the analysed program is the release configuration (NDEBUG): ASSERT(x) drops x, VERIFY(x) keeps evaluating it.  An element
    construction or destruction that sits inside an ASSERT exists only in debug builds - the release container advances its size over
    slots nobody constructed.  Decided by comparing the two configurations of the same source."""
    from .. import facts, q
    from ..facts import AnalysisBroken
    chk.rule(rid, "SIB (configurations): every member of Array, List and PoolList has the same number of placement-new expressions and explicit "
                  "destructor calls with and without NDEBUG (no element is constructed or destroyed inside an ASSERT)", floor=20)
    dbg = facts.load_program(repo=getattr(prog, "repo", None) or facts.REPO, ndebug=False, cache=getattr(prog, "cache", True)) if getattr(prog, "ndebug", True) else None
    if dbg is None:
        raise AnalysisBroken("C03.m: the debug configuration of the program is not available")
    n = 0
    for cls in ("Array", "List", "PoolList"):
        for tn, fs in sorted(C.class_insts(prog, cls).items()):
            for f in fs:
                if f.cls != tn or not f.blocks:
                    continue
                g = dbg.functions.get(f.sig)
                if g is None or not g.blocks:
                    continue
                a = (len(C.placement_news(f)), len(C.dtor_events(f)))
                b = (len(C.placement_news(g)), len(C.dtor_events(g)))
                if a == (0, 0) and b == (0, 0):
                    continue
                n += 1
                if a == b:
                    chk.ok(rid, f, "%d construction(s), %d destruction(s) in both configurations" % a, "%s:%s" % (f.file, f.line), "NDEBUG vs debug AST", evals=2)
                else:
                    lost = C.placement_news(g) or [d for d, _o in C.dtor_events(g)]
                    chk.bad(rid, f, "effect-only-in-debug-build", g.where(lost[0]) if lost else "%s:%s" % (f.file, f.line),
                            "%s has %d placement-new / %d destructor call(s) in the debug configuration but %d / %d with NDEBUG: one sits inside an "
                            "ASSERT, which the release build does not evaluate - the container's size moves over slots that were never constructed "
                            "(or destroyed)" % (f.name, b[0], b[1], a[0], a[1]), evals=2)
    if n < 20:
        raise AnalysisBroken("C03.m: only %d constructing/destroying members compared" % n)
