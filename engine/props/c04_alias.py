"""Array storage discipline (C03.b / C04.c for the contiguous container) and the ALIAS rule (C04.e)."""
import re
from .. import q, fin
from .. import containers as C
from ..facts import AnalysisBroken


def _this_call(f, i, name):
    n = f.nodes[i]
    if not n.get("callee", "").endswith("::" + name):
        return False
    o = q.call_object(f, i)
    return o is None or f.nodes[o]["k"] == "CXXThisExpr"


def array_rules(prog, chk, rid):
    chk.rule(rid, "Array storage discipline: allocation sized by the stored capacity; growth copies then destroys each element in "
                  "one loop and frees the old block once before re-seating; every other placement-new is dominated by reserve(); "
                  "the end pointer moves only past constructed / before destroyed elements", floor=10)
    for tn, fs in sorted(C.class_insts(prog, "Array").items()):
        T = None
        for f in fs:
            if f.d.get("targs"):
                T = f.d["targs"][0]
        for f in C.methods(fs, "reserve", 1):
            defs = q.local_defs(f)
            where = "%s:%s" % (f.file, f.line)
            news = [i for i, n in enumerate(f.nodes) if n["k"] == "CXXNewExpr" and n.get("arr")]
            if len(news) != 1:
                chk.bad(rid, f, "reserve-allocation-count", where, "reserve() must allocate exactly one new block, found %d" % len(news))
                continue
            sz = q.no_casts(C.norm(f, f.nodes[news[0]]["asize"], {}, defs))
            # by evaluation: whatever the statements look like, at the allocation the byte count is (element size) x (the value _capacity
            # holds then), and that capacity covers the request
            prm = f.params[0]["n"]
            unit = set()
            why = None
            n_ev = 0
            for sz_, cap_, beg_ in ((5, 0, 0), (5, 4, 1), (8, 7, 1), (9, 3, 1), (1, 0, 0), (4, 4, 0), (100, 7, 1)):
                seen_, end_, fv_ = fin.walk_vals(f, f.entry, {prm: sz_, "this->_capacity": cap_, "this->_begin.item": beg_, "this->_end.item": beg_}, stop_at=news[0])
                if end_ != "stop":
                    continue
                n_ev += 1
                a_ = fin.eval_expr(f, f.nodes[news[0]]["asize"], fv_)
                c_ = fv_.get("this->_capacity")
                if a_ is None or c_ is None:
                    why = "the allocation size or the capacity is not determined by (size, _capacity) for size=%d, _capacity=%d" % (sz_, cap_)
                    break
                if c_ < sz_:
                    why = "for reserve(%d) on capacity %d the block is allocated while _capacity is %d" % (sz_, cap_, c_)
                    break
                if c_ == 0 or a_ % c_:
                    why = "for reserve(%d) on capacity %d the block has %d bytes for a capacity of %d" % (sz_, cap_, a_, c_)
                    break
                unit.add(a_ // c_)
            if why is None and (len(unit) != 1 or not n_ev):
                why = "the block size is not a fixed element size times _capacity (%s)" % sorted(unit)
            if why is None:
                chk.ok(rid, f, "new block sized sizeof(T) * _capacity", f.where(news[0]), sz, evals=n_ev)
                chk.ok(rid, f, "_capacity raised to the requested size", where, "evaluated for %d (size, capacity) pairs" % n_ev, evals=n_ev)
            else:
                chk.bad(rid, f, "reserve-allocation-size", f.where(news[0]),
                        "%s; the new block must hold _capacity elements (sizeof(T) * _capacity) and _capacity must cover the request" % why, evals=n_ev)
            st = C.nstores(f)
            pn = C.placement_news(f)
            dt = C.dtor_events(f)
            ok_pair = False
            for p in pn:
                lb = C.loop_blocks(f, p)
                if lb and any((f.node_pos(d) or (None,))[0] in lb and q.reaches(f, p, d) for d, _o in dt):
                    ok_pair = True
            if ok_pair:
                chk.ok(rid, f, "growth loop constructs the copy then destroys the original", where, "placement-new and destructor in one loop body, in this order", evals=2)
            else:
                chk.bad(rid, f, "reserve-copy-destroy-pairing", where,
                        "the growth loop must copy-construct each element into the new block and destroy the original in the same iteration")
            dels = [i for i, n in enumerate(f.nodes) if n["k"] == "CXXDeleteExpr"]
            seats = [s.node for s, l, r in st if l == "this->_begin.item"]
            ends = [s.node for s, l, r in st if l == "this->_end.item"]
            good = len(dels) == 1 and "this->_begin.item" in q.no_casts(C.norm(f, f.nodes[dels[0]]["c"][0], {}, q.local_defs(f)) if f.nodes[dels[0]]["c"] else f.r(dels[0]))
            if good:
                okp, _p = C.after_all_pass(f, f.node_pos(dels[0]), q.pos_of(f, seats))
                oke, _p = C.after_all_pass(f, f.node_pos(dels[0]), q.pos_of(f, ends))
                after_loop = all(not q.reaches(f, dels[0], p) for p in pn)
                good = okp and oke and after_loop
            if good and news:
                # no way from the allocation to the re-seat around the delete[] - unless over an edge that says the old pointer is null
                cut = set()
                for b_ in f.blocks.values():
                    nt_ = fin.null_test(f, b_.get("cond")) if len(b_["succ"]) == 2 and b_.get("tk") != "SwitchStmt" else None
                    if nt_ is not None and nt_[0] == "this->_begin.item" and b_["succ"][nt_[1]] is not None:
                        cut.add((b_["id"], b_["succ"][nt_[1]]))
                for sn in seats:
                    leak = fin.path_with_cuts(f, f.node_pos(news[0]), f.node_pos(sn), avoid=q.pos_of(f, dels), cut=cut)
                    if leak is not None:
                        good = False
                        chk.bad(rid, f, "reserve-old-block-not-freed", f.where(sn),
                                "a path (lines %s) re-seats _begin.item on the new block without delete[] of the old one, and nothing on it says "
                                "the old pointer was null: an array that owns a block but holds no elements leaks it" % f.path_lines(leak)[:8])
                        break
                if not good:
                    continue
            if good:
                chk.ok(rid, f, "old block freed once, after the copy loop, then _begin/_end re-seated", where, "MPT", evals=3)
            else:
                chk.bad(rid, f, "reserve-release-reseat", where,
                        "reserve() must delete[] the old block exactly once after the copy loop and re-seat _begin.item and _end.item on every path")
        # placement-new elsewhere is dominated by reserve
        for f in fs:
            if f.short == "reserve" or f.cls != tn:
                continue
            for p in C.placement_news(f):
                res = [i for i in q.calls(f) if _this_call(f, i, "reserve")]
                if res and q.precedes_always(f, res, p):
                    chk.ok(rid, f, "placement-new dominated by reserve()", f.where(p), "every path to the construction passes reserve()")
                else:
                    chk.bad(rid, f, "construct-without-reserve", f.where(p),
                            "an element is constructed at the end of the storage without a preceding reserve() on every path (write past the allocation)")
        for f in C.methods(fs, "append", 1):
            if not f.params[0]["t"].startswith("const " + (T or "\0")) or "Array" in f.params[0]["t"]:
                continue
            pn = C.placement_news(f)
            st = C.nstores(f)
            inc = [s.node for s, l, r in st if l == "this->_end.item" and r.replace(" ", "") == "this->_end.item+1"]
            if pn and inc and all(C.after_all_pass(f, f.node_pos(p), q.pos_of(f, inc))[0] for p in pn):
                chk.ok(rid, f, "append advances _end after constructing", "%s:%s" % (f.file, f.line), "++_end.item post-dominates the construction")
            else:
                chk.bad(rid, f, "append-end-not-advanced", "%s:%s" % (f.file, f.line), "append constructs an element but does not advance _end.item past it on every path")
        for f in [f for f in fs if f.short == "remove" and f.cls == tn]:
            deleg = [c for c in q.calls(f) if _this_call(f, c, "remove")]
            if deleg and not C.dtor_events(f):
                # removal by index expressed through the iterator overload: nothing to check here but the position handed over
                a = q.no_casts(C.norm(f, q.call_args(f, deleg[0])[0]))
                pidx = [p["n"] for p in f.params]
                if any(re.search(r"this->_begin\.item \+ %s\b" % re.escape(x), a) for x in pidx):
                    chk.ok(rid, f, "remove(index) delegates to remove(Iterator(_begin.item + index))", "%s:%s" % (f.file, f.line), a[:60], nontrivial=False)
                else:
                    chk.bad(rid, f, "remove-delegates-wrong-position", f.where(deleg[0]), "remove(index) hands `%s` to the iterator overload, expected _begin.item + index" % a[:60])
                continue
            dt = [d for d, _o in C.dtor_events(f)]
            st = C.nstores(f)
            dec = [s.node for s, l, r in st if l == "this->_end.item" and r.replace(" ", "") == "this->_end.item-1"]
            where = "%s:%s" % (f.file, f.line)
            if len(dec) == 1 and dt and C.paths_all_pass(f, f.node_pos(dec[0]), q.pos_of(f, dt)) and \
               not any(q.reaches(f, a, b) for a in dt for b in dt):
                chk.ok(rid, f, "remove shrinks by one and destroys exactly one element", where, "CNT over paths through --_end.item", evals=2)
            else:
                chk.bad(rid, f, "remove-destroy-count", where,
                        "Array::remove must decrement _end.item once and destroy exactly one (the vacated last) element on every such path")
            # the shift assigns towards the front: *dest = *(++pos)
            # `*dest = *(++pos)`, `*pos = pos[1]`, `*pos = *(pos + 1)`: the successor is assigned into the vacated slot, inside a loop
            shifts = [s for s in q.stores(f) if (f.r(s.lhs).startswith("*") or f.r(s.lhs).endswith("[0]")) and s.rhs is not None and
                      re.search(r"\+\+|\[1\]|\+ 1\)", f.r(s.rhs)) and C.loop_blocks(f, s.node)]
            if not shifts:
                shifts = _successor_shifts(f)
            if shifts:
                chk.ok(rid, f, "shift loop assigns the successor into the vacated slot", f.where(shifts[0].node), f.r(shifts[0].node)[:60], nontrivial=False)
            else:
                chk.bad(rid, f, "remove-shift", where, "Array::remove no longer shifts the following elements down by assignment")
            if f.d["ret"].endswith("Iterator"):
                rets = [i for i, n in enumerate(f.nodes) if n["k"] == "ReturnStmt" and n["c"]]
                bad = [i for i in rets if C.norm(f, f.nodes[i]["c"][0]) != f.params[0]["n"] + ".item"]
                if bad:
                    chk.bad(rid, f, "remove-returns-wrong-iterator", f.where(bad[0]), "Array::remove(it) must return the iterator of the same index (successor of the removed element)")
                else:
                    chk.ok(rid, f, "returns the same index", where, "return it.item", nontrivial=False)
        for short in ("clear", "~Array"):
            for f in C.methods(fs, short, 0):
                dt = C.dtor_events(f)
                inloop = [d for d, _o in dt if C.loop_blocks(f, d)]
                where = "%s:%s" % (f.file, f.line)
                if not inloop:
                    chk.bad(rid, f, "walk-without-destructor", where, "%s does not destroy every element in [begin, end)" % short)
                    continue
                st = C.nstores(f)
                if short == "clear":
                    ok = any(l == "this->_end.item" and r == "this->_begin.item" for _s, l, r in st)
                    msg = "clear() must set _end.item = _begin.item after destroying the elements"
                else:
                    dels = [i for i, n in enumerate(f.nodes) if n["k"] == "CXXDeleteExpr" and "this->_begin.item" in f.r(i)]
                    ok = len(dels) == 1 and all(q.reaches(f, d, dels[0]) for d in inloop)
                    msg = "the destructor must delete[] the block exactly once after destroying the elements"
                if ok:
                    chk.ok(rid, f, short + " destroys the elements then resets/frees", where, "destructor loop followed by the reset", evals=2)
                else:
                    chk.bad(rid, f, short.replace("~", "dtor-") + "-reset", where, msg)
        for f in C.methods(fs, "resize"):
            dt = [d for d, _o in C.dtor_events(f) if C.loop_blocks(f, d)]
            st = C.nstores(f)
            ends = [s.node for s, l, r in st if l == "this->_end.item"]
            where = "%s:%s" % (f.file, f.line)
            # shrinking: destructor loop precedes the end update on that path; growing: placement-new loop precedes it
            if dt and ends and all(any(q.reaches(f, d, e) for e in ends) for d in dt):
                chk.ok(rid, f, "resize destroys the cut-off tail before moving _end", where, "destructor loop reaches an _end store")
            else:
                chk.bad(rid, f, "resize-shrink-destroy", where, "resize() to a smaller size must destroy every element of the cut-off tail before lowering _end.item")


def _reads_param(f, pid):
    return [i for i, n in enumerate(f.nodes) if n["k"] == "DeclRefExpr" and n["ref"]["id"] == pid]


def alias_rules(prog, chk, rid):
    chk.rule(rid, "ALIAS: a reference/pointer parameter that may refer into the container's own storage is not read after a call that "
                  "may free or rewrite that storage; arguments derived from a same-type container parameter are not handed to such "
                  "a member", floor=6)
    for tn, fs in sorted(C.class_insts(prog, "Array").items()):
        T = None
        for f in fs:
            if f.d.get("targs"):
                T = f.d["targs"][0]
        hazard = {}     # sig -> set(param index)
        mine = [f for f in fs if f.cls == tn]
        for f in mine:
            res = [i for i in q.calls(f) if _this_call(f, i, "reserve")]
            for k, p in enumerate(f.params):
                pt = p["t"]
                if pt not in ("const %s &" % T, "const %s *" % T):
                    continue
                if not res:
                    chk.ok(rid, f, "parameter %s: no reallocation in this member" % p["n"], "%s:%s" % (f.file, f.line), "no reserve() call", nontrivial=False)
                    continue
                late = [r for r in _reads_param(f, p["id"]) if any(q.reaches(f, c, r) for c in res)]
                if late:
                    hazard.setdefault(f.sig, set()).add(k)
                    chk.bad(rid, f, "param-read-after-reserve:" + p["n"], f.where(late[0]),
                            "`%s` (%s) is read after reserve(), which may have destroyed and freed the storage it refers to when the "
                            "argument is an element of this array (use after free on growth)" % (p["n"], pt), evals=len(res))
                else:
                    chk.ok(rid, f, "parameter %s not read after reserve()" % p["n"], "%s:%s" % (f.file, f.line), "reachability", evals=len(res))
        # callers handing own-storage-derived arguments to a hazardous member
        for f in mine:
            selfparams = [p for p in f.params if re.match(r"^const Array<.*> &$", p["t"])]
            for c in q.calls(f):
                n = f.nodes[c]
                hz = hazard.get(n.get("csig"))
                if not hz:
                    continue
                o = q.call_object(f, c)
                if o is not None and f.nodes[o]["k"] != "CXXThisExpr":
                    continue
                args = q.call_args(f, c)
                for k in hz:
                    if k >= len(args):
                        continue
                    t = C.norm(f, args[k])
                    src = None
                    for p in selfparams:
                        if re.search(r"\b%s\b" % re.escape(p["n"]), t):
                            src = "the container parameter `%s`, which may be this array itself" % p["n"]
                    if re.search(r"this->_begin\.item|this->_end\.item", t):
                        src = "this array's own storage"
                    if src:
                        chk.bad(rid, f, "own-storage-passed-to-reallocating-member:" + f.nodes[c]["callee"].split("::")[-1], f.where(c),
                                "argument `%s` is taken from %s and passed to a member that reads it after reserve(): with a.%s(a) and "
                                "growth the elements are copied from destroyed, freed storage" % (t[:50], src, f.short))
                    else:
                        chk.ok(rid, f, "argument %d of %s is not own storage" % (k, n["callee"]), f.where(c), t[:50])
        # a same-type parameter must be re-read after reserve(), not captured before it
        for f in mine:
            res = [i for i in q.calls(f) if _this_call(f, i, "reserve")]
            if not res or f.kind in ("ctor", "copyassign"):
                continue
            defs = q.local_defs(f)
            for p in [p for p in f.params if re.match(r"^const Array<.*> &$", p["t"])]:
                # locals holding p's storage pointer, defined before reserve and used after it
                for did, dl in defs.items():
                    for kind, nd, init in dl:
                        if init is None or kind == "addr":
                            continue
                        t = f.r(init)
                        if re.search(r"\b%s\._(begin|end)\.item" % re.escape(p["n"]), t) and any(q.reaches(f, nd, c) for c in res):
                            uses = [i for i, n in enumerate(f.nodes) if n["k"] == "DeclRefExpr" and n["ref"]["id"] == did and any(q.reaches(f, c, i) for c in res)]
                            if uses:
                                chk.bad(rid, f, "storage-pointer-captured-before-reserve:" + p["n"], f.where(nd),
                                        "a pointer into `%s`'s storage is captured before reserve() and used after it; if `%s` is this array the "
                                        "pointer dangles after growth" % (p["n"], p["n"]))
                chk.ok(rid, f, "storage of `%s` is re-read after reserve()" % p["n"], "%s:%s" % (f.file, f.line), "no pointer captured across reserve()", evals=len(res))
    # List: bulk insert of a list into itself
    for tn, fs in sorted(C.class_insts(prog, "List").items()):
        for f in [f for f in fs if f.short == "insert" and any(re.match(r"^const List<.*> &$", p["t"]) for p in f.params)]:
            P = [p for p in f.params if re.match(r"^const List<.*> &$", p["t"])][0]
            grow = [i for i in q.calls(f) if _this_call(f, i, "insert") or _this_call(f, i, "append")]
            inloop = [g for g in grow if C.loop_blocks(f, g)]
            guard = bool(fin.alias_guard_edges(f, P["n"]))
            walks = any(re.search(r"\b%s\._begin\.item" % re.escape(P["n"]), f.r(init)) for dl in q.local_defs(f).values() for kind, _n, init in dl if init is not None)
            if inloop and walks and not guard:
                chk.bad(rid, f, "walks-argument-while-growing-self:" + P["n"], f.where(inloop[0]),
                        "the loop walks the nodes of `%s` while inserting into this list; with l.append(l) the walk never reaches the end "
                        "(or duplicates elements when prepending)" % P["n"])
            else:
                chk.ok(rid, f, "bulk insert does not walk a list it is growing", "%s:%s" % (f.file, f.line), "alias guard or no growing call in the walk")


def _successor_shifts(f):
    """stores `*D = *S` inside a loop where, by a symbolic walk of one iteration (pointer locals as base + constant offset relative to
    their values at the loop head), S points one element behind D: the successor is assigned into the slot in front of it - whatever
    the statements are spelled like (`T* const dest = pos; ++pos; *dest = *pos;`)"""
    out = []

    def addr(i, env):
        """(base, offset) of a pointer-valued expression; applies ++/-- side effects to env"""
        i = f.strip(i)
        n = f.nodes[i]
        k = n["k"]
        if k == "DeclRefExpr":
            nm = n["ref"]["n"]
            return env.get(nm, (nm, 0))
        if k in ("CStyleCastExpr", "ParenExpr", "ImplicitCastExpr", "CXXStaticCastExpr") and n["c"]:
            return addr(n["c"][0], env)
        if k == "UnaryOperator" and n.get("op") in ("++", "--") and n["c"]:
            t = f.nodes[f.strip(n["c"][0])]
            if t["k"] != "DeclRefExpr":
                return None
            nm = t["ref"]["n"]
            b, o = env.get(nm, (nm, 0))
            d = 1 if n["op"] == "++" else -1
            env[nm] = (b, o + d)
            return (b, o) if n.get("post") else (b, o + d)
        if k == "BinaryOperator" and n.get("op") in ("+", "-"):
            a = addr(n["c"][0], env)
            c = fin.eval_expr(f, n["c"][1], {})
            if a is None or c is None:
                return None
            return (a[0], a[1] + (c if n["op"] == "+" else -c))
        if k == "UnaryOperator" and n.get("op") == "&" and n["c"]:
            return cell(n["c"][0], env)
        return None

    def cell(i, env):
        """(base, offset) of the element an lvalue/rvalue expression designates (`*p`, `p[k]`)"""
        i = f.strip(i)
        n = f.nodes[i]
        if n["k"] == "UnaryOperator" and n.get("op") == "*" and n["c"]:
            return addr(n["c"][0], env)
        if n["k"] == "ArraySubscriptExpr":
            a = addr(n["c"][0], env)
            c = fin.eval_expr(f, n["c"][1], {})
            if a is None or c is None:
                return None
            return (a[0], a[1] + c)
        if n["k"] in ("CStyleCastExpr", "ParenExpr", "ImplicitCastExpr") and n["c"]:
            return cell(n["c"][0], env)
        return None
    for st in q.stores(f):
        lb = C.loop_blocks(f, st.node)
        if not lb or st.op != "=" or st.rhs is None:
            continue
        heads = [x for x in lb if any(p_ not in lb for p_ in f.preds.get(x, []))]
        if len(heads) != 1:
            continue
        # one iteration: from the head through the unique in-loop successors
        env = {}
        b = heads[0]
        seen = set()
        found = None
        while b is not None and b not in seen:
            seen.add(b)
            blk = f.blocks[b]
            tops = [e for e in blk["el"] if isinstance(e, int) and (f.up(e) is None or f.nodes[f.up(e)]["k"] in ("CompoundStmt", "ForStmt", "WhileStmt", "DoStmt", "IfStmt"))]
            for e in tops:
                ne = f.nodes[e]
                if ne["k"] == "DeclStmt":
                    for d in ne["decls"]:
                        if d.get("init") is not None and "*" in (d.get("t") or ""):
                            a = addr(d["init"], env)
                            if a is not None:
                                env[d["n"]] = a
                elif e == st.node:
                    # right side first (its side effects precede the store), then the left side
                    r = cell(st.rhs, env)
                    l = cell(st.lhs, env)
                    if l is not None and r is not None and l[0] == r[0] and r[1] - l[1] == 1:
                        found = st
                elif ne["k"] == "BinaryOperator" and ne.get("op") == "=" and f.nodes[f.strip(ne["c"][0])]["k"] == "DeclRefExpr":
                    a = addr(ne["c"][1], env)
                    nm = f.nodes[f.strip(ne["c"][0])]["ref"]["n"]
                    if a is not None:
                        env[nm] = a
                    else:
                        env.pop(nm, None)
                elif ne["k"] == "UnaryOperator" and ne.get("op") in ("++", "--"):
                    addr(e, env)
                elif ne["k"] == "BinaryOperator" and ne.get("op") == ",":
                    for ch in ne["c"]:
                        addr(ch, env) if f.nodes[f.strip(ch)]["k"] == "UnaryOperator" else None
            nxt = [x for x in blk["succ"] if x in lb and x not in seen]
            b = nxt[0] if len(nxt) == 1 else None
        if found is not None:
            out.append(found)
    return out
