"""C01.g (thorough) — mirror symmetry left<->right of the AVL helpers and Map/MultiMap sibling agreement.

Residual false-alarm risk (DESIGN.md section 2, SIB): a behaviour-preserving one-sided refactoring of one of the twins fires this
rule; it therefore runs in the thorough tier only and every break it targets is also covered by a path rule where one exists."""
import re
from .. import q
from .. import containers as C
from ..facts import AnalysisBroken


def skeleton(f, mirror=False, rename=None):
    """statement texts in CFG order (top-level elements only), optionally mirrored"""
    out = []
    for b in sorted(f.blocks, reverse=True):
        blk = f.blocks[b]
        inblock = set(e for e in blk["el"] if isinstance(e, int))
        for e in blk["el"]:
            if not isinstance(e, int):
                continue
            p = f.parent.get(e)
            while p is not None and p not in inblock:
                p = f.parent.get(p)
            if p is not None and f.nodes[p]["k"] != "CompoundStmt":
                continue
            t = q.no_casts(f.r(e))
            if t in ("(void)1", "1"):
                continue
            out.append(t)
        if blk.get("cond") is not None:
            out.append("? " + q.no_casts(f.r(blk["cond"])))
    s = "\n".join(out)
    if f.cls:
        s = s.replace(f.cls, "$C")
    if mirror:
        s = re.sub(r"\bleft\b", "\0", s)
        s = re.sub(r"\bright\b", "left", s).replace("\0", "right")
        s = s.replace("rotl", "\0").replace("rotr", "rotl").replace("\0", "rotr")
        s = s.replace("== -1)", "\0").replace("== 1)", "== -1)").replace("\0", "== 1)")
        s = re.sub(r"\bnext\b", "\0", s)
        s = re.sub(r"\bprev\b", "next", s).replace("\0", "prev")
    for a, b in (rename or {}).items():
        s = s.replace(a, b)
    return s


def run(prog, chk):
    chk.rule("C01.g", "SIB: rotl/rotr and shiftl/shiftr are mirror images; remove, rebal, rot*, shift*, updateHeightAndSlope, clear agree between Map and MultiMap", floor=6)
    insts = {}
    for cls in ("Map", "MultiMap"):
        for tn, fs in C.class_insts(prog, cls).items():
            if tn.startswith(cls + "<int"):
                insts[cls] = (tn, {}, fs)
                for f in fs:
                    insts[cls][1].setdefault(f.short, []).append(f)
    if len(insts) < 2:
        raise AnalysisBroken("Map<int,...> / MultiMap<int,...> instantiations missing")
    for cls, (tn, by, fs) in insts.items():
        for a, b in (("rotl", "rotr"), ("shiftl", "shiftr")):
            fa, fb = by[a][0], by[b][0]
            if skeleton(fa) == skeleton(fb, mirror=True):
                chk.ok("C01.g", fa, "%s::%s is the mirror image of %s" % (cls, a, b), "%s:%s" % (fa.file, fa.line), "normalised statement skeletons", evals=2)
            else:
                x, y = skeleton(fa).split("\n"), skeleton(fb, mirror=True).split("\n")
                d = [(p, r) for p, r in zip(x, y) if p != r][:1] or [(str(len(x)), str(len(y)))]
                chk.bad("C01.g", fa, "mirror-asymmetry:%s/%s" % (a, b), "%s:%s" % (fa.file, fa.line),
                        "%s and %s are no longer mirror images under left<->right: `%s` vs mirrored `%s`" % (a, b, d[0][0][:60], d[0][1][:60]))
    (ta, ba, _), (tb, bb, _) = insts["Map"], insts["MultiMap"]
    for nm in ("rebal", "rotl", "rotr", "shiftl", "shiftr", "clear", "updateHeightAndSlope"):
        fa = (ba.get(nm) or [None])[0]
        fb = (bb.get(nm) or [None])[0]
        if fa is None or fb is None:
            fa = [f for f in prog.functions.values() if f.short == nm and (f.cls or "").startswith(ta)][:1]
            fb = [f for f in prog.functions.values() if f.short == nm and (f.cls or "").startswith(tb)][:1]
            if not fa or not fb:
                continue
            fa, fb = fa[0], fb[0]
        sa = skeleton(fa).replace(ta, "$T").replace("Map<", "$M<")
        sb = skeleton(fb).replace(tb, "$T").replace("MultiMap<", "$M<")
        if sa == sb:
            chk.ok("C01.g", fa, "Map::%s and MultiMap::%s agree" % (nm, nm), "%s:%s" % (fa.file, fa.line), "normalised statement skeletons", evals=2)
        else:
            x, y = sa.split("\n"), sb.split("\n")
            d = [(p, r) for p, r in zip(x, y) if p != r][:1] or [("%d statements" % len(x), "%d statements" % len(y))]
            chk.bad("C01.g", fa, "siblings-differ:" + nm, "%s:%s" % (fa.file, fa.line), "Map::%s and MultiMap::%s differ: `%s` vs `%s`" % (nm, nm, d[0][0][:60], d[0][1][:60]))
    ra = [f for f in ba["remove"] if C.dtor_events(f)][0]
    rb = [f for f in bb["remove"] if C.dtor_events(f)][0]
    sa = skeleton(ra).replace(ta, "$T")
    sb = skeleton(rb).replace(tb, "$T")
    if sa == sb:
        chk.ok("C01.g", ra, "Map::remove and MultiMap::remove agree", "%s:%s" % (ra.file, ra.line), "normalised statement skeletons", evals=2)
    else:
        x, y = sa.split("\n"), sb.split("\n")
        d = [(p, r) for p, r in zip(x, y) if p != r][:1] or [("%d statements" % len(x), "%d statements" % len(y))]
        chk.bad("C01.g", ra, "siblings-differ:remove", "%s:%s" % (ra.file, ra.line), "Map::remove and MultiMap::remove differ: `%s` vs `%s`" % (d[0][0][:60], d[0][1][:60]))
