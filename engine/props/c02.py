"""C02 — hash containers behave as insertion-ordered unique-key tables."""
from .. import containers as C
from . import wit

EXPLANATION = (
    "Structural necessary conditions for HashMap, HashSet and PoolMap: every API member instantiates for T != V (compile "
    "witness); insert looks the key up first and only the miss edge links (DOM); bucket chain push/unlink keep the cell "
    "back-pointer invariant (PAIRF/MPT); order-list link/unlink and _size on every path; clear resets bucket heads; swap hands "
    "over data/capacity/free list/blocks together and re-anchors sentinels; every bucket index is reduced modulo the capacity "
    "that sized the array and capacity >= 1. Not decided: agreement with a reference ordered map over all histories.")

H = ("HashMap", "HashSet", "PoolMap")


def run(prog, chk):
    chk.extra["explanation"] = EXPLANATION
    wit.members_instantiate(prog, chk, "C02.a", H)
    if chk.viol:
        return   # a member does not instantiate: the path rules have no complete instantiation to look at
    C.find_then_link(prog, chk, "C02.b", H)
    C.link_idiom(prog, chk, "C02.c1", H)
    C.unlink_idiom(prog, chk, "C02.c2", H)
    C.clear_resets(prog, chk, "C02.d", H)
    C.swap_handover(prog, chk, "C02.e", list(H))
    C.bucket_index(prog, chk, "C02.f", H)
    C.iterator_param_alias(prog, chk, "C02.g", H)
    C.wrappers(prog, chk, "C02.w", H)
    C.lockstep_equality(prog, chk, "C02.i", ("HashMap", "HashSet"))
    C.erase_then_step(prog, chk, "C02.j", [f for cls in H for fs in C.class_insts(prog, cls).values() for f in fs])
    # assignment (listed in the statement): a = a must not empty the table before reading it
    C.self_assign(prog, chk, "C02.h", ("HashMap", "HashSet"))
