"""C02 — hash containers behave as insertion-ordered unique-key tables."""
from .. import containers as C
from . import wit

EXPLANATION = (
    "Structural necessary conditions for HashMap, HashSet and PoolMap: every API member instantiates for T != V (compile "
    "witness); insert looks the key up first and only the miss edge links (DOM); bucket chain push/unlink keep the cell "
    "back-pointer invariant (PAIRF/MPT); order-list link/unlink and _size on every path; clear resets bucket heads; swap hands "
    "over data/capacity/free list/blocks together and re-anchors sentinels; every bucket index is reduced modulo the capacity "
    "that sized the array and capacity >= 1. Not decided: agreement with a reference ordered map over all histories.")

H = ("HashMap", "HashSet", "PoolMap")


def run(prog, chk):
    chk.extra["explanation"] = EXPLANATION
    wit.members_instantiate(prog, chk, "C02.a", H)
    if chk.viol:
        return   # a member does not instantiate: the path rules have no complete instantiation to look at
    C.find_then_link(prog, chk, "C02.b", H)
    C.link_idiom(prog, chk, "C02.c1", H)
    C.unlink_idiom(prog, chk, "C02.c2", H)
    C.clear_resets(prog, chk, "C02.d", H)
    C.swap_handover(prog, chk, "C02.e", list(H))
    C.bucket_index(prog, chk, "C02.f", H)
    C.iterator_param_alias(prog, chk, "C02.g", H)
    C.wrappers(prog, chk, "C02.w", H)
    C.lockstep_equality(prog, chk, "C02.i", ("HashMap", "HashSet"))
    C.erase_then_step(prog, chk, "C02.j", [f for cls in H for fs in C.class_insts(prog, cls).values() for f in fs])
    # assignment (listed in the statement): a = a must not empty the table before reading it
    C.self_assign(prog, chk, "C02.h", ("HashMap", "HashSet"))
    string_hash_reads_key(prog, chk, "C02.k")
    C.find_walks_chain(prog, chk, "C02.l", H)


def string_hash_reads_key(prog, chk, rid):
    """Equal keys must land in the same bucket: the hash of a String may depend on nothing but the key's bytes and length.  Evaluated
    for key lengths 0, 1, 2 and 5: every byte of the C-string view it looks at has an index in [0, length] (the terminator included)."""
    from .. import fin, q
    from ..facts import AnalysisBroken
    chk.rule(rid, "FIN/VSA: hash(const String&) evaluated for key lengths 0/1/2/5 subscripts the key's text only inside [0, length]: the "
                  "hash of a key is a function of the key's value, whatever memory surrounds its buffer", floor=1)
    fs = [f for f in prog.functions.values() if f.name == "hash" and f.blocks and len(f.params) == 1 and "String" in f.params[0]["t"]]
    if not fs:
        raise AnalysisBroken("hash(const String&) not found")
    f = fs[0]
    where = "%s:%s" % (f.file, f.line)
    subs = [i for i, n in enumerate(f.nodes) if n["k"] == "ArraySubscriptExpr" and f.node_pos(i) is not None]
    lens = set(fin.key(f, c) for c in q.calls(f) if (f.nodes[c].get("callee") or "") == "String::length")
    if not subs or not lens:
        raise AnalysisBroken("hash(const String&): no subscript of the key text / no length() call found")
    bad = None
    n_ev = 0
    for L in (0, 1, 2, 5):
        hits = []

        def trace(e, v_, _h=hits):
            if e in subs:
                _h.append((e, fin.eval_expr(f, f.nodes[e]["c"][1], v_)))
        seen, end, fv = fin.walk_vals(f, f.entry, {k_: L for k_ in lens}, limit=300, trace=trace)
        n_ev += 1
        if isinstance(end, str):
            bad = (L, None, "the walk ends with `%s`" % end)
            break
        for e, v in hits:
            if v is None or v < 0 or v > L or v >= 2 ** 63:
                bad = (L, e, "`%s` is evaluated with the subscript %s" % (q.no_casts(f.r(e))[:40], "undetermined" if v is None else (v - 2 ** 64 if v >= 2 ** 63 else v)))
                break
        if bad:
            break
    if bad:
        chk.bad(rid, f, "hash-reads-outside-key", f.where(bad[1]) if bad[1] is not None else where,
                "for a key of %d byte(s) %s: a byte that is not part of the key decides the bucket - two equal (empty) keys held in different "
                "buffers hash differently, find() misses a key that is present and insert() stores it twice" % (bad[0], bad[2]), evals=n_ev)
    else:
        chk.ok(rid, f, "%d subscripts stay inside [0, length] for key lengths 0, 1, 2, 5" % len(subs), where, "evaluation of the index expressions", evals=n_ev)
