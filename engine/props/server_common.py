"""helpers shared by C13 and C14 (Server.cpp)"""
import re
from .. import q, fin
from .. import containers as C
from ..facts import AnalysisBroken

CB = re.compile(r"->on[A-Z]\w*\(|\.on[A-Z]\w*\(")


def sfn(prog, gname, nparams=None, psub=None):
    c = [f for f in prog.functions.values() if f.gname == gname and f.file.endswith(".cpp") and (nparams is None or len(f.params) == nparams)
         and (psub is None or any(psub in p["t"] for p in f.params))]
    if not c:
        raise AnalysisBroken("anchor function not found: %s %s %s" % (gname, nparams, psub))
    return c[0]


def callback_calls(f):
    """[(call node, root local/this-member text of the object the callback belongs to, decl id or None)]"""
    out = []
    for i in q.calls(f):
        n = f.nodes[i]
        if n["k"] != "CXXMemberCallExpr":
            continue
        t = f.r(n["c"][0])
        if not CB.search(t + "("):
            continue
        # object chain: x._callback->onX / x.callback.onX / x->callback.onX / ((T*)e.socket)->_callback->onX
        o = q.call_object(f, i)
        root = None
        x = o
        while x is not None and x >= 0:
            x = f.strip(x)
            m = f.nodes[x]
            if m["k"] == "MemberExpr" and m["m"] in ("callback", "_callback") and m["c"]:
                b = f.nodes[f.strip(m["c"][0])]
                if b["k"] == "DeclRefExpr" and b["ref"]["dk"] in ("local", "parm"):
                    root = b["ref"]
                break
            if m["k"] in ("MemberExpr", "CStyleCastExpr", "UnaryOperator") and m["c"]:
                x = m["c"][0]
                continue
            break
        out.append((i, root, t))
    return out


def use_after_callback(f):
    """violations: [(callback call, use node, variable name)] where the object whose callback was invoked is used afterwards
    (before its declaration is executed again)"""
    bad = []
    for call, root, text in callback_calls(f):
        if root is None or root["dk"] not in ("local", "parm"):
            continue
        decl = [n["i"] for n in f.nodes if n["k"] == "DeclStmt" and any(d["id"] == root["id"] for d in n["decls"])]
        avoid = q.pos_of(f, decl)
        reach = f.reach(f.succs_pos(f.node_pos(call)), avoid)
        for n in f.nodes:
            if n["k"] == "DeclRefExpr" and n["ref"]["id"] == root["id"]:
                if n["i"] in f.desc(call):
                    continue
                p = f.node_pos(n["i"])
                # an assignment `x._callback = cb->onAccepted(...)` evaluates its left side with the call's statement: same position
                if p in reach and p != f.node_pos(call):
                    bad.append((call, n["i"], root["n"]))
                    break
                if p == f.node_pos(call):
                    continue
    return bad


def io_outcomes(f, prim):
    """decision table of a consumer of Socket::send/recv: for each abstract result class of the primitive follow the guards
    (fin.walk) from the block of the call and report whether a closing action is reached.
    returns {class: (closing reached?, end)} or None when the call is not found"""
    calls = [i for i in q.calls(f) if f.nodes[i].get("callee") == prim]
    if not calls:
        return None
    call = calls[0]
    p = f.up(call)
    while p is not None and f.nodes[p]["k"] != "DeclStmt":
        p = f.up(p)
    if p is None:
        return None
    var = f.nodes[p]["decls"][0]["n"]
    start = f.node_pos(call)[0]
    closing = set(i for i in q.calls(f) if re.search(r"_closingClients\.append|->onClosed\(\)", f.r(i)))
    out = {}
    for cls, v, err in (("would-block", -1, 0), ("error", -1, 104), ("closed", 0, 0), ("partial", 5, 0), ("full", 10, 0)):
        val = {var: v, "Socket::getLastError()": err, "size": 10, "maxSize": 10, "postponed": 1, "this->_suspended": 0, "client._suspended": 0,
               "client._sendBuffer.isEmpty()": 0, "this->_sendBuffer.isEmpty()": 1}
        # whatever the consumer calls its client (`client.`, `writer->`): the object the primitive is called on
        o_ = q.call_object(f, call)
        if o_ is not None and f.nodes[o_]["k"] != "CXXThisExpr":
            me_ = f.nodes[f.strip(f.nodes[call]["c"][0])]
            own_ = q.no_casts(f.r(o_)) + ("->" if me_.get("arrow") else ".")
            val[own_ + "_suspended"] = 0
            val[own_ + "_sendBuffer.isEmpty()"] = 0
        seen, end, _fv = fin.walk_vals(f, start, val, stop_at_loop_back=True)      # follows flag locals such as `connectionLost`
        # only what follows the call in its own block counts
        if call in seen:
            seen = seen[seen.index(call):]
        # stop at the loop back-edge of run(): a `continue` shows as reaching the call's block again; walk() has a step limit instead
        hit = [e for e in seen if e in closing]
        buffered = any(re.search(r"_sendBuffer\.append\(", f.r(e)) for e in seen if f.nodes[e]["k"] in ("CXXMemberCallExpr",))
        retv = fin.eval_expr(f, f.nodes[end]["c"][0], val) if isinstance(end, int) and f.nodes[end]["c"] else None
        out[cls] = (bool(hit), end, buffered, retv)
    return out


def parser_entry_resets(prog, chk, rid, priv, fileend):
    """MPT: the parser object is reused for several documents (Parser keeps one Private); every cursor/line field the tokenizer
    modifies must be set again in Private::parse before the first tokenizer call, on every path"""
    from .. import q as _q
    fs = [f for f in prog.functions.values() if f.gname.startswith(priv + "::") and f.file.endswith(fileend)]
    entry = [f for f in fs if f.short == "parse" and len(f.params) == 2]
    if not entry:
        from ..facts import AnalysisBroken
        raise AnalysisBroken("%s::parse(text, result) not found" % priv)
    entry = entry[0]
    modified = set()
    for f in fs:
        if f is entry or f.kind == "ctor":
            continue
        for s in _q.stores(f):
            t = _q.no_casts(f.r(s.lhs))
            if re.fullmatch(r"this->pos\.\w+", t):
                modified.add(t)
    calls = [c for c in _q.calls(entry) if entry.nodes[c]["k"] == "CXXMemberCallExpr" and entry.nodes[c].get("callee", "").startswith(priv + "::")
             and (_q.call_object(entry, c) is None or entry.nodes[_q.call_object(entry, c)]["k"] == "CXXThisExpr")]
    if not modified or not calls:
        from ..facts import AnalysisBroken
        raise AnalysisBroken("%s: tokenizer state / tokenizer calls not found" % priv)
    where = "%s:%s" % (entry.file, entry.line)
    for fld in sorted(modified):
        sts = [s.node for s in _q.stores(entry) if fld in [_q.no_casts(entry.r(x)) for x in [s.lhs] + ([] if s.rhs is None else [])] or
               # chained `pos.pos = pos.lineStart = data`
               any(entry.nodes[y]["k"] == "BinaryOperator" and entry.nodes[y].get("op") == "=" and _q.no_casts(entry.r(entry.nodes[y]["c"][0])) == fld for y in entry.desc(s.node))]
        ok = bool(sts) and all(_q.precedes_always(entry, sts, c) for c in calls)
        if ok:
            chk.ok(rid, entry, "%s reset before the first tokenizer call" % fld.replace("this->", ""), where, "store dominates every tokenizer call", evals=len(calls))
        else:
            chk.bad(rid, entry, "parser-state-not-reset:" + fld.replace("this->", ""), where,
                    "`%s` is advanced by the tokenizer but not set again at the start of parse(): a Parser object that is used for a second document "
                    "continues from the previous document's value (error positions beyond the text)" % fld.replace("this->", ""))


class Only:
    """forwards the events of one rule of another property's module under a new rule id (a rule that decides clauses of two properties)"""
    def __init__(self, chk, src, dst):
        self.chk, self.src, self.dst = chk, src, dst
        self.extra, self.assumptions = {}, []

    def rule(self, rid, text, floor=1):
        if rid == self.src:
            self.chk.rule(self.dst, text, floor)

    def ok(self, rid, *a, **k):
        if rid == self.src:
            self.chk.ok(self.dst, *a, **k)

    def bad(self, rid, *a, **k):
        if rid == self.src:
            self.chk.bad(self.dst, *a, **k)

    def note(self, t):
        pass

    def broke(self, t):
        self.chk.broke(t)
