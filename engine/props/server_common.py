"""helpers shared by C13 and C14 (Server.cpp)"""
import re
from .. import q, fin
from .. import containers as C
from ..facts import AnalysisBroken

CB = re.compile(r"->on[A-Z]\w*\(|\.on[A-Z]\w*\(")


def sfn(prog, gname, nparams=None, psub=None):
    c = [f for f in prog.functions.values() if f.gname == gname and f.file.endswith(".cpp") and (nparams is None or len(f.params) == nparams)
         and (psub is None or any(psub in p["t"] for p in f.params))]
    if not c:
        raise AnalysisBroken("anchor function not found: %s %s %s" % (gname, nparams, psub))
    return c[0]


def callback_calls(f):
    """[(call node, root local/this-member text of the object the callback belongs to, decl id or None)]"""
    out = []
    for i in q.calls(f):
        n = f.nodes[i]
        if n["k"] != "CXXMemberCallExpr":
            continue
        t = f.r(n["c"][0])
        if not CB.search(t + "("):
            continue
        # object chain: x._callback->onX / x.callback.onX / x->callback.onX / ((T*)e.socket)->_callback->onX
        o = q.call_object(f, i)
        root = None
        x = o
        while x is not None and x >= 0:
            x = f.strip(x)
            m = f.nodes[x]
            if m["k"] == "MemberExpr" and m["m"] in ("callback", "_callback") and m["c"]:
                b = f.nodes[f.strip(m["c"][0])]
                if b["k"] == "DeclRefExpr" and b["ref"]["dk"] in ("local", "parm"):
                    root = b["ref"]
                break
            if m["k"] in ("MemberExpr", "CStyleCastExpr", "UnaryOperator") and m["c"]:
                x = m["c"][0]
                continue
            break
        out.append((i, root, t))
    return out


def use_after_callback(f):
    """violations: [(callback call, use node, variable name)] where the object whose callback was invoked is used afterwards
    (before its declaration is executed again)"""
    bad = []
    for call, root, text in callback_calls(f):
        if root is None or root["dk"] not in ("local", "parm"):
            continue
        decl = [n["i"] for n in f.nodes if n["k"] == "DeclStmt" and any(d["id"] == root["id"] for d in n["decls"])]
        avoid = q.pos_of(f, decl)
        reach = f.reach(f.succs_pos(f.node_pos(call)), avoid)
        for n in f.nodes:
            if n["k"] == "DeclRefExpr" and n["ref"]["id"] == root["id"]:
                if n["i"] in f.desc(call):
                    continue
                p = f.node_pos(n["i"])
                # an assignment `x._callback = cb->onAccepted(...)` evaluates its left side with the call's statement: same position
                if p in reach and p != f.node_pos(call):
                    bad.append((call, n["i"], root["n"]))
                    break
                if p == f.node_pos(call):
                    continue
    return bad


def io_outcomes(f, prim):
    """decision table of a consumer of Socket::send/recv: for each abstract result class of the primitive follow the guards
    (fin.walk) from the block of the call and report whether a closing action is reached.
    returns {class: (closing reached?, end)} or None when the call is not found"""
    calls = [i for i in q.calls(f) if f.nodes[i].get("callee") == prim]
    if not calls:
        return None
    call = calls[0]
    p = f.up(call)
    while p is not None and f.nodes[p]["k"] != "DeclStmt":
        p = f.up(p)
    if p is None:
        return None
    var = f.nodes[p]["decls"][0]["n"]
    start = f.node_pos(call)[0]
    closing = set(i for i in q.calls(f) if re.search(r"_closingClients\.append|->onClosed\(\)", f.r(i)))
    out = {}
    for cls, v, err in (("would-block", -1, 0), ("error", -1, 104), ("closed", 0, 0), ("partial", 5, 0), ("full", 10, 0)):
        val = {var: v, "Socket::getLastError()": err, "size": 10, "maxSize": 10, "postponed": 1, "this->_suspended": 0, "client._suspended": 0,
               "client._sendBuffer.isEmpty()": 0, "this->_sendBuffer.isEmpty()": 1}
        # whatever the consumer calls its client (`client.`, `writer->`): the object the primitive is called on
        o_ = q.call_object(f, call)
        if o_ is not None and f.nodes[o_]["k"] != "CXXThisExpr":
            me_ = f.nodes[f.strip(f.nodes[call]["c"][0])]
            own_ = q.no_casts(f.r(o_)) + ("->" if me_.get("arrow") else ".")
            val[own_ + "_suspended"] = 0
            val[own_ + "_sendBuffer.isEmpty()"] = 0
        seen, end, _fv = fin.walk_vals(f, start, val, stop_at_loop_back=True)      # follows flag locals such as `connectionLost`
        # only what follows the call in its own block counts
        if call in seen:
            seen = seen[seen.index(call):]
        # stop at the loop back-edge of run(): a `continue` shows as reaching the call's block again; walk() has a step limit instead
        hit = [e for e in seen if e in closing]
        buffered = any(re.search(r"_sendBuffer\.append\(", f.r(e)) for e in seen if f.nodes[e]["k"] in ("CXXMemberCallExpr",))
        retv = fin.eval_expr(f, f.nodes[end]["c"][0], val) if isinstance(end, int) and f.nodes[end]["c"] else None
        out[cls] = (bool(hit), end, buffered, retv)
    return out


def parser_entry_resets(prog, chk, rid, priv, fileend):
    """MPT: the parser object is reused for several documents (Parser keeps one Private); every cursor/line field the tokenizer
    modifies must be set again in Private::parse before the first tokenizer call, on every path"""
    from .. import q as _q
    fs = [f for f in prog.functions.values() if f.gname.startswith(priv + "::") and f.file.endswith(fileend)]
    entry = [f for f in fs if f.short == "parse" and len(f.params) == 2]
    if not entry:
        from ..facts import AnalysisBroken
        raise AnalysisBroken("%s::parse(text, result) not found" % priv)
    entry = entry[0]
    modified = set()
    for f in fs:
        if f is entry or f.kind == "ctor":
            continue
        for s in _q.stores(f):
            t = _q.no_casts(f.r(s.lhs))
            if re.fullmatch(r"this->pos\.\w+", t):
                modified.add(t)
    calls = [c for c in _q.calls(entry) if entry.nodes[c]["k"] == "CXXMemberCallExpr" and entry.nodes[c].get("callee", "").startswith(priv + "::")
             and (_q.call_object(entry, c) is None or entry.nodes[_q.call_object(entry, c)]["k"] == "CXXThisExpr")]
    if not modified or not calls:
        from ..facts import AnalysisBroken
        raise AnalysisBroken("%s: tokenizer state / tokenizer calls not found" % priv)
    where = "%s:%s" % (entry.file, entry.line)
    for fld in sorted(modified):
        sts = [s.node for s in _q.stores(entry) if fld in [_q.no_casts(entry.r(x)) for x in [s.lhs] + ([] if s.rhs is None else [])] or
               # chained `pos.pos = pos.lineStart = data`
               any(entry.nodes[y]["k"] == "BinaryOperator" and entry.nodes[y].get("op") == "=" and _q.no_casts(entry.r(entry.nodes[y]["c"][0])) == fld for y in entry.desc(s.node))]
        ok = bool(sts) and all(_q.precedes_always(entry, sts, c) for c in calls)
        if ok:
            chk.ok(rid, entry, "%s reset before the first tokenizer call" % fld.replace("this->", ""), where, "store dominates every tokenizer call", evals=len(calls))
        else:
            chk.bad(rid, entry, "parser-state-not-reset:" + fld.replace("this->", ""), where,
                    "`%s` is advanced by the tokenizer but not set again at the start of parse(): a Parser object that is used for a second document "
                    "continues from the previous document's value (error positions beyond the text)" % fld.replace("this->", ""))


class Only:
    """forwards the events of one rule of another property's module under a new rule id (a rule that decides clauses of two properties)"""
    def __init__(self, chk, src, dst):
        self.chk, self.src, self.dst = chk, src, dst
        self.extra, self.assumptions = {}, []

    def rule(self, rid, text, floor=1):
        if rid == self.src:
            self.chk.rule(self.dst, text, floor)

    def ok(self, rid, *a, **k):
        if rid == self.src:
            self.chk.ok(self.dst, *a, **k)

    def bad(self, rid, *a, **k):
        if rid == self.src:
            self.chk.bad(self.dst, *a, **k)

    def note(self, t):
        pass

    def broke(self, t):
        self.chk.broke(t)


BLOCK_READERS = {"Memory::compare": (0, 1, 2), "Memory::copy": (1, None, 2), "Memory::move": (1, None, 2), "memcmp": (0, 1, 2), "memcpy": (1, None, 2),
                 "memmove": (1, None, 2), "memchr": (0, None, 2), "bcmp": (0, 1, 2), "Memory::find": (0, None, 2)}


def block_reads_on_cursor(prog, chk, rid, priv, fileend, floor_args=3):
    """The document is one NUL-terminated text: the tokenizer may look at a byte only after it has seen every byte before it to be
    non-zero.  Readers that stop at the terminator (String::compare(a, b, n) is strncmp, strchr, strpbrk ...) may be handed the cursor;
    a block reader (memcmp/memcpy and their Memory:: wrappers) looks at all n bytes and must be covered by bytes already scanned."""
    from .. import q as _q, fin as _fin
    from ..facts import AnalysisBroken
    chk.rule(rid, "CUR/WHO: in the tokenizer a block reader (memcmp/memcpy/Memory::compare/copy...) is applied to the cursor only for a length "
                  "that lies between two scanned cursor positions, or for no more bytes than are known non-zero at the cursor", floor=0)
    fs = [f for f in prog.functions.values() if f.gname.startswith(priv + "::") and f.file.endswith(fileend) and f.blocks]
    seen_cursor_args = 0
    n_block = 0
    for f in fs:
        defs = _q.local_defs(f)
        # cursor family: this->pos.pos and the pointer locals whose definitions are built from it
        fam = set()
        for _r in range(3):
            for did, dl in defs.items():
                for kind, nd, init in dl:
                    if init is None or did in fam:
                        continue
                    t = _q.no_casts(f.r(init))
                    if "pos.pos" in t or any(f.nodes[x]["k"] == "DeclRefExpr" and f.nodes[x]["ref"].get("id") in fam for x in [f.strip(init)] + list(f.desc(init))):
                        if "*" in (next((d_["t"] for n_ in f.nodes if n_["k"] == "DeclStmt" for d_ in n_["decls"] if d_["id"] == did), "") or ""):
                            fam.add(did)

        def on_cursor(a):
            return any((f.nodes[x]["k"] == "MemberExpr" and f.nodes[x].get("m") == "pos" and "pos.pos" in _q.no_casts(f.r(x))) or
                       (f.nodes[x]["k"] == "DeclRefExpr" and f.nodes[x]["ref"].get("id") in fam) for x in [f.strip(a)] + list(f.desc(a)))
        for c in _q.calls(f):
            callee = f.nodes[c].get("callee") or ""
            args = _q.call_args(f, c)
            cur_args = [k for k, a in enumerate(args) if on_cursor(a) and "*" in (f.nodes[f.strip(a)].get("t") or "")]
            if cur_args:
                seen_cursor_args += 1
            spec = BLOCK_READERS.get(callee)
            if spec is None or not cur_args:
                continue
            srcs = [k for k in spec[:2] if k is not None and k in cur_args]
            if not srcs or len(args) <= spec[2]:
                continue
            n_block += 1
            ln = args[spec[2]]
            v = _fin.eval_expr(f, ln, {})
            # bytes known non-zero at the cursor: the byte under it, when a dominating test / case label says so
            atoms = _fin.dominating_atoms(f, f.node_pos(c))
            known = 1 if any((a[0] == "case" and a[2] not in (0, None) and re.search(r"^\*", _q.no_casts(_fin.key(f, a[1])))) or
                             (a[0] != "case" and a[1] and re.search(r"^\*", _q.no_casts(_fin.key(f, a[0])))) for a in atoms) else 0
            lnode = f.nodes[f.strip(ln)]
            between = lnode["k"] == "BinaryOperator" and lnode.get("op") == "-" and all(on_cursor(x) for x in lnode["c"])
            if between or (isinstance(v, int) and v <= known):
                chk.ok(rid, f, "%s over scanned bytes" % callee, f.where(c), _q.no_casts(f.r(c))[:60], evals=2)
            else:
                chk.bad(rid, f, "block-read-beyond-scanned-bytes:" + callee, f.where(c),
                        "`%s` reads %s bytes at the cursor although only %d byte(s) there are known to be non-zero: on a document that ends "
                        "inside this token it reads past the terminator (String::compare(a, b, n) stops at it)" % (
                            _q.no_casts(f.r(c))[:70], v if v is not None else "an unchecked number of", known), evals=2)
    if seen_cursor_args < floor_args:
        raise AnalysisBroken("%s: only %d calls take the cursor (expected at least %d): the cursor family was not recognised" % (priv, seen_cursor_args, floor_args))
    if not n_block:
        chk.ok(rid, priv, "no block reader is applied to the cursor (%d calls that take the cursor inspected)" % seen_cursor_args, "", "callee table", nontrivial=False)


MAY_RETURN_NULL = ("String::find", "String::findOneOf", "String::findLast", "String::findLastOf", "strchr", "strrchr", "strstr", "strpbrk", "memchr", "Memory::find")


def cursor_stores_not_null(prog, chk, rid, priv, fileend, required=True):
    """Error positions (line, column) are computed from a Position's byte pointer: `column = pos - lineStart + 1`.  A pointer that a
    search returned may be null (nothing found before the terminator); stored into a Position it makes the reported column a
    meaningless number instead of a place in the text."""
    from .. import q as _q, fin as _fin
    from ..facts import AnalysisBroken
    chk.rule(rid, "DOM (nullness): a pointer obtained from a search that may find nothing is stored into a Position's byte pointer only where a "
                  "dominating test has seen it non-null", floor=1 if required else 0)
    n = 0
    for f in [g for g in prog.functions.values() if g.gname.startswith(priv + "::") and g.file.endswith(fileend) and g.blocks]:
        defs = _q.local_defs(f)
        maybe = {}
        for did, dl in defs.items():
            for kind, nd, init in dl:
                if init is None:
                    continue
                x = f.nodes[f.strip(init)]
                if x["k"] in ("CallExpr", "CXXMemberCallExpr") and (x.get("callee") or "") in MAY_RETURN_NULL:
                    maybe[did] = x.get("callee")
        for st in _q.stores(f):
            l = f.nodes[st.lhs]
            if l["k"] != "MemberExpr" or l.get("m") != "pos" or "*" not in (l.get("t") or "") or st.rhs is None or st.op != "=":
                continue
            r = f.nodes[f.strip(st.rhs)]
            while r["k"] in ("CStyleCastExpr", "ImplicitCastExpr", "ParenExpr") and r["c"]:
                nx_ = f.strip(r["c"][0])
                r = f.nodes[nx_] if nx_ != r["i"] else f.nodes[r["c"][0]]
            if r["k"] != "DeclRefExpr" or r["ref"].get("id") not in maybe:
                continue
            n += 1
            name = r["ref"]["n"]
            atoms = _fin.dominating_atoms(f, f.node_pos(st.node))
            seen_nonnull = False
            for a in atoms:
                if a[0] == "case":
                    continue
                x_ = _fin.nonzero_operand(f, a[0], a[1])
                if x_ is not None and _q.no_casts(f.r(x_)) == name:
                    seen_nonnull = True
            if seen_nonnull:
                chk.ok(rid, f, "`%s` (from %s) stored into a position after it was seen non-null" % (name, maybe[r["ref"]["id"]]), f.where(st.node), "dominating non-null test", evals=len(atoms) or 1)
            else:
                chk.bad(rid, f, "null-pointer-into-position:" + name, f.where(st.node),
                        "`%s` stores the result of %s into a position although nothing has seen it non-null: when the search runs into the "
                        "terminator the reported column is `0 - lineStart + 1`, far outside the text" % (_q.no_casts(f.r(st.node))[:50], maybe[r["ref"]["id"]]), evals=len(atoms) or 1)
    if not n and required:
        raise AnalysisBroken("%s: no search result is stored into a Position (expected: the tokenizer advances its cursor to found bytes)" % priv)
    if not n:
        chk.ok(rid, priv, "no search result is stored into a Position", "", "this tokenizer walks byte by byte", nontrivial=False)
