"""C04 — containers construct and destroy each element exactly once; copies are deep."""
from .. import containers as C
from . import c04_alias

EXPLANATION = (
    "Pairing rules over every member function of the eight container templates (instantiated in witness/instantiate.cpp): "
    "class facts (rule of three), ORD under aliasing for operator=, WHO (only the destructor frees blocks; the destructor frees "
    "every owned allocation), DOM (placement-new only into a slot just taken from the free list / a fresh block), CNT/MPT "
    "(remove destroys exactly once and recycles; clear/destructor destroy along the list walk), Array storage discipline, and the "
    "ALIAS rule for arguments that may refer into the container itself. Not decided: leak freedom over all histories in the "
    "strong sense (needs the shape invariants), what element constructors do.")


def run(prog, chk):
    chk.extra["explanation"] = EXPLANATION
    C.rule_of_three(prog, chk, "C04.a")
    C.self_assign(prog, chk, "C04.b")
    C.construct_targets(prog, chk, "C04.c1")
    C.destroy_once(prog, chk, "C04.c2")
    C.free_only_in_dtor(prog, chk, "C04.d")
    c04_alias.array_rules(prog, chk, "C04.arr")
    # swap must hand the free list over together with the blocks it lives in: otherwise both containers pop the same slot
    # (an element is constructed over a live one) and slots sit in blocks owned by the other container
    C.swap_handover(prog, chk, "C04.f")
    c04_alias.alias_rules(prog, chk, "C04.e")
    # a destroyed node must not stay reachable: removal unlinks it from the order list and (hash containers) from its bucket chain,
    # repairing the chain successor's back pointer, so that no later operation writes through or compares against the dead node
    C.unlink_idiom(prog, chk, "C04.g", ("List", "Map", "MultiMap", "HashMap", "HashSet"))
    # ... and clear() leaves no pointer to a destroyed node behind (list ends, sentinel back pointer, root, buckets)
    C.clear_resets(prog, chk, "C04.h", tuple(C.NODE))
    C.counting_against_moving_bound(prog, chk, "C04.i", tuple(C.NODE) + ("Array",))
    # ... nor may removal pick the wrong child slot of the parent (equal keys): the destroyed node would stay linked in the tree
    from . import c01
    c01.parent_slot_by_identity(prog, chk, "C04.j")
    no_raw_element_copies(prog, chk, "C04.k")
    # begin() hands out a reference to the container's own _begin: an iterator argument may be that member (prepend() passes it) and has
    # to behave as if copied first - read after _begin was re-seated, the new node is linked to itself and elements are destroyed twice
    C.iterator_param_alias(prog, chk, "C04.l", tuple(C.NODE))
    # copies re-insert into the destination's own bucket array: its size and the count used for indexing must stay in agreement
    C.bucket_index(prog, chk, "C04.i", ("HashMap", "HashSet"))


def no_raw_element_copies(prog, chk, rid):
    """elements live where they were constructed and change only through their own copy constructor / assignment operator: a byte copy
    of an element (memcpy-style swap in a sort, a relocation by memmove) leaves objects that point into themselves - or that are known
    by their address - referring to the storage of another element"""
    import re
    from .. import q
    from ..facts import AnalysisBroken
    chk.rule(rid, "WHO: in the container headers no byte copy (Memory::copy / Memory::move / memcpy / memmove) has an element, a key or a node "
                  "payload as source or destination (the bucket array of pointers is the only raw memory these containers move)", floor=1)
    heads = ("Array.hpp", "List.hpp", "Map.hpp", "MultiMap.hpp", "HashMap.hpp", "HashSet.hpp", "PoolList.hpp", "PoolMap.hpp")
    fs = [f for f in prog.functions.values() if f.file.endswith(heads) and f.blocks]
    if len(fs) < 100:
        raise AnalysisBroken("C04.k: only %d container member functions found" % len(fs))
    bad = []
    n_raw = 0
    for f in fs:
        for c in q.calls(f):
            if (f.nodes[c].get("callee") or "") not in ("Memory::copy", "Memory::move", "memcpy", "memmove", "__builtin_memcpy", "__builtin_memmove"):
                continue
            n_raw += 1
            args = q.call_args(f, c)[:2]
            # the bucket array: a pointer to node pointers
            if all(re.search(r"Item \*\*$|Item \*const \*$", (f.nodes[f.strip(a)].get("t") or "")) for a in args):
                continue
            bad.append((f, c))
    seen = set()
    for f, c in bad:
        k = (f.gname, f.nodes[c].get("l"))
        if k in seen:
            continue
        seen.add(k)
        chk.bad(rid, f, "element-moved-by-byte-copy", f.where(c),
                "`%s` copies the bytes of an element instead of using its copy constructor / assignment: an element that holds a pointer into "
                "itself (an inline buffer) or is registered by its address is left referring to another element's storage, and is later "
                "destroyed at an address it was never constructed at" % q.no_casts(f.r(c))[:60], evals=2)
    if not bad:
        chk.ok(rid, "containers", "%d member functions scanned, %d raw copies, none touches an element" % (len(fs), n_raw), "include/nstd", "call scan over the container headers", evals=len(fs))
