"""C04 — containers construct and destroy each element exactly once; copies are deep."""
from .. import containers as C
from . import c04_alias

EXPLANATION = (
    "Pairing rules over every member function of the eight container templates (instantiated in witness/instantiate.cpp): "
    "class facts (rule of three), ORD under aliasing for operator=, WHO (only the destructor frees blocks; the destructor frees "
    "every owned allocation), DOM (placement-new only into a slot just taken from the free list / a fresh block), CNT/MPT "
    "(remove destroys exactly once and recycles; clear/destructor destroy along the list walk), Array storage discipline, and the "
    "ALIAS rule for arguments that may refer into the container itself. Not decided: leak freedom over all histories in the "
    "strong sense (needs the shape invariants), what element constructors do.")


def run(prog, chk):
    chk.extra["explanation"] = EXPLANATION
    C.rule_of_three(prog, chk, "C04.a")
    C.self_assign(prog, chk, "C04.b")
    C.construct_targets(prog, chk, "C04.c1")
    C.destroy_once(prog, chk, "C04.c2")
    C.free_only_in_dtor(prog, chk, "C04.d")
    c04_alias.array_rules(prog, chk, "C04.arr")
    # swap must hand the free list over together with the blocks it lives in: otherwise both containers pop the same slot
    # (an element is constructed over a live one) and slots sit in blocks owned by the other container
    C.swap_handover(prog, chk, "C04.f")
    c04_alias.alias_rules(prog, chk, "C04.e")
    # a destroyed node must not stay reachable: removal unlinks it from the order list and (hash containers) from its bucket chain,
    # repairing the chain successor's back pointer, so that no later operation writes through or compares against the dead node
    C.unlink_idiom(prog, chk, "C04.g", ("List", "Map", "MultiMap", "HashMap", "HashSet"))
    # ... and clear() leaves no pointer to a destroyed node behind (list ends, sentinel back pointer, root, buckets)
    C.clear_resets(prog, chk, "C04.h", tuple(C.NODE))
    C.counting_against_moving_bound(prog, chk, "C04.i", tuple(C.NODE) + ("Array",))
    # ... nor may removal pick the wrong child slot of the parent (equal keys): the destroyed node would stay linked in the tree
    from . import c01
    c01.parent_slot_by_identity(prog, chk, "C04.j")
    # copies re-insert into the destination's own bucket array: its size and the count used for indexing must stay in agreement
    C.bucket_index(prog, chk, "C04.i", ("HashMap", "HashSet"))
