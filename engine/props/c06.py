"""C06 — String is an independent byte-string value."""
import re
from .. import q, fin
from .. import containers as C
from .. import refcount as R
from ..facts import AnalysisBroken

EXPLANATION = (
    "Detach-before-write discipline of the copy-on-write String, decided on every member of String (String.hpp + String.cpp): "
    "(a) every store through data->str / to data->len / data->capacity is dominated by a detach() on this object, by the true edge of "
    "`data->ref == 1`, or targets a block allocated in the same function; (b) the in-place branch of detach is taken only for reference "
    "count exactly one and sufficient capacity (finite valuations); (c) every length store on an owned block is paired with a NUL "
    "store; (d) every block allocation has the shape sizeof(Data) + (c + 1) with the same c stored as capacity; (e) the sharing branch "
    "of copy constructor / assignment is dominated by `other is owned`; (f) both C-string views test data->str[data->len] and detach; "
    "(g) ALIAS: arguments that may refer into the string's own text are not read after a reallocating detach. Not decided: byte "
    "equality with a reference string after arbitrary histories, results of search/compare/format functions.")


def string_functions(prog):
    fs = [f for f in prog.functions.values() if f.clsq == "String" and f.blocks]
    if len(fs) < 60:
        raise AnalysisBroken("class String: only %d member functions found" % len(fs))
    return sorted(fs, key=lambda f: (f.file, f.line))


def _detach_calls(f):
    out = []
    for i in q.calls(f):
        n = f.nodes[i]
        if n.get("callee") == "String::detach":
            o = q.call_object(f, i)
            if o is None or f.nodes[o]["k"] == "CXXThisExpr" or "this" in f.r(o):
                out.append(i)
    return out


def run(prog, chk):
    chk.extra["explanation"] = EXPLANATION
    fs = string_functions(prog)
    chk.rule("C06.a", "DOM: every write to the text block (through data->str, data->len, data->capacity) is dominated by detach() on "
                      "this String, by the true edge of `data->ref == 1`, or targets a block allocated in this function", floor=20)
    chk.rule("C06.c", "PAIRF: every length store on an owned block is accompanied by a NUL store through that block on every path", floor=8)
    chk.rule("C06.d", "VSA (symbolic): every text block is allocated as sizeof(Data) + (c + 1) * sizeof(char) with the same c stored as its capacity", floor=6)
    chk.rule("C06.e", "DOM: the block-sharing branch of copy constructor / copy assignment is taken only when the source owns a counted block", floor=2)
    chk.rule("C06.f", "DOM: operator const char* tests data->str[data->len] and detaches before returning when it is non-zero", floor=2)
    chk.rule("C06.g", "ALIAS: after a detach() that may reallocate or that does not preserve the length, the member does not read an "
                      "argument that may refer into this String's own text; own text is not handed to such a member", floor=4)

    hazard = {}
    for f in fs:
        defs = q.local_defs(f)
        det = _detach_calls(f)
        fresh_locals = set()
        for did, dl in defs.items():
            for kind, nd, init in dl:
                if init is not None and "new char[]" in f.r(init):
                    fresh_locals.add(did)
        # ------------------------------------------------------------ C06.a
        for s in q.stores(f):
            lt = q.no_casts(f.r(s.lhs))
            m = re.match(r"^(\*)?(this->data|\w+)->(str|len|capacity)\b", lt) or re.match(r"^(\*)?(this->data|\w+)->(str)\[", lt)
            if not m and (lt.startswith("*") or "[" in lt):
                # write through a raw cursor initialised from this String's text pointer
                r0 = C.base_local(f, s.lhs)
                if r0 is not None and r0["dk"] == "local" and any(
                        init is not None and "this->data->str" in q.no_casts(f.r(init)) for kind, _n, init in defs.get(r0["id"], [])):
                    m = re.match(r"^(\*)?(this->data)->(str)", "*this->data->str")
                    lt = "*(cursor %s into this->data->str)" % r0["n"]
            if not m or m.group(3) == "str" and not (lt.startswith("*") or "[" in lt):
                # `X->str = ...` (pointer seat) is only legal on a fresh block or the inline descriptor
                if m and m.group(3) == "str" and m.group(2) == "this->data":
                    pass
                else:
                    continue
            base = m.group(2)
            pos = f.node_pos(s.node)
            where = f.where(s.node)
            what = "write `%s`" % lt[:50]
            if base != "this->data":
                bn = None
                for n in f.nodes:
                    if n["k"] == "DeclRefExpr" and n["ref"]["n"] == base and n["ref"]["dk"] == "local":
                        bn = n["ref"]["id"]
                if bn in fresh_locals:
                    chk.ok("C06.a", f, what + " on the freshly allocated block", where, "local from new", nontrivial=False)
                continue
            # this->data: fresh assignment dominating?
            fw = [w for w in q.field_writes(f, "data", "this") if w.rhs is not None and "new char[]" in q.no_casts(C.norm(f, w.rhs, {}, defs))
                  and f.dominates_pos(w.pos, pos)]
            if fw:
                chk.ok("C06.a", f, what + " after `data = new ...`", where, "allocation dominates", nontrivial=False)
                continue
            dd = [d for d in det if f.dominates_pos(f.node_pos(d), pos) and f.node_pos(d) != pos]
            # a re-share between the detach and the write would invalidate it
            reshared = [w for w in q.field_writes(f, "data", "this") if any(f.find_path(f.node_pos(d), {w.pos}) for d in dd) and f.find_path(w.pos, {pos})]
            if dd and not reshared:
                chk.ok("C06.a", f, what + " after detach()", where, "detach() dominates the write", evals=2)
                continue
            feas, opaque, atoms = fin.feasible_valuations(f, pos, {"this->data->ref": (0, 1, 2, 3)})
            refs = sorted(set(v["this->data->ref"] for v in feas))
            if refs == [1]:
                chk.ok("C06.a", f, what + " under data->ref == 1", where, "feasible reference counts %s" % refs, evals=4)
            else:
                chk.bad("C06.a", f, "write-to-possibly-shared-text:" + lt.replace("this->", "")[:40], where,
                        "`%s` writes the text block without a dominating detach(), exclusive-owner test or fresh allocation (reference "
                        "counts possible here: %s): another String, a literal or attached memory may be modified" % (f.r(s.node)[:60], refs))
        # ------------------------------------------------------------ C06.c
        for s in q.stores(f):
            lt = q.no_casts(f.r(s.lhs))
            m = re.match(r"^(this->data|\w+)->len$", lt)
            if not m or m.group(1) in ("this->_data", "_data") or lt.startswith("this->_data"):
                continue
            blk = m.group(1)
            if blk != "this->data" and not any(n["k"] == "DeclRefExpr" and n["ref"]["n"] == blk and n["ref"]["id"] in fresh_locals for n in f.nodes):
                continue
            nul = []
            for t in q.stores(f):
                tl = q.no_casts(f.r(t.lhs))
                if t.rhs is not None and q.is_zero(f, t.rhs) and (tl.startswith(blk + "->str[") or tl == "*" + blk + "->str" or
                                                                   (tl.startswith("*") and blk + "->str" in q.no_casts(C.norm(f, t.lhs, {}, defs)))):
                    nul.append(t.node)
                elif t.rhs is not None and q.is_zero(f, t.rhs) and (tl.startswith("*") or re.match(r"^\w+\[", tl)):
                    # `*i = 0` where the cursor i was initialised from the block's text pointer
                    r = C.base_local(f, t.lhs)
                    if r is not None and any(init is not None and blk + "->str" in q.no_casts(f.r(init)) for kind, _n, init in defs.get(r["id"], [])):
                        nul.append(t.node)
                    else:
                        # through a local alias of the text pointer (`char* const newStr = (char*)newData->str`): the pointer written through
                        x_ = f.nodes[f.strip(t.lhs)]
                        while x_["k"] in ("UnaryOperator", "ArraySubscriptExpr", "ParenExpr", "CStyleCastExpr", "ImplicitCastExpr") and x_["c"]:
                            nx_ = f.strip(x_["c"][0])
                            x_ = f.nodes[nx_] if nx_ != x_["i"] else f.nodes[x_["c"][0]]
                        if x_["k"] == "DeclRefExpr" and x_["ref"].get("dk") == "local":
                            ini_ = q.single_def(f, x_["ref"]["id"], defs)
                            if ini_ is not None and (blk + "->str") in q.no_casts(f.r(ini_)):
                                nul.append(t.node)
                            elif any(q.no_casts(f.r(u_.lhs)) == blk + "->str" and u_.rhs is not None and
                                     q.no_casts(f.r(u_.rhs)) == x_["ref"]["n"] for u_ in q.stores(f)):
                                nul.append(t.node)      # the alias IS what the block's text pointer was set from (`blk->str = newStr`)
            # vsnprintf into the block with a size that includes the terminator also terminates it
            for c in q.calls(f):
                if f.nodes[c].get("callee") in ("vsnprintf", "snprintf") and blk + "->str" in q.no_casts(f.r(c)):
                    nul.append(c)
            pos = f.node_pos(s.node)
            if nul and C.paths_all_pass(f, pos, q.pos_of(f, nul)):
                chk.ok("C06.c", f, "len store paired with NUL store on `%s`" % blk, f.where(s.node), "NUL store on every path through", evals=2)
            else:
                chk.bad("C06.c", f, "length-without-terminator:" + blk.replace("this->", ""), f.where(s.node),
                        "`%s` sets the length of an owned block and a path through it stores no terminating NUL into that block" % f.r(s.node)[:60])
        # ------------------------------------------------------------ C06.d
        for i, n in enumerate(f.nodes):
            if n["k"] != "CXXNewExpr" or not n.get("arr") or "asize" not in n:
                continue
            e = q.no_casts(C.norm(f, n["asize"], {}, defs))
            m = re.match(r"^\(\(\((.+) \+ 1\) \* sizeof\(char\)\) \+ sizeof\(String::Data\)\)$", e)
            if "String::Data" not in e:
                continue
            if not m:
                chk.bad("C06.d", f, "text-block-size-shape", f.where(i),
                        "text block allocated with %s bytes; expected sizeof(Data) + (capacity + 1) * sizeof(char) (room for the terminator)" % e[:80])
                continue
            c = m.group(1)
            caps = [s for s in q.stores(f) if q.no_casts(f.r(s.lhs)).endswith("->capacity") and s.rhs is not None]
            good = [s for s in caps if q.no_casts(C.norm(f, s.rhs, {}, defs)) == c]
            pos = f.node_pos(i)
            if good and C.paths_all_pass(f, pos, q.pos_of(f, [s.node for s in good])):
                chk.ok("C06.d", f, "block of capacity %s + 1 chars, capacity stored as %s" % (c[:30], c[:30]), f.where(i), "same expression", evals=2)
            else:
                chk.bad("C06.d", f, "capacity-does-not-match-allocation", f.where(i),
                        "the block holds (%s) + 1 chars but `capacity` is not set to that value on every path through the allocation" % c[:40])
        # ------------------------------------------------------------ C06.e
        if f.kind == "copyassign" or f.d.get("copyctor"):
            other = f.params[0]["n"]
            for w in q.field_writes(f, "data", "this"):
                if w.rhs is None:
                    continue
                rt = q.no_casts(C.norm(f, w.rhs, {}, defs))
                if rt != other + ".data":
                    continue
                atoms = fin.dominating_atoms(f, w.pos)
                nz = [fin.nonzero_operand(f, a[0], a[1]) for a in atoms if a[0] != "case"]       # `ref`, `ref != 0`, `!(ref == 0)` ...
                ok = any(x is not None and q.no_casts(C.norm(f, x, {}, defs)) == other + ".data->ref" for x in nz)
                if ok:
                    chk.ok("C06.e", f, "shares the source block only when it is counted", f.where(w.node) if w.node is not None else "", "true edge of other.data->ref")
                else:
                    chk.bad("C06.e", f, "shares-non-owned-text", f.where(w.node) if w.node is not None else "%s:%s" % (f.file, f.line),
                            "the copy takes over `%s.data` without having tested that it is a counted block: the inline descriptor of a "
                            "literal/attached String dies with its owner" % other)
        # ------------------------------------------------------------ C06.f
        if f.kind == "conv" and f.d["ret"] == "const char *":
            rets = [i for i, n in enumerate(f.nodes) if n["k"] == "ReturnStmt"]
            tests = [b for b in f.blocks.values() if b.get("cond") is not None and re.search(r"this->data->str\[this->data->len\]", q.no_casts(f.r(b["cond"])))]
            det2 = _detach_calls(f)
            ok = False
            if tests and det2:
                b = tests[0]
                # the edge taken when the byte at [len] is non-zero, however the test is spelled (`x`, `x != 0`, `!(x == 0)`, `x == '\\0'` ...)
                kx = [fin.key(f, i_) for i_ in f.desc(b["cond"]) if f.nodes[i_]["k"] == "ArraySubscriptExpr" and
                      re.fullmatch(r"this->data->str\[this->data->len\]", q.no_casts(f.r(i_)))]
                vnz = fin.eval_expr(f, b["cond"], {k_: 65 for k_ in kx}) if kx else None
                vz = fin.eval_expr(f, b["cond"], {k_: 0 for k_ in kx}) if kx else None
                if vnz is not None and vz is not None and bool(vnz) != bool(vz):
                    un = b["succ"][0] if vnz else b["succ"][1]
                    ok = un is not None and f.edge_dominates((b["id"], un), f.node_pos(det2[0])) and all(
                        f.find_path((un, 0), {f.node_pos(r)}, avoid=q.pos_of(f, det2), after_src=False) is None for r in rets)
            if not ok and rets:
                strs = [r for r in rets if f.nodes[r]["c"] and re.search(r"(->|\.)str$", q.no_casts(q.xr(f, f.nodes[r]["c"][0])).strip("()"))]
                ok = bool(strs) and len(strs) == len(rets) and all(_view_probed(f, r) for r in strs)
            if not ok and rets and not det2:
                # the non-const overload may simply delegate to the const one on the same object
                dl = []
                for r in rets:
                    c0 = f.nodes[r]["c"][0] if f.nodes[r]["c"] else None
                    x = f.strip(c0) if c0 is not None else None
                    nx = f.nodes[x] if x is not None else {}
                    if nx.get("k") == "CXXMemberCallExpr" and nx.get("callee") == f.name and nx.get("csig") != f.sig:
                        o = q.call_object(f, x)
                        ot = q.no_casts(q.xr(f, o, defs)) if o is not None else "this"
                        dl.append(ot in ("*this", "this", "(*this)"))
                    else:
                        dl.append(False)
                ok = bool(dl) and all(dl)
            if ok:
                chk.ok("C06.f", f, "C-string view detaches unterminated text", "%s:%s" % (f.file, f.line), "test of str[len], detach on its true edge before the return", evals=2)
            else:
                chk.bad("C06.f", f, "c-string-view-without-terminator-check", "%s:%s" % (f.file, f.line),
                        "operator const char* must test data->str[data->len] and detach() before returning when it is non-zero (attached text need not be terminated)")
        # ------------------------------------------------------------ C06.g (direct hazards)
        if det and f.short not in ("detach",):
            holds_copy = any(n["k"] == "DeclStmt" and any(d["t"] == "String" and "init" in d and f.r(d["init"]).replace(" ", "") in ("copy(*this)", "*this") for d in n["decls"]) for n in f.nodes)
            for k, p in enumerate(f.params):
                if p["t"] == "const String &":
                    # reads of P.data after a detach that does not preserve the length
                    lossy = [d for d in det if q.no_casts(q.xr(f, q.call_args(f, d)[0])) != "this->data->len"]      # the length may sit in a local
                    reads = [i for i, n in enumerate(f.nodes) if n["k"] == "MemberExpr" and n["m"] == "data" and n["c"] and f.r(n["c"][0]) == p["n"]]
                    late = [r for r in reads if any(q.reaches(f, d, r) for d in lossy)]
                    if late:
                        hazard.setdefault(f.sig, set()).add(k)
                        chk.bad("C06.g", f, "argument-text-read-after-lossy-detach:" + p["n"], f.where(late[0]),
                                "`%s.data` is read after detach(%s, ...) replaced this String's text; with s.%s(s) that is the new, "
                                "uninitialised block" % (p["n"], q.no_casts(f.r(q.call_args(f, lossy[0])[0])), f.short))
                    else:
                        chk.ok("C06.g", f, "argument `%s` is not read after a length-changing detach" % p["n"], "%s:%s" % (f.file, f.line), "reachability", evals=max(1, len(det)))
                elif p["t"] == "const char *":
                    reads = [i for i, n in enumerate(f.nodes) if n["k"] == "DeclRefExpr" and n["ref"]["id"] == p["id"]]
                    late = [r for r in reads if any(q.reaches(f, d, r) for d in det)]
                    if late and not holds_copy:
                        hazard.setdefault(f.sig, set()).add(k)
                        chk.bad("C06.g", f, "pointer-argument-read-after-detach:" + p["n"], f.where(late[0]),
                                "`%s` is read after detach(), which frees the old block when this String is its only owner and has to grow; "
                                "a pointer into the String's own text then dangles" % p["n"])
                    else:
                        chk.ok("C06.g", f, "pointer argument `%s` safe across detach" % p["n"], "%s:%s" % (f.file, f.line),
                               "a local copy keeps the old block alive" if holds_copy else "not read after detach", evals=max(1, len(det)))
    # callers handing own text to a hazardous member
    for f in fs:
        sp = [p for p in f.params if p["t"] == "const String &"]
        for c in q.calls(f):
            hz = hazard.get(f.nodes[c].get("csig"))
            if not hz:
                continue
            o = q.call_object(f, c)
            if o is not None and f.nodes[o]["k"] != "CXXThisExpr":
                continue
            args = q.call_args(f, c)
            for k in hz:
                if k >= len(args):
                    continue
                t = q.no_casts(f.r(args[k]))
                src = None
                for p in sp:
                    if re.search(r"\b%s\.data->str\b" % re.escape(p["n"]), t) or t == p["n"]:
                        src = "the String parameter `%s`, which may be this String itself" % p["n"]
                if "this->data->str" in t:
                    src = "this String's own text"
                if src:
                    chk.bad("C06.g", f, "own-text-passed-to-reallocating-member:" + f.nodes[c]["callee"].split("::")[-1], f.where(c),
                            "argument `%s` is taken from %s and passed to a member that reads it after detach(): with s.%s(s) and growth the "
                            "bytes are copied from freed memory" % (t[:40], src, f.short))
                else:
                    chk.ok("C06.g", f, "argument %d of %s is not own text" % (k, f.nodes[c]["callee"]), f.where(c), t[:40])
    R.exclusive_guard(prog, chk, "C06.b", ("String",), floor=4)
    formatted_length(prog, chk, fs)
    join_alternation(prog, chk, "C06.i")
    detach_precondition(prog, chk, "C06.j", fs)
    raw_text_to_nul_readers(prog, chk, "C06.k", fs)
    stale_text_pointers(prog, chk, "C06.l", fs)
    last_occurrence_scans(prog, chk, "C06.m", fs)
    text_pointer_sources(prog, chk, "C06.n")
    substr_window(prog, chk, "C06.o")
    cstring_view_probed(prog, chk, "C06.p")
    replace_searches_whole_rest(prog, chk, "C06.q")
    argument_block_snapshots(prog, chk, "C06.r", fs)
    mutable_view_exclusive(prog, chk, "C06.s", fs)


def formatted_length(prog, chk, fs):
    """vsnprintf(dst, S, ...) writes at most S - 1 characters and returns the length the full output needs: the returned length may be
    stored as the String's length only when it is below S (or S was sized as length + 1 after measuring)"""
    chk.rule("C06.h", "TBL: a length returned by vsnprintf(dst, S, ...) is accepted as the String's length only under `result < S` with the same S, "
                      "or when S is the measured length + 1", floor=4)
    for f in fs:
        vs = [c for c in q.calls(f) if f.nodes[c].get("callee") == "vsnprintf"]
        if not vs:
            continue
        defs = q.local_defs(f)
        lens = [s for s in q.stores(f) if re.search(r"->len$", q.no_casts(f.r(s.lhs))) and s.rhs is not None]
        for s in lens:
            rv = q.no_casts(f.r(s.rhs))
            # the vsnprintf whose result this is: the last one that reaches the store without another in between
            src = [c for c in vs if q.reaches(f, c, s.node) and not any(o != c and q.reaches(f, c, o) and q.reaches(f, o, s.node) for o in vs)]
            if not src:
                continue
            c = src[0]
            args = q.call_args(f, c)
            if q.is_zero(f, args[1]):
                continue
            S = q.no_casts(f.r(args[1]))
            atoms = fin.dominating_atoms(f, f.node_pos(s.node))
            ok = None
            rel = fin.relations(f, f.node_pos(s.node), render=lambda i: q.no_casts(f.r(i)))
            if (rv, "<", S) in rel:
                ok = "result < size given to vsnprintf"
            elif (rv, "<=", "(%s - 1)" % S) in rel:
                ok = "result <= size - 1"
            if ok is None and S == "(%s + 1)" % rv:
                # second pass: the size is the measured length + 1, and the block was detached for that length
                meas = [o for o in vs if q.is_zero(f, q.call_args(f, o)[1]) and q.reaches(f, o, c)]
                det = [d for d in q.calls(f) if f.nodes[d].get("callee") == "String::detach" and q.reaches(f, d, c) and
                       q.no_casts(f.r(q.call_args(f, d)[1])) == rv]
                if meas and det:
                    ok = "size is the measured length + 1 after detach(0, length)"
            if ok:
                chk.ok("C06.h", f, "len = %s accepted: %s" % (rv, ok), f.where(s.node), "dominating atom / size shape", evals=len(atoms) + 1)
            else:
                facts = [q.no_casts(fin.key(f, a[0])) for a in atoms if a[0] != "case" and a[1] and rv in fin.key(f, a[0])]
                chk.bad("C06.h", f, "formatted-length-accepted-beyond-buffer", f.where(s.node),
                        "`%s` stores the value returned by vsnprintf(dst, %s, ...) as the length although the dominating tests (%s) do not establish "
                        "it is below %s: vsnprintf wrote only %s - 1 characters, the String reports a length whose last byte is the terminator" % (f.r(s.node)[:50], S, facts, S, S))


def join_alternation(prog, chk, rid):
    """typestate over String::join: along every path the appends alternate token, separator, token, ..., token.
    states: S0 nothing appended yet, ST last append was a token, SS last append was the separator.  Branch conditions are taken as
    non-deterministic (token values are arbitrary, e.g. empty) except bool locals (tracked) and comparisons of the loop iterator with
    begin() (true exactly in S0)."""
    from .. import fin
    chk.rule(rid, "typestate: in String::join every path appends token (separator token)*: one separator between any two tokens whatever the "
                  "tokens contain, none before the first or after the last", floor=1)
    fs = [f for f in prog.functions.values() if f.name == "String::join" and f.file.endswith("String.cpp")]
    if not fs:
        raise AnalysisBroken("String::join not found")
    f = fs[0]
    sep = [p for p in f.params if p["t"] in ("char", "const char")]
    if not sep:
        raise AnalysisBroken("String::join: separator parameter not found")
    sep = sep[0]["n"]
    flags = sorted(d["n"] for n in f.nodes if n["k"] == "DeclStmt" for d in n["decls"] if (d.get("t") or "").replace("const ", "").strip() == "bool")
    errors = []

    def transfer(st, e):
        if not isinstance(e, int):
            return st
        n = f.nodes[e]
        out = set()
        for (s, fl) in st:
            if n["k"] == "CXXMemberCallExpr" and re.match(r"^this->append\(", f.r(e)) or (n["k"] == "CXXOperatorCallExpr" and re.match(r"^\(?\*?this \+= ", f.r(e))):
                a = q.call_args(f, e)
                arg = q.no_casts(f.r(a[-1])) if a else ""
                if arg == sep:
                    if s != "ST":
                        errors.append((e, "a separator is appended %s" % ("before the first token" if s == "S0" else "twice in a row")))
                    s = "SS"
                else:
                    if s == "ST":
                        errors.append((e, "two tokens are appended with no separator between them"))
                    s = "ST"
            elif n["k"] == "CXXMemberCallExpr" and f.r(e) == "this->clear()":
                s = "S0"
            elif n["k"] == "DeclStmt":
                for d in n["decls"]:
                    if d["n"] in flags and d.get("init") is not None:
                        v = fin.eval_expr(f, d["init"], {})
                        fl = tuple(((bool(v) if v is not None else None) if nm == d["n"] else x) for nm, x in zip(flags, fl))
            elif n["k"] == "BinaryOperator" and n["op"] == "=" and f.r(n["c"][0]) in flags:
                v = fin.eval_expr(f, n["c"][1], {})
                fl = tuple(((bool(v) if v is not None else None) if nm == f.r(n["c"][0]) else x) for nm, x in zip(flags, fl))
            out.add((s, fl))
        return frozenset(out)

    def refine(st, blk, k):
        c = blk.get("cond")
        res = set(st)
        if c is None or len(blk["succ"]) != 2:
            return frozenset(res)
        for a, truth in q.cond_atoms(f, c, k == 0):
            t = q.no_casts(f.r(a))
            if t in flags:
                i = flags.index(t)
                res = set(x for x in res if x[1][i] is None or x[1][i] == truth)
            m = re.match(r"^\((\w+) (==|!=) \w+\.begin\(\)\)$", t) or re.match(r"^\(\w+\.begin\(\) (==|!=) (\w+)\)$", t)
            if m:
                eq = "==" in t
                at_begin = truth if eq else not truth
                res = set(x for x in res if (x[0] == "S0") == at_begin)
        return frozenset(res) if res else None

    init = frozenset({("S0", tuple(None for _ in flags))})
    sin, sat = q.forward(f, init, transfer, refine, lambda a, b: a | b)
    ex = sin.get(f.exit) or frozenset()
    where = "%s:%s" % (f.file, f.line)
    if any(s == "SS" for s, _fl in ex):
        errors.append((None, "the function can return right after appending a separator (trailing separator)"))
    if errors:
        e, why = errors[0]
        chk.bad(rid, f, "join-separator-discipline", f.where(e) if e is not None else where,
                "String::join: %s on some path through the loop (branches that depend on the text, such as `isEmpty()`, are taken both ways: "
                "tokens may be empty): join([\"\", \"a\"], '.') must be \".a\"" % why, evals=len(sat))
    else:
        chk.ok(rid, f, "appends alternate token / separator on every path", where, "%d program points, exit states %s" % (len(sat), sorted(set(s for s, _ in ex))), evals=len(sat))


def detach_precondition(prog, chk, rid, fs):
    """detach(copyLength, minCapacity) allocates room for minCapacity characters and copies copyLength of them: every call must
    establish copyLength <= minCapacity (else the copy overruns the new block)"""
    from .. import fin
    chk.rule(rid, "VSA (symbolic): at every call of detach(copyLength, minCapacity) the second argument is shown to be at least the first: "
                  "equal expressions, `copyLength + unsigned`, copyLength 0, the max idiom, or a dominating comparison", floor=10)
    for f in fs:
        defs = q.local_defs(f)
        for c in [i for i in q.calls(f) if f.nodes[i].get("callee") == "String::detach" and len(q.call_args(f, i)) == 2]:
            a, b = q.call_args(f, c)
            A, B = q.no_casts(q.xr(f, a, defs)), q.no_casts(q.xr(f, b, defs))
            why = None
            if q.is_zero(f, a) or A == "0":
                why = "nothing is copied"
            elif A == B:
                why = "both arguments are `%s`" % A[:40]
            elif B.startswith("(" + A + " + ") or re.fullmatch(r"\((.+) \+ %s\)" % re.escape(A), B):
                why = "minCapacity is copyLength plus an unsigned amount"
            else:
                m = re.fullmatch(r"\(\((.+) < (.+)\) \? (.+) : (.+)\)", B) or re.fullmatch(r"\((.+) < (.+) \? (.+) : (.+)\)", B)
                if m and ((m.group(2) == A and m.group(3) == A and m.group(4) == m.group(1))):
                    why = "minCapacity is max(size, copyLength)"
                m2 = re.fullmatch(r"\(\((.+) > (.+)\) \? (.+) : (.+)\)", B) or re.fullmatch(r"\((.+) > (.+) \? (.+) : (.+)\)", B)
                if why is None and m2 and ((m2.group(1) == m2.group(3) and m2.group(2) == A and m2.group(4) == A) or (m2.group(1) == A and m2.group(3) == A and m2.group(4) == m2.group(2))):
                    why = "minCapacity is max(size, copyLength)"
                if why is None:
                    rel = fin.relations(f, f.node_pos(c))
                    if (A, "<=", B) in rel or (A, "<", B) in rel or (A, "==", B) in rel:
                        why = "a dominating comparison establishes copyLength <= minCapacity"
            if why is None:
                # minCapacity assigned on several branches: each definition that reaches the call is judged where it is made
                nb_ = f.nodes[f.strip(b)]
                if nb_["k"] == "DeclRefExpr" and nb_["ref"].get("dk") == "local":
                    dl_ = [d_ for d_ in defs.get(nb_["ref"]["id"], []) if d_[2] is not None and d_[0] != "addr" and f.node_pos(d_[1]) is not None]
                    oks_ = []
                    for d_ in dl_:
                        Bi = q.no_casts(q.xr(f, d_[2], defs))
                        rel_i = fin.relations(f, f.node_pos(d_[1]))
                        oks_.append(Bi == A or (A, "<=", Bi) in rel_i or (A, "<", Bi) in rel_i or Bi.startswith("(" + A + " + "))
                    if len(dl_) > 1 and all(oks_):
                        why = "every definition of `%s` is at least copyLength where it is made" % nb_["ref"]["n"]
            if why:
                chk.ok(rid, f, "detach(%s, %s)" % (A[:30], B[:40]), f.where(c), why, evals=2)
            else:
                chk.bad(rid, f, "detach-copies-more-than-it-allocates", f.where(c),
                        "detach(%s, %s): nothing establishes %s <= %s here; detach allocates minCapacity characters and copies copyLength of them "
                        "(for a literal, attached or shared String capacity() is 0, so a test against capacity() says nothing about the length)" % (A[:40], B[:50], A[:30], B[:30]))


LIBC_NUL_SCANNERS = {"strlen", "strcmp", "strcasecmp", "strstr", "strcasestr", "strchr", "strrchr", "strpbrk", "strspn", "strcspn", "atoi", "atol",
                     "atoll", "strtol", "strtoul", "strtoll", "strtoull", "strtod", "strtof", "atof", "sscanf", "vsscanf", "strdup", "strcpy", "strcat"}


def _nul_tested_names(f):
    """names of pointer variables whose pointee is tested for zero in a branch condition of f (`*p`, `!*p`, `*p == 0`, `*p == *q` with a
    NUL exit) - the variable is walked to the terminator"""
    out = set()
    for b in f.blocks.values():
        c = b.get("cond")
        if c is None:
            continue
        for an, _t in q.cond_atoms(f, c, True):
            cn = fin._canon(f, an, True)
            ks = [cn[1]] if cn[0] == "val" else ([cn[0], cn[2]] if cn[1] in ("==", "!=") and ("0" in (cn[0], cn[2]) or "'\\0'" in (cn[0], cn[2])) else [])
            for k in ks:
                m = re.match(r"^\*\(?(\w+)\)?(\+\+)?$", k.replace(" ", ""))
                if m:
                    out.add(m.group(1))
    return out


def _nul_scanned_params(prog):
    """{callee qualified name: set of parameter indices the callee walks to the NUL terminator} for the functions of the program"""
    out = {}
    for g in prog.functions.values():
        if not g.blocks or not g.params:
            continue
        tested = _nul_tested_names(g)
        if not tested:
            continue
        defs = q.local_defs(g)
        idx = set()
        for k, prm in enumerate(g.params):
            if "char" not in prm.get("t", "") or "*" not in prm.get("t", ""):
                continue
            names = {prm["n"]}
            for did, dl in defs.items():
                for kind, nd, init in dl:
                    if init is not None and kind == "decl" and re.match(r"^%s\b" % re.escape(prm["n"]), q.no_casts(g.r(init)).lstrip("(")):
                        for n_ in g.nodes:
                            if n_["k"] == "DeclRefExpr" and n_["ref"].get("id") == did:
                                names.add(n_["ref"]["n"])
                                break
            if names & tested:
                idx.add(k)
        if idx:
            out.setdefault(g.name, set()).update(idx)
            out.setdefault(g.gname, set()).update(idx)
    return out


def raw_text_to_nul_readers(prog, chk, rid, fs):
    """The text pointer of a payload (`data->str`) is NUL-terminated at `len` only for owned blocks; attached text need not be.  Code that
    walks text to the terminator must get it through the C-string view (which terminates) or after detach() - never the raw pointer."""
    chk.rule(rid, "DOM/WHO: a raw text pointer (`<payload>->str`) reaches a reader that runs to the NUL terminator (libc string scanners, "
                  "program functions that test `*p` of that parameter, local loops testing `*p`) only after detach() on this String; the "
                  "raw text of another String never does", floor=0)
    scanned = _nul_scanned_params(prog)
    seen_sources = 0
    for f in fs:
        if f.short in ("operator const char *", "operator char *", "detach"):
            continue
        defs = q.local_defs(f)
        det = q.pos_of(f, _detach_calls(f))
        srcs = []
        for i, n in enumerate(f.nodes):
            if n["k"] == "MemberExpr" and n.get("m") == "str" and n["c"] and f.node_pos(i) is not None:
                base = q.no_casts(f.r(n["c"][0]))
                own = base in ("this->data", "data")
                fresh = bool(re.match(r"^(newData|\w*[nN]ew\w*)$", base))
                if not fresh:
                    srcs.append((i, own, base))
        seen_sources += len(srcs)
        if not srcs:
            continue
        src_ids = {i: (own, base) for i, own, base in srcs}
        # locals that carry a raw text pointer: some definition's expression contains a source
        carriers = {}
        for did, dl in defs.items():
            for kind, nd, init in dl:
                if init is None:
                    continue
                hit = [x for x in f.desc(init) if x in src_ids]
                # only pointer-valued flows: `p = data->str (+ k)`, not `n = data->str[0]`
                if hit and not any(f.nodes[y]["k"] == "ArraySubscriptExpr" or (f.nodes[y]["k"] == "UnaryOperator" and f.nodes[y].get("op") == "*")
                                   for y in f.desc(init)):
                    carriers.setdefault(did, []).extend(hit)
        tested = _nul_tested_names(f)
        sinks = []   # (node, source ids, description)
        for did, hit in carriers.items():
            nm = next((n_["ref"]["n"] for n_ in f.nodes if n_["k"] == "DeclRefExpr" and n_["ref"].get("id") == did), None)
            if nm in tested:
                node = next(nd for kind, nd, init in defs[did] if init is not None)
                sinks.append((node, hit, "local `%s` is walked until `*%s` is zero" % (nm, nm)))
        for c in q.calls(f):
            n = f.nodes[c]
            callee = n.get("callee", "") or ""
            args = q.call_args(f, c)
            which = None
            if callee.split("::")[-1] in LIBC_NUL_SCANNERS and "::" not in callee:
                which = set(range(len(args)))
            elif callee in scanned:
                which = scanned[callee]
            if which is None:
                continue
            for k, a in enumerate(args):
                if k not in which:
                    continue
                hit = []
                for x in f.desc(a):
                    nx = f.nodes[x]
                    if x in src_ids:
                        hit.append(x)
                    elif nx["k"] == "DeclRefExpr" and nx["ref"].get("id") in carriers:
                        hit.extend(carriers[nx["ref"]["id"]])
                if hit:
                    sinks.append((c, hit, "argument %d of %s runs to the terminator" % (k + 1, callee)))
        for node, hit, what in sinks:
            for h in sorted(set(hit)):
                own, base = src_ids[h]
                hp = f.node_pos(h)
                okd = own and any(f.dominates_pos(d, hp) for d in det)
                if okd:
                    chk.ok(rid, f, "raw text read to the terminator after detach()", f.where(node), what, evals=2)
                else:
                    chk.bad(rid, f, "raw-text-read-to-terminator:" + base.replace("this->", ""), f.where(node),
                            "%s, but `%s->str` is the raw text pointer: for a String attached to text that is not NUL-terminated at its "
                            "length the reader runs past length() (wrong answers, reads beyond the attached range); take the text through "
                            "the C-string view or after detach()" % (what, base))
    if seen_sources < 30 or "String::compare" not in scanned:
        raise AnalysisBroken("C06.k: only %d raw text expressions examined / the NUL-scanner summary lost String::compare" % seen_sources)
    chk.ok(rid, "String", "%d raw text expressions of %d members followed to their readers" % (seen_sources, len(fs)), "include/nstd/String.hpp", "flow of <payload>->str into NUL-dependent readers", nontrivial=False)


def _may_detach(fs):
    """names (qualified, with signature) of the String members that may replace the text block: detach, the terminating C-string views,
    and every member that calls one of them on this object (closure over the call graph of the class)"""
    own_calls = {}
    for f in fs:
        cs = set()
        for c in q.calls(f):
            n = f.nodes[c]
            if n["k"] not in ("CXXMemberCallExpr", "CXXOperatorCallExpr") and not (n.get("callee") or "").startswith("String::operator"):
                continue
            o = q.call_object(f, c)
            if n["k"] == "CXXMemberCallExpr" and (o is None or f.nodes[o]["k"] == "CXXThisExpr" or q.no_casts(f.r(o)) in ("this", "*this")):
                cs.add(n.get("csig") or n.get("callee"))
        own_calls[f.sig] = cs
    base = set(f.sig for f in fs if f.short == "detach" or f.short.startswith("operator const char") or f.short.startswith("operator char"))
    names = {}
    for f in fs:
        names.setdefault(f.d.get("csig_self") or f.sig, f)
    may = set(base)
    changed = True
    while changed:
        changed = False
        for f in fs:
            if f.sig in may:
                continue
            if any(any(c and (c == g or c in g or g.endswith(c)) for g in may) for c in own_calls[f.sig]):
                may.add(f.sig)
                changed = True
    return may


def stale_text_pointers(prog, chk, rid, fs):
    """A pointer into the text block (taken from data->str or from the C-string view) dies when the block is replaced: no use of such a
    pointer after a call on this String that may detach (detach itself, the terminating views, members that use them - find(), ...)."""
    chk.rule(rid, "ALIAS: a local that holds a pointer into this String's text is not used after a call on this String that may replace the "
                  "text block (callee summary: detach, the terminating C-string views and their callers)", floor=0)
    may = _may_detach(fs)
    short_may = set(x.split("(")[0] for x in may)
    n_carriers = 0
    for f in fs:
        if f.short == "detach":
            continue
        defs = q.local_defs(f)

        def is_source(x):
            nx = f.nodes[x]
            if nx["k"] == "MemberExpr" and nx.get("m") == "str" and nx["c"] and q.no_casts(f.r(nx["c"][0])) in ("this->data", "data"):
                return True
            if nx["k"] == "CXXMemberCallExpr" and (nx.get("callee") or "").startswith("String::operator const char") :
                o = q.call_object(f, x)
                return o is None or q.no_casts(f.r(o)).lstrip("*(").rstrip(")") == "this"
            return False
        events = []
        for c in q.calls(f):
            n = f.nodes[c]
            if n["k"] != "CXXMemberCallExpr":
                continue
            o = q.call_object(f, c)
            if not (o is None or f.nodes[o]["k"] == "CXXThisExpr" or q.no_casts(f.r(o)).lstrip("*(").rstrip(")") == "this"):
                continue
            sig_ = n.get("csig") or ""
            if sig_ in may or any(sig_ and (sig_ in g or g.endswith(sig_)) for g in may) or (not sig_ and (n.get("callee") or "") in short_may):
                events.append(c)
        for did, dl in defs.items():
            for kind, nd, init in dl:
                if init is None or kind == "addr":
                    continue
                if not any(is_source(x) for x in [f.strip(init)] + list(f.desc(init))):
                    continue
                if any(f.nodes[y]["k"] == "ArraySubscriptExpr" or (f.nodes[y]["k"] == "UnaryOperator" and f.nodes[y].get("op") == "*") for y in [f.strip(init)] + list(f.desc(init))):
                    continue       # a character, not a pointer
                ty = next((d_.get("t") for n_ in f.nodes if n_["k"] == "DeclStmt" for d_ in n_["decls"] if d_["id"] == did), "") or ""
                if "*" not in ty:
                    continue
                n_carriers += 1
                nm = next((n_["ref"]["n"] for n_ in f.nodes if n_["k"] == "DeclRefExpr" and n_["ref"].get("id") == did), "?")
                uses = [i for i, n_ in enumerate(f.nodes) if n_["k"] == "DeclRefExpr" and n_["ref"].get("id") == did and f.node_pos(i) is not None]
                others = [x[1] for x in dl if x[1] != nd and x[2] is not None]
                bad = None
                for ev in events:
                    if ev in f.desc(init) or f.strip(init) == ev or not q.reaches(f, nd, ev):
                        continue
                    for u in uses:
                        # the use sees this definition if no other definition lies between the event and the use
                        if f.node_pos(u) != f.node_pos(ev) and q.reaches(f, ev, u, avoid_nodes=others) and ev not in f.desc(u):
                            bad = (ev, u)
                            break
                    if bad:
                        break
                if bad:
                    chk.bad(rid, f, "text-pointer-used-after-possible-detach:" + nm, f.where(bad[1]),
                            "`%s` points into the text block (%s) and is used after `%s`, which may replace that block (it goes through the "
                            "terminating C-string view / detach): for a String attached to unterminated text, or a shared one, the pointer then "
                            "refers to the old block" % (nm, q.no_casts(f.r(init))[:40], f.r(bad[0])[:40]), evals=len(events) * max(1, len(uses)))
                else:
                    chk.ok(rid, f, "text pointer `%s` not used across a possible detach" % nm, f.where(nd), "%d possible-detach events" % len(events), evals=max(1, len(events)))
    chk.ok(rid, "String", "%d locals holding text pointers in %d members examined; %d members may detach" % (n_carriers, len(fs), len(may)), "include/nstd/String.hpp", "call-graph closure", nontrivial=False)
    if len(may) < 6:
        raise AnalysisBroken("C06.l: may-detach summary has only %d members" % len(may))


def _is_previous_hit(f, base, l, st):
    """is `base` the previous hit held by the local `l` when the search `st` is repeated: `l` itself, or a local whose one reaching
    definition is a copy of `l` that no store to `l` can follow before the search"""
    b = f.nodes[f.strip(base)]
    if b["k"] != "DeclRefExpr" or b["ref"].get("dk") not in ("local", "parm"):
        return False
    if b["ref"]["id"] == l["ref"]["id"]:
        return True
    defs = q.local_defs(f)
    rd = q.reaching_def(f, b["ref"]["id"], st.node, defs)
    if rd is None:
        return False
    r = f.nodes[f.strip(rd)]
    if r["k"] != "DeclRefExpr" or r["ref"].get("id") != l["ref"]["id"]:
        return False
    dp = [f.node_pos(d[1]) for d in defs.get(b["ref"]["id"], []) if d[2] == rd]
    up = f.node_pos(st.node)
    if not dp or dp[0] is None or up is None:
        return False
    for o in defs.get(l["ref"]["id"], []):
        op = f.node_pos(o[1])
        if op is None or op == up:
            continue
        if f.find_path(dp[0], {op}, avoid={up}) is not None and f.find_path(op, {up}, avoid={dp[0]}) is not None:
            return False
    return True


def last_occurrence_scans(prog, chk, rid, fs):
    """findLast / findLastOf look for the LAST occurrence by repeating a forward search: occurrences may overlap ("aa" in "aaa"), so
    the next search has to restart exactly one byte behind the previous hit - further on, and the true last occurrence is stepped over"""
    chk.rule(rid, "FIN: in the last-occurrence searches the forward search is repeated from `hit + 1` (the restart offset evaluates to 1)", floor=2)
    SEARCH = ("strstr", "strpbrk", "strchr", "String::find", "String::findOneOf", "memchr")
    for f in fs:
        if not f.short.startswith("findLast") or not f.blocks:
            continue
        for st in q.stores(f):
            if st.op != "=" or st.rhs is None or not C.loop_blocks(f, st.node):
                continue
            l = f.nodes[st.lhs]
            rn = f.nodes[f.strip(st.rhs)]
            if l["k"] != "DeclRefExpr" or rn["k"] not in ("CallExpr", "CXXMemberCallExpr") or (rn.get("callee") or "") not in SEARCH:
                continue
            a0 = f.nodes[f.strip(q.call_args(f, rn["i"])[0])]
            if a0["k"] != "BinaryOperator" or a0.get("op") != "+" or not _is_previous_hit(f, a0["c"][0], l, st):
                chk.bad(rid, f, "last-occurrence-restart-shape", f.where(st.node), "the repeated search does not restart from `%s + 1`" % l["ref"]["n"])
                continue
            k = fin.eval_expr(f, a0["c"][1], {})
            if k == 1:
                chk.ok(rid, f, "search repeated from `%s + 1`" % l["ref"]["n"], f.where(st.node), f.r(st.node)[:60], evals=1)
            else:
                chk.bad(rid, f, "last-occurrence-restart-offset", f.where(st.node),
                        "the search is repeated from `%s + %s`; unless that offset is exactly 1 an occurrence that overlaps the previous hit is "
                        "stepped over (findLast(\"aaa\", \"aa\") answers 0 instead of 1)" % (l["ref"]["n"], q.no_casts(f.r(a0["c"][1]))[:30]), evals=1)


def text_pointer_sources(prog, chk, rid):
    """A String either owns its text (the bytes right behind its own descriptor block) or refers to text the CALLER named explicitly
    (literal constructor, attach).  Copies are independent values: no operation may make a String refer to the text of another
    String, or to any address it computed itself - the other side may be attached to a buffer that changes or goes away."""
    chk.rule(rid, "WHO: every store to Data::str takes either the address right behind the descriptor block it is stored into (owned text) "
                  "or a `const char*` / char-array parameter of a function that has no String parameter (text named by the caller); "
                  "EmptyData points at its own zero length", floor=6)
    seen = set()
    for f in sorted(prog.functions.values(), key=lambda g: g.sig):
        if not f.blocks or not (f.clsq or "").startswith("String"):
            continue
        for st in q.stores(f):
            l = f.nodes[st.lhs]
            if l["k"] != "MemberExpr" or l.get("m") != "str" or "String" not in (l.get("mclsq") or l.get("mcls") or ""):
                continue
            where = f.where(st.node)
            base = q.no_casts(f.r(l["c"][0])) if l["c"] else ""
            if st.op != "=" or st.rhs is None:
                chk.bad(rid, f, "text-pointer-modified:" + st.op, where, "`%s` moves the text pointer of a String in place" % f.r(st.node)[:60])
                continue
            rt = q.no_casts(q.xr(f, st.rhs)).replace(" ", "").strip("()")
            rn = f.nodes[f.strip(st.rhs)]
            while rn["k"] in ("CStyleCastExpr", "ImplicitCastExpr", "ParenExpr", "CXXStaticCastExpr", "CXXReinterpretCastExpr") and rn["c"]:
                nx_ = f.strip(rn["c"][0])
                rn = f.nodes[nx_] if nx_ != rn["i"] else f.nodes[rn["c"][0]]
            own = False
            if rn["k"] == "DeclRefExpr" and rn["ref"].get("dk") == "local":      # `char* const newStr = (char*)((byte*)newData + sizeof(Data)); newData->str = newStr;`
                ini_n = q.single_def(f, rn["ref"]["id"], q.local_defs(f))
                if ini_n is not None:
                    rn = f.nodes[f.strip(ini_n)]
                    while rn["k"] in ("CStyleCastExpr", "ImplicitCastExpr", "ParenExpr", "CXXStaticCastExpr", "CXXReinterpretCastExpr") and rn["c"]:
                        nx_ = f.strip(rn["c"][0])
                        rn = f.nodes[nx_] if nx_ != rn["i"] else f.nodes[rn["c"][0]]
            if rn["k"] == "BinaryOperator" and rn.get("op") == "+" and len(rn["c"]) == 2:
                sides = [q.no_casts(f.r(c_)).replace(" ", "") for c_ in rn["c"]]
                own = base.replace(" ", "") in sides and "sizeof(String::Data)" in sides
            caller_text = rn["k"] == "DeclRefExpr" and rn["ref"].get("dk") == "parm" and re.search(r"^const char ?(\*|\(&\)\[)", rn["ref"].get("t") or "") and \
                not any("String" in (p_.get("t") or "") for p_ in f.params)
            empty = f.gname.startswith("String::EmptyData") and rt == "&this->len"
            key = (f.gname, base, "own" if own else "caller" if caller_text else "empty" if empty else rt)
            if own or caller_text or empty:
                if key not in seen:
                    chk.ok(rid, f, "str = %s" % ("the bytes behind its own descriptor" if own else "the caller's text" if caller_text else "own zero length"), where, rt[:60], evals=1)
                seen.add(key)
            else:
                chk.bad(rid, f, "text-pointer-from-elsewhere:" + base.replace("this->", ""), where,
                        "`%s` makes the String refer to text that is neither its own block nor text its caller named (`%s`): a copy that "
                        "shares unowned text changes when the other side's buffer is overwritten and dangles when it is freed "
                        "(String a; a.attach(buf, n); String b(a); buf[0] = 'x'; - b changed)" % (f.r(st.node)[:70], rt[:50]), evals=1)


def substr_window(prog, chk, rid):
    """substr(start, length) as a decision table: the window it copies, evaluated for lengths 0/1/5 of the text and starts / lengths on
    both sides of every boundary (negative start counts from the end, negative length means "to the end"), must be the window of the
    reference definition and lie inside the text"""
    chk.rule(rid, "FIN: String::substr evaluated over (text length, start, length) around every boundary: the (offset, count) handed to the "
                  "constructor equals the reference window clamp(start) .. min(len, start + length) and lies inside the text", floor=1)
    fs = [f for f in prog.functions.values() if f.name == "String::substr" and f.blocks and len(f.params) == 2]
    if not fs:
        raise AnalysisBroken("String::substr(start, length) not found")
    f = fs[0]
    where = "%s:%s" % (f.file, f.line)
    sn, ln = f.params[0]["n"], f.params[1]["n"]
    ctor = [i for i, n in enumerate(f.nodes) if n["k"] in ("CXXConstructExpr", "CXXTemporaryObjectExpr") and (n.get("callee") or "").endswith("String::String") and
            len([c_ for c_ in n["c"] if c_ >= 0]) == 2 and f.node_pos(i) is not None]
    if not ctor:
        raise AnalysisBroken("String::substr: construction of the result from (pointer, count) not found")
    BASE = 100000
    bad = None
    n_ev = 0
    for L in (0, 1, 5):
        for st in (-7, -6, -5, -4, -1, 0, 1, 4, 5, 6, 9):
            for ln_v in (-1, 0, 1, 3, 4, 5, 6, 12):
                val = {sn: st, ln: ln_v, "this->data->len": L, "this->data->str": BASE}
                got = {}

                def trace(e, v_, _g=got):
                    if e in ctor and "w" not in _g:
                        a_ = [c_ for c_ in f.nodes[e]["c"] if c_ >= 0]
                        _g["w"] = (fin.eval_expr(f, a_[0], v_), fin.eval_expr(f, a_[1], v_))
                seen, end, fv = fin.walk_vals(f, f.entry, val, limit=200, trace=trace)
                n_ev += 1
                s0 = max(0, L + st) if st < 0 else min(st, L)
                e0 = min(L, s0 + ln_v) if ln_v >= 0 else L
                want = (BASE + s0, e0 - s0)
                if got.get("w") != want:
                    w = got.get("w")
                    bad = (L, st, ln_v, "offset %s, count %s" % ((w[0] - BASE) if w and isinstance(w[0], int) else "?", w[1] if w else "?"), "offset %d, count %d" % (s0, e0 - s0))
                    break
            if bad:
                break
        if bad:
            break
    if bad:
        chk.bad(rid, f, "substr-window", where,
                "substr(%d, %d) of a %d-byte text copies %s; the reference window is %s (a window outside the text reads foreign memory, a "
                "shifted one returns other bytes than a reference byte string)" % (bad[1], bad[2], bad[0], bad[3], bad[4]), evals=n_ev)
    else:
        chk.ok(rid, f, "substr window equals the reference window for %d (length, start, count) triples" % n_ev, where, "evaluation of the index arithmetic", evals=n_ev)


def _view_probed(f, r):
    """is the text returned by `r` known terminated at length(): every path from the entry to the return runs over an edge on which
    the probe `data->str[data->len]` was seen zero (however it is spelled: through a snapshot of the length, a bool local naming the
    test) or passes a detach() call"""
    pos = f.node_pos(r)
    if pos is None:
        return False
    defs = q.local_defs(f)

    def says_zero(node, truth):
        subs = [x for x in [f.strip(node)] + list(f.desc(node)) if f.nodes[x]["k"] == "ArraySubscriptExpr" and
                re.fullmatch(r"\(?(this->)?data->str\[(this->)?data->len\]\)?", q.no_casts(q.xr(f, x, defs)).strip())]
        if not subs:
            return False
        vz = fin.eval_expr(f, node, {fin.key(f, x): 0 for x in subs})
        vnz = fin.eval_expr(f, node, {fin.key(f, x): 65 for x in subs})
        return vz is not None and vnz is not None and bool(vz) != bool(vnz) and bool(vz) == bool(truth)
    cut = set()
    for b_ in f.blocks.values():
        if b_.get("cond") is None or len(b_["succ"]) != 2 or b_.get("tk") == "SwitchStmt":
            continue
        for s_ in b_["succ"]:
            if s_ is not None and any(says_zero(n_, t_) for n_, t_ in fin.edge_atoms(f, b_, s_)):
                cut.add((b_["id"], s_))
    if not cut:
        return False
    det = q.pos_of(f, _detach_calls(f))
    return fin.path_with_cuts(f, f.entry_pos(), pos, avoid=det, cut=cut, after_src=False) is None


def cstring_view_probed(prog, chk, rid):
    """"Its C-string view is NUL-terminated at length()": blocks do not keep that by themselves (resize() on a fresh block, attached
    ranges), the conversion operators repair it lazily.  Whatever they return has been probed: the byte at length() was seen to be zero,
    or detach() (which terminates what it returns) ran."""
    chk.rule(rid, "DOM/MPT: every `return data->str` of the const char* conversion operators is reached only over the zero edge of the probe "
                  "`data->str[data->len]` or behind a detach() call - for owned and for attached text alike", floor=1)
    fs = [f for f in prog.functions.values() if f.clsq == "String" and f.blocks and re.fullmatch(r"operator const char \*", f.short or "")]
    if len(fs) < 2:
        raise AnalysisBroken("String::operator const char*: %d bodies found, 2 expected" % len(fs))
    for f in fs:
        det = q.pos_of(f, _detach_calls(f))
        for i, n in enumerate(f.nodes):
            if n["k"] != "ReturnStmt" or not n["c"] or f.node_pos(i) is None:
                continue
            if not re.search(r"(->|\.)str$", q.no_casts(q.xr(f, n["c"][0])).strip("()")):
                continue
            p1 = p2 = None
            probes = 1
            if not _view_probed(f, i):
                p1 = f.find_path(f.entry_pos(), {f.node_pos(i)}, after_src=False)
                probes = 0
            if p1 is None and p2 is None and probes:
                chk.ok(rid, f, "the returned text was probed at length() (or detached)", f.where(i), "path search over the probe's edges", evals=3)
            else:
                chk.bad(rid, f, "cstring-view-unprobed", f.where(i),
                        "`%s` can be returned on a path (lines %s) on which the byte at length() was not seen to be zero and detach() did not run: "
                        "`String s; s.resize(n); strlen(s)` - a fresh block is not terminated at n, readers of the C string run past the text" % (
                            q.no_casts(f.r(n["c"][0]))[:30], f.path_lines(p1 or p2)[:8] if (p1 or p2) else "-"), f.path_lines(p1 or p2) if (p1 or p2) else None, evals=3)


def replace_searches_whole_rest(prog, chk, rid):
    """replace(needle, replacement) replaces EVERY occurrence: the search for the next one may be skipped only when the rest of the
    text is shorter than the needle.  Each condition that guards a search is evaluated for a rest of exactly needle-length bytes
    (a last occurrence that ends the text fits there): it must let the search run."""
    chk.rule(rid, "FIN: in String::replace(needle, replacement) no condition that dominates a search for the needle is false when exactly "
                  "needle.length() bytes of the text remain (evaluated with the cursor locals and the end of the text as numbers)", floor=1)
    fs = [f for f in prog.functions.values() if f.name == "String::replace" and f.blocks and len(f.params) == 2 and "String" in f.params[0]["t"]]
    if not fs:
        raise AnalysisBroken("String::replace(const String&, const String&) not found")
    f = fs[0]
    nd = f.params[0]["n"]
    searches = [c for c in q.calls(f) if (f.nodes[c].get("callee") or "") in ("strstr", "String::find", "memmem") and f.node_pos(c) is not None]
    if not searches:
        raise AnalysisBroken("String::replace: no search for the needle found")
    L, P = 3, 1000
    ptrs = [d for n in f.nodes if n["k"] == "DeclStmt" for d in n["decls"] if "*" in (d.get("t") or "")]
    for c in searches:
        cur = q.no_casts(f.r(q.call_args(f, c)[0])) if q.call_args(f, c) else None
        val = {"%s.data->len" % nd: L, "%s.length()" % nd: L, "this->data->str": 900, "this->data->len": P - 900 + L}
        for d in ptrs:
            # the cursor of this search stands at P, an end pointer at P + L; any other pointer local (the last match) lies before the cursor
            val[d["n"]] = P
            ini = q.no_casts(f.r(d["init"])) if d.get("init") is not None else ""
            if re.search(r"\+ ?(this->)?data->len|\+ ?this->length\(\)", ini):
                val[d["n"]] = P + L
        bad = None
        atoms = [a for a in fin.dominating_atoms(f, f.node_pos(c)) if a[0] != "case"]
        for a in atoms:
            v = fin.eval_expr(f, a[0], val)
            if v is not None and bool(v) != bool(a[1]):
                bad = a
                break
        if bad:
            chk.bad(rid, f, "search-skipped-with-room-for-a-match", f.where(c),
                    "the search `%s` is guarded by `%s`, which fails when exactly %s.length() bytes remain: an occurrence of the needle that "
                    "ends the text right behind the previous one is left in place (\"aa\".replace(\"a\", \"X\") gives \"Xa\")" % (
                        q.no_casts(f.r(c))[:30], q.no_casts(f.r(bad[0]))[:50], nd), evals=len(atoms) + 1)
        else:
            chk.ok(rid, f, "search `%s` runs whenever a needle still fits" % q.no_casts(f.r(c))[:30], f.where(c), "%d guarding condition(s) evaluated" % len(atoms), evals=len(atoms) + 1)


def argument_block_snapshots(prog, chk, rid, fs):
    """`s.prepend(s)`: the argument may be this String.  A pointer taken from the argument's block before detach() (`strData = str.data`,
    `p = str.data->str`) still names the OLD block afterwards; detach() frees that block when this String was its only owner and had
    to grow.  Such a pointer may be used after the detach only while a String local copied from *this keeps the old block alive."""
    chk.rule(rid, "ALIAS: a pointer local taken from the block of a `const String&` parameter before a detach() of this String is not used "
                  "after that detach unless a String local initialised from *this (a reference on the old block) is in scope", floor=1)
    n = 0
    for f in fs:
        if f.short == "detach" or not f.blocks:
            continue
        det = [c for c in q.calls(f) if (f.nodes[c].get("callee") or "").endswith("String::detach") and
               (q.call_object(f, c) is None or f.nodes[q.call_object(f, c)]["k"] == "CXXThisExpr")]
        ps = [p for p in f.params if p["t"] == "const String &"]
        if not det or not ps:
            continue
        defs = q.local_defs(f)
        keepers = [nd for nd in range(len(f.nodes)) if f.nodes[nd]["k"] == "DeclStmt" and
                   any(d.get("t") == "String" and d.get("init") is not None and
                       q.no_casts(f.r(d["init"])).replace(" ", "") in ("*this", "copy(*this)", "String(*this)") or
                       d.get("t") == "String" and d.get("init") is not None and re.search(r"\(\*this\)$|^\*this$", q.no_casts(f.r(d["init"])).replace(" ", ""))
                       for d in f.nodes[nd]["decls"])]
        for did, dl in defs.items():
            for kind, nd, init in dl:
                if init is None or kind == "addr":
                    continue
                src = [x for x in [f.strip(init)] + list(f.desc(init)) if f.nodes[x]["k"] == "MemberExpr" and f.nodes[x].get("m") == "data" and
                       f.nodes[x]["c"] and q.no_casts(f.r(f.nodes[x]["c"][0])) in [p["n"] for p in ps]]
                if not src:
                    continue
                ty = next((d_.get("t") for n_ in f.nodes if n_["k"] == "DeclStmt" for d_ in n_["decls"] if d_["id"] == did), "") or ""
                if "*" not in ty:
                    continue        # a value read from the block (a length), not a pointer into it
                n += 1
                nm = next((n_["ref"]["n"] for n_ in f.nodes if n_["k"] == "DeclRefExpr" and n_["ref"].get("id") == did), "?")
                uses = [i for i, n_ in enumerate(f.nodes) if n_["k"] == "DeclRefExpr" and n_["ref"].get("id") == did and f.node_pos(i) is not None]
                others = [x[1] for x in dl if x[1] != nd and x[2] is not None]
                bad = None
                for ev in det:
                    if not q.reaches(f, nd, ev):
                        continue
                    kept = any(f.node_pos(k_) is not None and f.dominates_pos(f.node_pos(k_), f.node_pos(ev)) for k_ in keepers)
                    if kept:
                        continue
                    for u in uses:
                        if q.reaches(f, ev, u, avoid_nodes=others) and u not in f.desc(ev):
                            bad = (ev, u)
                            break
                    if bad:
                        break
                if bad:
                    chk.bad(rid, f, "argument-block-used-after-detach:" + nm, f.where(bad[1]),
                            "`%s` was taken from `%s` before `%s`; when the argument is this String itself, is its only owner and has to grow, "
                            "detach() frees that block - `%s` is then read from freed memory (s.%s(s))" % (
                                nm, q.no_casts(f.r(init))[:30], q.no_casts(f.r(bad[0]))[:40], nm, f.short), evals=len(det) * max(1, len(uses)))
                else:
                    chk.ok(rid, f, "block pointer `%s` of the argument is kept alive across detach or not used after it" % nm, f.where(nd),
                           "%d detach call(s), %d keeper local(s)" % (len(det), len(keepers)), evals=max(1, len(det)))
    if n == 0:
        raise AnalysisBroken("C06.r: no member takes a pointer from its String argument's block before detach (String::prepend(const String&) expected)")


def mutable_view_exclusive(prog, chk, rid, fs):
    """`(char*)s` hands out a pointer the caller writes through: the block behind it has to belong to this String alone.  "Owned"
    (ref != 0) is not enough - a block shared with copies has ref >= 2 - so every path to the return passes detach() or the test
    `ref == 1`."""
    chk.rule(rid, "MPT: in String::operator char*() every path to the return of the text pointer passes detach(), except over an edge on which "
                  "`data->ref == 1` is known", floor=1)
    ops = [f for f in fs if f.short == "operator char *" and not f.d.get("const") and f.blocks]
    if not ops:
        raise AnalysisBroken("String::operator char*() not found")
    for f in ops:
        det = [c for c in q.calls(f) if (f.nodes[c].get("callee") or "").endswith("String::detach")]
        cut = set()
        for b in f.blocks.values():
            c = b.get("cond")
            if c is None or len(b["succ"]) != 2 or b.get("tk") == "SwitchStmt" or None in b["succ"]:
                continue
            for k in (0, 1):
                for an, tr in fin.edge_atoms(f, b, b["succ"][k]):
                    cn = fin._canon(f, an, tr)
                    if cn[0] != "val" and cn[1] == "==" and set([cn[0], cn[2]]) == {"1", "this->data->ref"}:
                        cut.add((b["id"], b["succ"][k]))
        rets = [i for i, n in enumerate(f.nodes) if n["k"] == "ReturnStmt" and n["c"] and f.node_pos(i) is not None]
        bad = None
        for r in rets:
            pth = fin.path_with_cuts(f, f.entry_pos(), f.node_pos(r), avoid=q.pos_of(f, det), cut=cut, after_src=False)
            if pth is not None:
                bad = (r, pth)
        if bad:
            chk.bad(rid, f, "mutable-view-of-shared-text", f.where(bad[0]),
                    "operator char*() returns the text pointer on a path (lines %s) that neither detaches nor knows `data->ref == 1`: for a String "
                    "that shares its block with copies (ref >= 2) the caller writes into all of them" % f.path_lines(bad[1])[:6], evals=len(rets) + len(det))
        else:
            chk.ok(rid, f, "the mutable view is handed out only for an exclusively owned block", f.where(rets[0]) if rets else "%s:%s" % (f.file, f.line),
                   "detach() on every path to the return", evals=len(rets) + len(det))
