"""C18 — text codecs and numeric conversions: bounds-safety clauses and table agreement."""
import re
from .. import q, fin
from .. import containers as C
from ..vsa import VSA, small
from ..facts import AnalysisBroken
from .c01_hint import walk
from .. import affine

EXPLANATION = (
    "Value-set and pairing rules on Unicode.hpp, String.hpp and String.cpp: (a) every subscript of a constant-size table by a "
    "non-constant index has a value set (byte domain exact, char signed on this target, refined by dominating guards and by the "
    "return-set of Unicode::length) inside the table; (b) in the UTF-8 decoder/validator every read at offset k through the (pointer, "
    "length) pair is covered by length >= k+1 from the dominating guards, the pointer and the length advance in lock-step, and from each "
    "`case n` entry at most n bytes are consumed; (c) the encoder's range tests send representative code points of every range to the "
    "branch that emits the byte count Unicode::length reports for the lead byte it produces, and reject values >= 0x110000; (d) "
    "fromBase64 writes its output at an index bounded by the input index (at most one increment per iteration) into a buffer reserved "
    "for the input length; (h) the encoder's byte expressions evaluate to UTF-8 for representatives of every range (ends, one-hot values, "
    "ends with one bit flipped); (i) the decoder, evaluated abstractly over affine forms in the input bytes, returns the UTF-8 value of "
    "every well-formed sequence; (j) a bounded copy handed to a C parser holds the longest decimal text. Not decided: integer round "
    "trips beyond parser choice and range, hex/base64 values.")


def table_size(f, base, prog):
    """number of elements of the table a subscript's base designates, or None"""
    b = f.strip(base)
    n = f.nodes[b]
    t = n.get("t", "")
    m = re.search(r"\[(\d+)\]$", t)
    if m:
        return int(m.group(1)), q.no_casts(f.r(b))
    if n["k"] == "DeclRefExpr" and n["ref"]["dk"] == "local":
        defs = q.local_defs(f)
        init = q.single_def(f, n["ref"]["id"], defs)
        if init is not None:
            x = f.nodes[f.strip(init)]
            if x["k"] == "StringLiteral":
                return x["len"] + 1, n["ref"]["n"]
            m = re.search(r"\[(\d+)\]$", x.get("t", ""))
            if m:
                return int(m.group(1)), n["ref"]["n"]
    if n["k"] == "DeclRefExpr" and n["ref"]["dk"] in ("global", "static_member") and prog is not None:
        g = prog.globals.get(n["ref"].get("q"))
        if g and g.get("array_size"):
            return g["array_size"], n["ref"]["q"]
    return None


def run(prog, chk):
    chk.extra["explanation"] = EXPLANATION
    chk.rule("C18.a", "VSA: value set of every non-constant index into a constant-size table fits the table", floor=7)
    chk.rule("C18.b", "VSA/PAIRF: (pointer, length) reads covered by the length guards; pointer and length advance together; `case n` consumes <= n bytes", floor=5)
    chk.rule("C18.c", "FIN: encoder range tests and Unicode::length agree on the byte count for representatives of every range", floor=10)
    chk.rule("C18.d", "FIN: fromBase64 evaluated for the input lengths 0..40 over well-formed characters: for every length it accepts, the "
                      "largest output index it stores through lies below the size it reserved", floor=1)
    files = ("Unicode.hpp", "String.hpp", "String.cpp")
    fs = [f for f in prog.functions.values() if any(f.file.endswith(x) for x in files)]
    if len(fs) < 50:
        raise AnalysisBroken("only %d functions in String/Unicode" % len(fs))
    # ------------------------------------------------------------------ a
    for f in fs:
        v = VSA(f, prog)
        for i, n in enumerate(f.nodes):
            if n["k"] != "ArraySubscriptExpr":
                continue
            ts = table_size(f, n["c"][0], prog)
            if ts is None:
                continue
            size, name = ts
            idx = n["c"][1]
            if fin.eval_expr(f, idx, {}) is not None:
                continue
            # loop counters bounded by the table size are handled by their loop condition guard
            vs = v.refine_by_guards(idx, f.node_pos(i))
            lo, hi = vs[0][0], vs[-1][1]
            what = "%s[%s]" % (name.split("::")[-1], q.no_casts(f.r(idx))[:40])
            if lo >= 0 and hi < size:
                chk.ok("C18.a", f, "%s: index in [%d, %d], table has %d entries" % (what, lo, hi, size), f.where(i), "value set %s" % vs[:3], evals=3)
            else:
                show = vs if len(vs) <= 3 else vs[:2] + [vs[-1]]
                chk.bad("C18.a", f, "table-index-out-of-range:" + name.split("::")[-1], f.where(i),
                        "`%s` indexes a table of %d entries with a value in %s (char is signed here; casts and the dominating guards were taken into account): "
                        "out-of-bounds read for input bytes outside the table" % (what, size, show))
    # ------------------------------------------------------------------ b
    for name in ("Unicode::isValid", "Unicode::fromString"):
        cands = [f for f in prog.functions.values() if f.name == name and len(f.params) == 2]
        if not cands:
            raise AnalysisBroken(name + "(const char*, usize) not found")
        f = cands[0]
        P, L = f.params[0]["n"], f.params[1]["n"]
        where = "%s:%s" % (f.file, f.line)
        # (1) lock-step inside loops
        adv = [s for s in q.stores(f) if q.no_casts(f.r(s.lhs)) == P and s.op in ("+=",) and C.loop_blocks(f, s.node)]
        for s in adv:
            amt = q.no_casts(f.r(s.rhs))
            dec = [x.node for x in q.stores(f) if q.no_casts(f.r(x.lhs)) == L and x.op == "-=" and q.no_casts(f.r(x.rhs)) == amt]
            uses_len = any(b.get("cond") is not None and re.search(r"\b%s\b" % L, fin.key(f, b["cond"])) and (b["id"] in (C.loop_blocks(f, s.node) or set())) for b in f.blocks.values())
            if not uses_len:
                continue
            if dec and C.paths_all_pass(f, f.node_pos(s.node), q.pos_of(f, dec)):
                chk.ok("C18.b", f, "`%s += %s` paired with `%s -= %s`" % (P, amt, L, amt), f.where(s.node), "PAIRF", evals=2)
            else:
                chk.bad("C18.b", f, "pointer-advanced-without-length", f.where(s.node),
                        "`%s` advances by %s inside the loop but `%s` (compared against the required length in that loop) is not reduced by the same amount: "
                        "the truncation check then uses the original length and bytes behind the range are read" % (P, amt, L))
        # (2) offset reads covered by length facts
        def base_is_param(bi, pos_):
            """the subscripted pointer is the parameter itself, or a local that still names its current value (`seq = (const uchar*)ch`)"""
            if q.no_casts(f.r(bi)) == P:
                return True
            bn = f.nodes[f.strip(bi)]
            while bn["k"] in ("CStyleCastExpr", "ImplicitCastExpr", "ParenExpr") and bn["c"]:
                bn = f.nodes[f.strip(bn["c"][0])] if f.strip(bn["c"][0]) != bn["i"] else f.nodes[bn["c"][0]]
            if bn["k"] == "DeclRefExpr" and bn["ref"].get("dk") == "local" and pos_ is not None:
                ini = fin._stable_init(f, bn["ref"]["id"], pos_)
                return ini is not None and q.no_casts(f.r(ini)) == P
            return False
        for i, n in enumerate(f.nodes):
            if n["k"] != "ArraySubscriptExpr" or not base_is_param(n["c"][0], f.node_pos(i)):
                continue
            k = fin.eval_expr(f, n["c"][1], {})
            if k is None:
                continue
            atoms = fin.dominating_atoms(f, f.node_pos(i))
            bound = 0
            cases = {}
            for a in atoms:
                if a[0] == "case":
                    cases[q.no_casts(f.r(a[1]))] = a[2]
            # what the dominating tests say about the length, whatever they are spelled like
            for lo_, op_, hi_ in fin.relations(f, f.node_pos(i), render=lambda x: q.no_casts(f.r(x))):
                if hi_ == L and op_ in ("<=", "<"):
                    v = cases.get(lo_)
                    if v is None and lo_.isdigit():
                        v = int(lo_)
                    if v is not None:
                        bound = max(bound, v + (1 if op_ == "<" else 0))
                if (lo_, op_, hi_) in ((L, "!=", "0"), ("0", "!=", L)):
                    bound = max(bound, 1)
            # inside the loop `ch < end` also gives one byte
            if bound >= k + 1:
                chk.ok("C18.b", f, "read %s[%d] with %s >= %d" % (P, k, L, bound), f.where(i), "length guard + case label", evals=len(atoms))
            else:
                chk.bad("C18.b", f, "read-beyond-length:%s[%d]" % (P, k), f.where(i), "`%s[%d]` is read but the dominating guards only establish %s >= %d" % (P, k, L, bound))
        # (2b) the first byte: `*P` before any advance of P needs the range to be non-empty
        advs = [st.node for st in q.stores(f) if q.no_casts(f.r(st.lhs)) == P]
        for i, n in enumerate(f.nodes):
            if n["k"] != "UnaryOperator" or n.get("op") != "*" or q.no_casts(f.r(n["c"][0])) != P or f.node_pos(i) is None:
                continue
            if any(q.reaches(f, a, i) for a in advs) and not C.loop_blocks(f, i):
                continue        # after the fall-through increments: counted by (3)
            rel = fin.relations(f, f.node_pos(i), render=lambda x: q.no_casts(f.r(x)))
            relx = fin.relations(f, f.node_pos(i))
            def nonempty(r_):
                l_, o_, h_ = r_
                if (l_, o_, h_) in ((L, "!=", "0"), ("0", "!=", L), ("0", "<", L)):
                    return True
                if h_ == L and l_.isdigit() and ((o_ == "<=" and int(l_) >= 1) or o_ == "<"):
                    return True
                return False
            ok1 = any(nonempty(r_) for r_ in rel)
            if not ok1:
                # `P < end` with end = P + L at loop entry
                ok1 = any(o_ == "<" and l_ == P and re.sub(r"[() ]", "", h_) in ("%s+%s" % (P, L), "%s+%s" % (L, P)) for l_, o_, h_ in relx)
            if ok1:
                chk.ok("C18.b", f, "first byte `*%s` read with a non-empty range" % P, f.where(i), "dominating length fact", evals=len(rel) + 1)
            else:
                chk.bad("C18.b", f, "read-beyond-length:*%s" % P, f.where(i),
                        "`*%s` is read on a path where nothing establishes %s >= 1: for an empty range the byte behind it is read (and decoded)" % (P, L))
        # (3) fall-through decoder: from each case label at most n dereferencing increments
        sws = [i for i, n in enumerate(f.nodes) if n["k"] == "SwitchStmt"]
        for sw in sws:
            blk = [b for b in f.blocks.values() if b.get("term") == sw]
            if not blk:
                continue
            for s in blk[0]["succ"]:
                if s is None:
                    continue
                lab = f.blocks[s].get("label")
                if lab is None or f.nodes[lab]["k"] != "CaseStmt":
                    continue
                nbytes = f.nodes[lab].get("v")
                derefs = set(f.node_pos(i) for i, n in enumerate(f.nodes) if n["k"] == "UnaryOperator" and n["op"] == "*" and re.search(r"\b%s(\+\+)?$" % P, q.no_casts(f.r(n["c"][0]))))
                if not derefs:
                    continue
                # longest path count of deref events from the case block to the exit (acyclic region)
                memo = {}

                def longest(p, depth=0):
                    if p in memo:
                        return memo[p]
                    if depth > 400:
                        return 0
                    memo[p] = 0
                    best = 0
                    for nx in f.succs_pos(p):
                        best = max(best, longest(nx, depth + 1))
                    memo[p] = best + (1 if p in derefs else 0)
                    return memo[p]
                cnt = longest((s, 0))
                if cnt <= nbytes:
                    chk.ok("C18.b", f, "case %d consumes at most %d byte(s)" % (nbytes, cnt), f.where(lab), "longest path count of dereferences", evals=cnt + 1)
                else:
                    chk.bad("C18.b", f, "case-consumes-more-than-length:%d" % nbytes, f.where(lab), "entering at `case %d` up to %d bytes are read although only %d are known to be available" % (nbytes, cnt, nbytes))
    # ------------------------------------------------------------------ c
    enc = [f for f in prog.functions.values() if f.name == "Unicode::append" and len(f.params) == 2 and f.params[0]["t"] == "unsigned int"]
    ln = [f for f in prog.functions.values() if f.name == "Unicode::length"]
    if not enc or not ln:
        raise AnalysisBroken("Unicode::append(uint32, String&) / Unicode::length not found")
    enc, ln = enc[0], ln[0]
    cp = enc.params[0]["n"]
    reps = [0, 1, 0x7F, 0x80, 0x81, 0x7FF, 0x800, 0x801, 0xD7FF, 0xFFFF, 0x10000, 0x10001, 0x10FFFF, 0x110000, 0x110001, 0x1FFFFF, 0xFFFFFFFF]
    spec = lambda v: 1 if v < 0x80 else 2 if v < 0x800 else 3 if v < 0x10000 else 4 if v < 0x110000 else 0
    for v in reps:
        seen_, r, fv_e = fin.walk_vals(enc, enc.entry, {cp: v}, limit=200)
        if isinstance(r, str):
            chk.bad("C18.c", enc, "encoder-guard-not-evaluable", "%s:%s" % (enc.file, enc.line), "the encoder's range tests could not be evaluated for code point 0x%X (%s)" % (v, r))
            continue
        ok_ret = fin.eval_expr(enc, enc.nodes[r]["c"][0], fv_e) if enc.nodes[r]["c"] else None
        # appends on the path = those evaluated on the way to the reached return
        apps = [c for c in seen_ if enc.nodes[c]["k"] in ("CXXMemberCallExpr", "CallExpr") and enc.nodes[c].get("callee") == "String::append"]
        nb = len(apps)
        want = spec(v)
        lead_ok = True
        if nb:
            lead = fin.eval_expr(enc, q.call_args(enc, apps[0])[0], {cp: v})
            if lead is None:
                lead_ok = False
            else:
                lead &= 0xFF
                sc = lead - 256 if lead >= 128 else lead   # as (signed) char
                _sn, rr, fv_ = fin.walk_vals(ln, ln.entry, {ln.params[0]["n"]: sc})
                lv = fin.eval_expr(ln, ln.nodes[rr]["c"][0], fv_) if isinstance(rr, int) and ln.nodes[rr]["c"] else None
                lead_ok = lv == nb
        if nb == want and (ok_ret == (1 if want else 0)) and lead_ok:
            chk.ok("C18.c", enc, "U+%X -> %d byte(s), lead byte class agrees with Unicode::length" % (v, nb), "%s:%s" % (enc.file, enc.line), "guards evaluated for the representative", evals=3)
        else:
            chk.bad("C18.c", enc, "encoder-range-disagrees:U+%X" % v, "%s:%s" % (enc.file, enc.line),
                    "code point 0x%X takes the branch emitting %d byte(s) returning %s; UTF-8 requires %d (and the decoder's length table must report the same for its lead byte: %s)" % (v, nb, ok_ret, want, lead_ok))
    # ------------------------------------------------------------------ d
    b64 = [f for f in prog.functions.values() if f.name == "String::fromBase64"]
    if not b64:
        raise AnalysisBroken("String::fromBase64 not found")
    f = b64[0]
    base64_output_bound(chk, f)
    hex_reads_covered(prog, chk, "C18.g")
    conversion_ranges(prog, chk, "C18.e")
    formatted_buffers(prog, chk, "C18.f")
    parser_text_complete(prog, chk, "C18.j")
    hex_digits(prog, chk, "C18.k")
    base64_table(prog, chk, "C18.l")
    encoder_bytes_are_utf8(prog, chk, "C18.h")
    decoder_is_utf8(prog, chk, "C18.i")


INT_T = {"int": (True, 32), "unsigned int": (False, 32), "long": (True, 64), "unsigned long": (False, 64),
         "long long": (True, 64), "unsigned long long": (False, 64), "short": (True, 16), "unsigned short": (False, 16),
         "char": (True, 8), "signed char": (True, 8), "unsigned char": (False, 8)}


def covers(L, R):
    """does integer type L represent every value of integer type R?"""
    (ls, lb), (rs, rb) = L, R
    if rs:
        return ls and lb >= rb
    return (not ls and lb >= rb) or (ls and lb > rb)


def conversion_ranges(prog, chk, rid):
    """TYPE/SIB: String::to{Int,UInt,Int64,UInt64} hand their text to a C library parser whose result type represents every
    value of the declared return type (no narrower or differently signed intermediate), and the member and static overloads
    of one conversion use the same parser"""
    chk.rule(rid, "TYPE/SIB: each String::to<Integer> returns the result of a C library parser whose result type covers the whole range of the "
                  "return type, and member/static overloads agree on the parser", floor=8)
    by_name = {}
    for f in prog.functions.values():
        if f.file.endswith("String.cpp") and re.match(r"^String::to(U?Int(64)?)$", f.name):
            by_name.setdefault(f.name, []).append(f)
    if len(by_name) < 4:
        raise AnalysisBroken("String::toInt/toUInt/toInt64/toUInt64 not all found: %s" % sorted(by_name))
    for name, fs in sorted(by_name.items()):
        parsers = set()
        for f in fs:
            R = INT_T.get(f.d["ret"]) or INT_T.get(f.d.get("ret_canon", ""))
            where = "%s:%s" % (f.file, f.line)
            if R is None:
                chk.bad(rid, f, "return-type-unknown", where, "return type `%s` is not an integer type known to the rule" % f.d["ret"])
                continue
            rets = [i for i, n in enumerate(f.nodes) if n["k"] == "ReturnStmt" and n["c"]]
            for r in rets:
                # every call on the value path of the returned expression
                x = f.nodes[r]["c"][0]
                narrow = []      # intermediate types on the value path (casts, named locals) that cannot hold every value of the result type
                defs_ = q.local_defs(f)
                for _hop in range(6):
                    while f.nodes[x]["k"] in ("CStyleCastExpr", "CXXStaticCastExpr", "CXXFunctionalCastExpr", "ParenExpr", "ImplicitCastExpr") and f.nodes[x]["c"]:
                        T_ = INT_T.get(re.sub(r"^const ", "", f.nodes[x].get("t") or ""))
                        if f.nodes[x]["k"] != "ParenExpr" and T_ is not None and T_[1] < R[1]:
                            narrow.append(f.nodes[x].get("t"))
                        x = f.nodes[x]["c"][0]
                    nx_ = f.nodes[x]
                    # a local that names the parser result: `const unsigned long parsed = strtoul(...); return (uint)parsed;`
                    if nx_["k"] == "DeclRefExpr" and nx_["ref"].get("dk") == "local":
                        init_ = q.single_def(f, nx_["ref"]["id"], defs_)
                        if init_ is None:
                            break
                        T_ = INT_T.get(re.sub(r"^const ", "", nx_["ref"].get("t") or ""))
                        if T_ is None or T_[1] < R[1]:      # conversions are modulo 2^width: only a narrower stop-over loses anything
                            narrow.append(nx_["ref"].get("t"))
                        x = init_
                        continue
                    break
                n = f.nodes[x]
                if narrow:
                    chk.bad(rid, f, "parser-range-narrower-than-result", f.where(r),
                            "the parsed value passes through `%s`, which is narrower than `%s`: the upper bits are cut off on the way" % (narrow[0], f.d["ret"]), evals=2)
                    continue
                # an overload may delegate to its sibling of the same name: the sibling's parser then is this overload's parser
                hops = 0
                while n["k"] == "CallExpr" and n.get("callee") == f.name and hops < 2:
                    g = prog.functions.get(n.get("csig"))
                    gr = [i_ for i_, m_ in enumerate(g.nodes) if m_["k"] == "ReturnStmt" and m_["c"]] if g is not None and g is not f else []
                    if len(gr) != 1:
                        break
                    y = g.strip(g.nodes[gr[0]]["c"][0])
                    while g.nodes[y]["k"] in ("CStyleCastExpr", "CXXStaticCastExpr", "CXXFunctionalCastExpr", "ParenExpr", "ImplicitCastExpr") and g.nodes[y]["c"]:
                        y = g.strip(g.nodes[y]["c"][0])
                    n = g.nodes[y]
                    hops += 1
                if n["k"] != "CallExpr" or not n.get("callee"):
                    chk.bad(rid, f, "conversion-not-a-parser-call", f.where(r), "`%s` is not the plain result of a C library parser" % f.r(r)[:60])
                    continue
                L = INT_T.get(n.get("t", ""))
                parsers.add(n["callee"])
                # the text is a decimal numeral: the strto* parsers get the base 10 (base 0 reads "010" as octal and "0x10" as hex)
                if re.match(r"^strto(u?l|u?ll|imax|umax)$", n["callee"]):
                    ow_ = prog.functions.get(n.get("csig")) if False else None
                    holder = f if n in f.nodes else None
                    for g_ in ([f] + [prog.functions[s_] for s_ in prog.functions if prog.functions[s_].name == f.name and prog.functions[s_] is not f]):
                        if holder is None and any(m_ is n for m_ in g_.nodes):
                            holder = g_
                    if holder is not None:
                        a_ = q.call_args(holder, n["i"])
                        base_ = fin.eval_expr(holder, a_[2], {}) if len(a_) >= 3 else None
                        if base_ != 10:
                            chk.bad(rid, f, "parser-base-not-decimal:" + n["callee"], f.where(r),
                                    "%s is called with base %s: the conversion is defined on decimal text, with base 0 \"010\" converts to 8 and "
                                    "\"0x10\" to 16 (and the result disagrees with the sibling conversions on the same text)" % (n["callee"], base_), evals=1)
                            continue
                if L is None:
                    chk.bad(rid, f, "parser-type-unknown", f.where(r), "result type `%s` of %s is not an integer type" % (n.get("t"), n["callee"]))
                elif covers(L, R):
                    chk.ok(rid, f, "%s (%s) covers %s" % (n["callee"], n.get("t"), f.d["ret"]), f.where(r), "integer range inclusion", evals=2)
                else:
                    chk.bad(rid, f, "parser-range-narrower-than-result", f.where(r),
                            "%s returns `%s`, which cannot represent every `%s`: texts outside its range are clamped or wrapped before the cast "
                            "(e.g. decimal 2^63..2^64-1 through a signed 64-bit parser become 9223372036854775807)" % (n["callee"], n.get("t"), f.d["ret"]), evals=2)
        if len(parsers) > 1:
            chk.bad(rid, fs[0], "overloads-use-different-parsers", "%s:%s" % (fs[0].file, fs[0].line),
                    "%s: member and static overloads convert with different parsers %s" % (name, sorted(parsers)))


FMT_MAX = {"%d": 11, "%i": 11, "%u": 10, "%x": 8, "%ld": 20, "%lu": 20, "%lld": 20, "%llu": 20, "%lx": 16, "%llx": 16, "%hd": 6, "%hu": 5}


def formatted_buffers(prog, chk, rid):
    """VSA: a number formatted with snprintf into a fixed local buffer and taken with the returned length needs room for the longest
    text of the argument type plus the terminator (snprintf returns the untruncated length, it writes size-1 characters)"""
    chk.rule(rid, "VSA: where String.cpp uses the value returned by (v)snprintf(buf, N, ...) as a length without a dominating `result < N` test, "
                  "N covers the longest output of the (single integer) conversion plus the terminating NUL", floor=0)
    n_sites = 0
    for f in [f for f in prog.functions.values() if f.file.endswith("src/String.cpp")]:
        for c in q.calls(f):
            if f.nodes[c].get("callee") not in ("snprintf", "vsnprintf"):
                continue
            args = q.call_args(f, c)
            if len(args) < 3 or q.is_zero(f, args[1]):
                continue
            p = f.up(c)
            while p is not None and f.nodes[p]["k"] in ("ImplicitCastExpr", "ParenExpr", "CStyleCastExpr"):
                p = f.up(p)
            pn = f.nodes[p] if p is not None else None
            # uses that are judged elsewhere (C06.h: assigned to a variable and compared) or discarded
            if pn is None or pn["k"] in ("CompoundStmt",) or (pn["k"] == "BinaryOperator" and pn.get("op") == "=") or pn["k"] == "DeclStmt":
                continue
            n_sites += 1
            size = fin.eval_expr(f, args[1], {})
            if size is None:
                tn = f.nodes[f.strip(args[1])]
                if tn["k"] == "UnaryExprOrTypeTraitExpr":
                    m = re.search(r"\[(\d+)\]", tn.get("argt", ""))
                    size = int(m.group(1)) if m else None
            fmt = f.nodes[f.strip(args[2])]
            text = "".join(chr(b) for b in fmt.get("bytes", [])) if fmt["k"] == "StringLiteral" else None
            need = FMT_MAX.get(text) if text else None
            if size is not None and need is not None and size >= need + 1:
                chk.ok(rid, f, "snprintf(\"%s\") into %d bytes, longest output %d + NUL" % (text, size, need), f.where(c), "static bound", evals=2)
            else:
                chk.bad(rid, f, "formatted-length-may-exceed-buffer", f.where(c),
                        "the length returned by snprintf(buf, %s, \"%s\", ...) is used directly; the longest output needs %s characters plus the NUL, "
                        "so the last digit is replaced by the terminator while the reported length still counts it" % (
                            size if size is not None else f.r(args[1])[:20], text, need if need is not None else "an unknown number of"))
    chk.extra["snprintf_length_sites"] = n_sites


def base64_output_bound(chk, f):
    """fromBase64 evaluated for every input length 0..40 over well-formed characters: the lengths it accepts, the size it reserves and
    the largest output index it stores through.  (The length test and the reserved size are two sites that have to agree.)"""
    where = "%s:%s" % (f.file, f.line)
    res = [c for c in q.calls(f) if f.nodes[c].get("callee") == "String::reserve"]
    lens = [k_ for k_ in set(fin.key(f, c) for c in q.calls(f) if (f.nodes[c].get("callee") or "") == "String::length")]
    outs = [i for i, n in enumerate(f.nodes) if n["k"] == "ArraySubscriptExpr" and f.node_pos(i) is not None and C.loop_blocks(f, i) and
            any(s_.lhs == i or i in f.desc(s_.lhs) for s_ in q.stores(f))]
    if not res or not lens or not outs:
        raise AnalysisBroken("String::fromBase64: reserve call, input length or output stores not found")

    def run_len(n, asm):
        st = {"cap": None, "max": -1, "unk": set()}

        def trace(e, val):
            ne = f.nodes[e]
            if e in res:
                st["cap"] = fin.eval_expr(f, q.call_args(f, e)[0], val)
            if e in outs:
                ix = ne["c"][1]
                xn = f.nodes[f.strip(ix)]
                if xn["k"] == "UnaryOperator" and xn.get("op") == "++" and not xn.get("prefix", False) and "++" in f.r(xn["i"])[-3:]:
                    v = val.get(fin.key(f, xn["c"][0]))       # `out[j++]`: the increment has been applied already, the old value indexes
                    v = v - 1 if isinstance(v, int) else None
                else:
                    v = fin.eval_expr(f, ix, val)
                if v is None:
                    st["max"] = None
                elif st["max"] is not None:
                    st["max"] = max(st["max"], v)

        def assume(k_):
            st["unk"].add(k_)
            return asm.get(k_, 0)
        val = {k_: n for k_ in lens}
        seen, end, fv = fin.walk_vals(f, f.entry, val, limit=4000, assume=assume, trace=trace)
        return st, seen, end, fv
    # calibration: the polarity of the character tests under which 8 well-formed characters decode to 6 bytes
    st0, _s, _e, _fv = run_len(8, {})
    keys = sorted(st0["unk"])
    asm = None
    import itertools
    for combo in itertools.product((0, 1), repeat=min(len(keys), 4)):
        a_ = dict(zip(keys, combo))
        st_, seen_, end_, fv_ = run_len(8, a_)
        if not isinstance(end_, str) and st_["max"] == 5:
            asm = a_
            break
    if asm is None:
        raise AnalysisBroken("String::fromBase64: no valuation of its character tests decodes 8 characters into 6 bytes (%s)" % keys)
    bad = None
    accepted = []
    for n in range(0, 41):
        st_, seen_, end_, fv_ = run_len(n, asm)
        if isinstance(end_, str):
            bad = ("undetermined", "for an input of %d characters the walk ends with `%s`" % (n, end_))
            break
        if st_["max"] == -1 and n > 0:
            continue        # this length is rejected before anything is decoded
        accepted.append(n)
        if st_["max"] is None or st_["cap"] is None:
            bad = ("undetermined", "for an input of %d characters the reserved size or an output index is not determined" % n)
            break
        if st_["max"] >= 0 and st_["max"] + 1 > st_["cap"]:
            bad = ("bound", "an input of %d well-formed characters is accepted, %d byte(s) are reserved and the decoder stores through "
                            "index %d" % (n, st_["cap"], st_["max"]))
            break
    if bad:
        chk.bad("C18.d", f, "base64-output-" + bad[0], where,
                "fromBase64: %s - a write past the reserved output buffer (heap overflow for the boundary lengths where the rounded-up "
                "capacity does not hide it)" % bad[1], evals=41)
    else:
        chk.ok("C18.d", f, "accepted lengths %s...: every output index lies below the reserved size" % accepted[:6], where, "41 input lengths evaluated over well-formed characters", evals=41)


def hex_reads_covered(prog, chk, rid):
    """fromHex(data, size) may look at data[0..size): for every read of the input - through a cursor or by index - the tests that
    dominate it must fail in the situation where the byte read is the first one behind the input (its offset equals size) - otherwise
    that read is of a byte that is not the caller's"""
    chk.rule(rid, "VSA: in String::fromHex every read of the input (cursor[k], *cursor, data[i + k]) is dominated by a test that is false "
                  "when the offset of the byte read equals size (evaluated under that hypothesis)", floor=1)
    fs = [f for f in prog.functions.values() if f.name == "String::fromHex" and f.blocks and len(f.params) == 2]
    if not fs:
        raise AnalysisBroken("String::fromHex(data, size) not found")
    f = fs[0]
    dn, sn = f.params[0]["n"], f.params[1]["n"]
    did = f.params[0]["id"]
    # input cursors: pointer locals initialised from the data parameter; end pointers: data + size
    cur, endp = {}, {}
    for n in f.nodes:
        if n["k"] == "DeclStmt":
            for d in n["decls"]:
                if d.get("init") is None or "*" not in (d.get("t") or ""):
                    continue
                t = q.no_casts(f.r(d["init"])).replace(" ", "").strip("()")
                if t == dn:
                    cur[d["id"]] = d["n"]
                elif t in ("%s+%s" % (dn, sn), "%s+%s" % (sn, dn)):
                    endp[d["id"]] = d["n"]
    reads = []      # (node, base name or None for the parameter itself, index expression or None)
    for i, n in enumerate(f.nodes):
        if f.node_pos(i) is None:
            continue
        if n["k"] == "ArraySubscriptExpr":
            b = f.nodes[f.strip(n["c"][0])]
            if b["k"] == "DeclRefExpr" and (b["ref"].get("id") in cur or b["ref"].get("id") == did):
                reads.append((i, b["ref"]["n"], n["c"][1]))
        elif n["k"] == "UnaryOperator" and n.get("op") == "*":
            b = f.nodes[f.strip(n["c"][0])]
            if b["k"] == "DeclRefExpr" and (b["ref"].get("id") in cur or b["ref"].get("id") == did):
                reads.append((i, b["ref"]["n"], None))
    if not reads:
        raise AnalysisBroken("String::fromHex: no read of the input found")
    S, AT = 1000, 3
    for i, bname, ix in reads:
        val = {dn: S}
        for c_ in cur.values():
            val[c_] = S + AT
        if ix is not None:
            for x in [f.strip(ix)] + list(f.desc(ix)):
                nx = f.nodes[x]
                if nx["k"] == "DeclRefExpr" and nx["ref"].get("dk") in ("local", "parm") and "*" not in (nx["ref"].get("t") or "") and nx["ref"]["n"] != sn:
                    val[nx["ref"]["n"]] = AT
        k = fin.eval_expr(f, ix, val) if ix is not None else 0
        if k is None or k < 0:
            chk.bad(rid, f, "input-read-offset-unknown", f.where(i), "`%s` reads the input at an offset that could not be evaluated" % q.no_casts(f.r(i))[:40])
            continue
        off = (val[bname] - S) + k
        val[sn] = off
        for e_ in endp.values():
            val[e_] = S + off
        atoms = [a for a in fin.dominating_atoms(f, f.node_pos(i)) if a[0] != "case"]
        refuted = False
        for a in atoms:
            v = fin.eval_expr(f, a[0], val)
            if v is not None and bool(v) != bool(a[1]):
                refuted = True
        if refuted:
            chk.ok(rid, f, "read `%s` is covered by the loop test" % q.no_casts(f.r(i))[:30], f.where(i), "a dominating test is false when the byte read lies at offset size", evals=len(atoms) + 1)
        else:
            chk.bad(rid, f, "input-read-beyond-size", f.where(i),
                    "`%s` is reached although the byte it reads may be the first one behind the input (no dominating test fails when its offset "
                    "equals size): for an odd size the byte behind the caller's buffer is read" % q.no_casts(f.r(i))[:40], evals=len(atoms) + 1)


def _utf8_reps():
    """representative code points of every encoder range: the ends, every one-hot value, and the ends with one bit flipped - the byte
    expressions of the encoder are shifts, masks and ors of the one variable, which these inputs determine bit by bit"""
    out = []
    for lo, hi in ((0, 0x7F), (0x80, 0x7FF), (0x800, 0xFFFF), (0x10000, 0x10FFFF)):
        vs = {lo, hi, lo + 1, hi - 1}
        for k in range(21):
            for v in (1 << k, lo | (1 << k), hi & ~(1 << k), hi ^ (1 << k), (lo | (1 << k)) | 0x15, 0x155555 & ~((1 << k) - 1) & hi):
                if lo <= v <= hi:
                    vs.add(v)
        out.extend(sorted(v for v in vs if not 0xD800 <= v <= 0xDFFF))     # surrogates are not code points UTF-8 encodes
    return out


def encoder_bytes_are_utf8(prog, chk, rid):
    """the bytes Unicode::append(uint32, String&) hands to String::append, evaluated for representatives of every range, are the UTF-8
    encoding of the code point"""
    chk.rule(rid, "FIN: for representative code points of every range (ends, one-hot values, ends with one bit flipped; surrogates left "
                  "out) the byte expressions on the path Unicode::append takes evaluate to the UTF-8 encoding of the code point", floor=4)
    enc = [f for f in prog.functions.values() if f.name == "Unicode::append" and len(f.params) == 2 and f.params[0]["t"] == "unsigned int"]
    if not enc:
        raise AnalysisBroken("Unicode::append(uint32, String&) not found")
    enc = enc[0]
    cp = enc.params[0]["n"]
    where = "%s:%s" % (enc.file, enc.line)
    per_range = {}
    for v in _utf8_reps():
        seen_, r, fv_e = fin.walk_vals(enc, enc.entry, {cp: v}, limit=200)
        want = list(chr(v).encode("utf-8", "surrogatepass"))
        rng = len(want)
        st = per_range.setdefault(rng, {"n": 0, "bad": None})
        st["n"] += 1
        if isinstance(r, str):
            st["bad"] = st["bad"] or (v, "the range tests could not be evaluated (%s)" % r, where)
            continue
        got = []
        at = where
        cur = {cp: v}
        # the valuation at each append: the parameter may be changed on the way (`ch -= 0x10000` in the UTF-16 branch)
        vals_at = {}

        def trace(e, val_, _m=vals_at):
            _m[e] = dict(val_)
        fin.walk_vals(enc, enc.entry, {cp: v}, limit=200, trace=trace)
        for c in seen_:
            if enc.nodes[c]["k"] in ("CXXMemberCallExpr", "CallExpr") and enc.nodes[c].get("callee") == "String::append":
                a = q.call_args(enc, c)
                x = fin.eval_expr(enc, a[0], vals_at.get(c, cur)) if a else None
                got.append(None if x is None else x & 0xFF)
                at = enc.where(c)
        if got != want:
            st["bad"] = st["bad"] or (v, "emits %s, UTF-8 is %s" % (" ".join("??" if b is None else "%02X" % b for b in got) or "nothing",
                                                                     " ".join("%02X" % b for b in want)), at)
    for rng, st in sorted(per_range.items()):
        if st["bad"] is None:
            chk.ok(rid, enc, "%d-byte range: %d representatives encode as UTF-8" % (rng, st["n"]), where, "byte expressions evaluated for each representative", evals=st["n"])
        else:
            v, why, at = st["bad"]
            chk.bad(rid, enc, "encoder-bytes-not-utf8:%d-byte" % rng, at,
                    "U+%04X: Unicode::append %s - toString/fromString are no longer inverse on this range and the text is not UTF-8" % (v, why), evals=st["n"])


UTF8_MARK = {1: [0], 2: [0xC0, 0x80], 3: [0xE0, 0x80, 0x80], 4: [0xF0, 0x80, 0x80, 0x80]}


def decoder_is_utf8(prog, chk, rid):
    """Unicode::fromString(ch, len) as an affine form over the bytes it reads, per sequence length"""
    chk.rule(rid, "AFF (abstract evaluation over affine forms in the input bytes): for each sequence length n = 1..4 the value "
                  "Unicode::fromString(ch, len) returns along the path taken for a lead byte of that class is "
                  "sum((byte_i - marker_i) * 64^(n-1-i)) mod 2^32 with the UTF-8 markers (C0/E0/F0 for the lead, 80 for continuations), "
                  "every byte read as unsigned and none behind byte n-1", floor=4)
    dec = [f for f in prog.functions.values() if f.name == "Unicode::fromString" and len(f.params) == 2 and "char" in f.params[0]["t"] and f.blocks]
    ln = [f for f in prog.functions.values() if f.name == "Unicode::length" and f.blocks]
    if not dec or not ln:
        raise AnalysisBroken("Unicode::fromString(const char*, usize) / Unicode::length not found")
    dec = dec[0]
    P, L = dec.params[0]["n"], dec.params[1]["n"]
    where = "%s:%s" % (dec.file, dec.line)
    # the local that receives Unicode::length(lead byte): its value is the class of the lead byte
    lens = [d["n"] for n in dec.nodes if n["k"] == "DeclStmt" for d in n["decls"]
            if d.get("init") is not None and dec.nodes[dec.strip(d["init"])]["k"] == "CallExpr" and (dec.nodes[dec.strip(d["init"])].get("callee") or "") == "Unicode::length"]
    for n in (1, 2, 3, 4):
        rep = [UTF8_MARK[n][0] | (1 if n > 1 else 0x41)] + [0x80 | 0x2A] * (n - 1)
        consts = {L: n}
        for nm in lens:
            consts[nm] = n
        w = affine.Walker(dec, P, consts, rep)
        try:
            form, ret = w.run()
        except affine.NotAffine as e:
            if any(s_ for (_x, _k, s_) in w.reads):
                chk.bad(rid, dec, "decoder-reads-signed-byte:%d" % n, dec.where(e.node) if e.node is not None and e.node >= 0 else where,
                        "%d-byte sequence: %s - a lead or continuation byte >= 0x80 enters the sum as a negative number" % (n, e.why), evals=len(w.trail))
                continue
            raise AnalysisBroken("Unicode::fromString: the %d-byte path is not an affine function of the bytes (%s)" % (n, e.why))
        if form is None:
            raise AnalysisBroken("Unicode::fromString: no return reached for a %d-byte sequence" % n)
        got = affine.norm(form, 32)
        want = {None: 0}
        for i in range(n):
            want[i] = 64 ** (n - 1 - i)
            want[None] -= UTF8_MARK[n][i] * want[i]
        want = affine.norm(want, 32)
        far = [k_ for (_x, k_, _s) in w.reads if not 0 <= k_ < n]
        if got == want and not far:
            chk.ok(rid, dec, "%d-byte sequence decodes as UTF-8" % n, dec.where(ret), "affine form of the returned value: %s" % _fmt(got), evals=len(w.trail) + len(w.reads))
        elif far:
            chk.bad(rid, dec, "decoder-reads-outside-sequence:%d" % n, dec.where(ret),
                    "for a %d-byte sequence byte %d is read: behind the sequence (and, for len == %d, behind the range handed in)" % (n, far[0], n), evals=len(w.trail))
        else:
            chk.bad(rid, dec, "decoder-not-utf8:%d-byte" % n, dec.where(ret),
                    "for a %d-byte sequence fromString returns %s; UTF-8 is %s - code points of this length do not survive toString/fromString" % (
                        n, _fmt(got), _fmt(want)), evals=len(w.trail))


def _fmt(a):
    ts = ["%d*b%d" % (c, k) if c != 1 else "b%d" % k for k, c in sorted((k, c) for k, c in a.items() if k is not None)]
    c0 = a.get(None, 0)
    if c0:
        ts.append("- 0x%X" % ((1 << 32) - c0) if c0 > (1 << 31) else "+ 0x%X" % c0)
    return " + ".join(ts).replace("+ -", "-") or "0"


PARSERS = re.compile(r"^(atoi|atol|atoll|strto(u?l|u?ll|imax|umax|d|f|ld)|atof)$")


def parser_text_complete(prog, chk, rid):
    """the text handed to the C library parser is the String's text (or the caller's), not a bounded copy that cuts long numerals"""
    chk.rule(rid, "VSA: where a String::to<Integer> conversion hands the C library parser a local character array instead of the text itself, "
                  "the array holds the longest decimal text of the result type (sign, digits, NUL: 12 bytes for 32 bit, 21 for 64 bit); the raw "
                  "`data->str` (unterminated for attached Strings) is never handed to a parser", floor=8)
    for f in sorted([f for f in prog.functions.values() if f.file.endswith("String.cpp") and re.match(r"^String::to(U?Int(64)?)$", f.name) and f.blocks], key=lambda g: g.sig):
        R = INT_T.get(f.d["ret"]) or INT_T.get(f.d.get("ret_canon", ""))
        need = None if R is None else (12 if R[1] <= 32 else 21)
        defs = q.local_defs(f)
        sites = [c for c in q.calls(f) if PARSERS.match(f.nodes[c].get("callee") or "")]
        if not sites:
            # delegates to its sibling overload, which is an instance of its own
            chk.ok(rid, f, "no parser call of its own", "%s:%s" % (f.file, f.line), "delegation", nontrivial=False)
            continue
        for c in sites:
            a = q.call_args(f, c)
            x = f.strip(a[0]) if a else None
            for _h in range(4):
                if x is None:
                    break
                nx = f.nodes[x]
                if nx["k"] in ("CStyleCastExpr", "CXXStaticCastExpr", "CXXReinterpretCastExpr", "CXXConstCastExpr") and nx["c"]:
                    x = f.strip(nx["c"][0])
                    continue
                if nx["k"] == "DeclRefExpr" and nx["ref"].get("dk") == "local" and "[" not in (nx["ref"].get("t") or ""):
                    ini = q.single_def(f, nx["ref"]["id"], defs)
                    if ini is not None:
                        x = f.strip(ini)
                        continue
                if nx["k"] == "UnaryOperator" and nx.get("op") == "&" and nx["c"] and f.nodes[f.strip(nx["c"][0])]["k"] == "ArraySubscriptExpr":
                    x = f.strip(f.nodes[f.strip(nx["c"][0])]["c"][0])      # &buf[0]
                    continue
                break
            nx = f.nodes[x] if x is not None else None
            m = re.search(r"\[(\d+)\]$", (nx["ref"].get("t") or "")) if nx is not None and nx["k"] == "DeclRefExpr" and nx["ref"].get("dk") == "local" else None
            if nx is not None and nx["k"] == "MemberExpr" and nx.get("m") == "str" and nx["c"] and q.no_casts(f.r(nx["c"][0])) in ("this->data", "data"):
                chk.bad(rid, f, "parser-reads-unterminated-text", f.where(c),
                        "%s is handed `data->str` directly: a String attached to a window of a larger buffer has no terminator at length() (the "
                        "C-string view `*this` makes one), so the parser runs on into the bytes behind the String - `123` attached inside "
                        "`123456` converts to 123456" % f.nodes[c]["callee"], evals=2)
                continue
            if m and need is not None and int(m.group(1)) < need:
                chk.bad(rid, f, "parser-text-truncated:" + nx["ref"]["n"], f.where(c),
                        "%s parses the %d-byte local copy `%s`: the longest decimal text of `%s` needs %d bytes (sign, digits, NUL), so the "
                        "conversion is not exact at the ends of the range (e.g. the most negative value loses its last digit)" % (
                            f.nodes[c]["callee"], int(m.group(1)), nx["ref"]["n"], f.d["ret"], need), evals=2)
            else:
                chk.ok(rid, f, "%s reads %s" % (f.nodes[c]["callee"], "a local copy of %s bytes" % m.group(1) if m else "the text itself"), f.where(c),
                       "argument followed to its origin", evals=2)


def hex_digits(prog, chk, rid):
    """String::fromHex walked for one input byte: the two characters stored for it are the upper-case hexadecimal digits of its high and
    low nibble, in that order, at consecutive output positions"""
    chk.rule(rid, "FIN: String::fromHex(data, size) evaluated for one input byte b in {00, 0F, F0, A5, 5A, 9C, C9, 3E, FF}: the characters stored "
                  "through the output cursor are, in output order, the upper-case hex digits of b >> 4 and b & 15 (table contents from the literal)", floor=1)
    fs = [f for f in prog.functions.values() if f.name == "String::fromHex" and f.blocks and len(f.params) == 2 and "*" in f.params[0]["t"]]
    if not fs:
        raise AnalysisBroken("String::fromHex(const byte*, usize) not found")
    f = fs[0]
    defs = q.local_defs(f)
    P, L = f.params[0]["n"], f.params[1]["n"]
    # input reads: derefs / subscripts of the data pointer or of a cursor initialised from it
    cursors = {P}
    for n in f.nodes:
        if n["k"] == "DeclStmt":
            for d in n["decls"]:
                if d.get("init") is not None and "*" in (d.get("t") or "") and q.no_casts(f.r(d["init"])) in cursors:
                    cursors.add(d["n"])
    outs = set()
    for n in f.nodes:
        if n["k"] == "DeclStmt":
            for d in n["decls"]:
                if d.get("init") is not None and re.search(r"^(char|unsigned char) \*", d.get("t") or "") and d["n"] not in cursors:
                    outs.add(d["n"])
    if not outs:
        raise AnalysisBroken("String::fromHex: output cursor not found")

    def table_char(x, val, depth=0):
        x = f.strip(x)
        n = f.nodes[x]
        while n["k"] in ("CStyleCastExpr", "CXXStaticCastExpr", "ImplicitCastExpr", "ParenExpr") and n["c"]:
            x = f.strip(n["c"][0])
            n = f.nodes[x]
        if n["k"] == "DeclRefExpr" and n["ref"].get("dk") == "local" and depth < 3:
            ini = q.single_def(f, n["ref"]["id"], defs)
            return table_char(ini, val, depth + 1) if ini is not None else None
        if n["k"] != "ArraySubscriptExpr" or len(n["c"]) != 2:
            v = fin.eval_expr(f, x, val)
            return v
        b = f.strip(n["c"][0])
        bn = f.nodes[b]
        if bn["k"] == "DeclRefExpr" and bn["ref"].get("dk") == "local":
            ini = q.single_def(f, bn["ref"]["id"], defs)
            bn = f.nodes[f.strip(ini)] if ini is not None else bn
        if bn["k"] != "StringLiteral" or not bn.get("bytes"):
            g = prog.globals.get(bn["ref"].get("q")) if bn["k"] == "DeclRefExpr" and bn.get("ref") else None
            lit = g["strings"][0] if g and g.get("strings") else None
        else:
            lit = bn["bytes"]
        ix = fin.eval_expr(f, n["c"][1], val)
        if lit is None or ix is None or not 0 <= ix < len(lit):
            return None
        return lit[ix]
    bad = None
    n_ev = 0
    for bval in (0x00, 0x0F, 0xF0, 0xA5, 0x5A, 0x9C, 0xC9, 0x3E, 0xFF):
        val = {L: 1}
        for i_, n_ in enumerate(f.nodes):      # every read of the input, however it is spelled (`*src`, `data[i]`, `*(data + i)`)
            if n_["k"] == "ArraySubscriptExpr" and n_["c"] and q.no_casts(f.r(n_["c"][0])) in cursors or \
               n_["k"] == "UnaryOperator" and n_.get("op") == "*" and n_["c"] and re.match(r"^\(?(%s)\b" % "|".join(re.escape(c_) for c_ in cursors), q.no_casts(f.r(n_["c"][0]))):
                val[fin.key(f, i_)] = bval
        for o_ in outs:
            val[o_] = 0
        rounds = {"n": 0}

        def assume(k_, _r=rounds):
            # the loop test over the input cursor: one round, then out
            _r["n"] += 1
            return 1 if _r["n"] == 1 else 0
        out = {}

        def trace(e, v_, _o=out):
            ne = f.nodes[e]
            if ne["k"] != "BinaryOperator" or ne.get("op") != "=" or len(ne["c"]) != 2:
                return
            l = f.strip(ne["c"][0])
            ln = f.nodes[l]
            pos = None
            if ln["k"] == "ArraySubscriptExpr" and q.no_casts(f.r(ln["c"][0])) in outs:
                k_ = fin.eval_expr(f, ln["c"][1], v_)
                base_ = v_.get(q.no_casts(f.r(ln["c"][0])))
                pos = None if k_ is None or base_ is None else base_ + k_
            elif ln["k"] == "UnaryOperator" and ln.get("op") == "*" and ln["c"]:
                t_ = q.no_casts(f.r(ln["c"][0]))
                m_ = re.fullmatch(r"\(?(\w+)(\+\+)?\)?", t_)
                if m_ and m_.group(1) in outs and v_.get(m_.group(1)) is not None:
                    pos = v_[m_.group(1)] - (1 if m_.group(2) else 0)
            if pos is not None:
                _o[pos] = table_char(ne["c"][1], v_)
        seen, end, fv = fin.walk_vals(f, f.entry, val, limit=200, assume=assume, trace=trace)
        n_ev += 1
        want = [ord(c) for c in "%02X" % bval]
        got = [out.get(0), out.get(1)]
        if got != want or len(out) != 2:
            bad = (bval, got, sorted(out))
            break
    where = "%s:%s" % (f.file, f.line)
    if bad is None:
        chk.ok(rid, f, "one input byte gives its two upper-case hex digits, high nibble first", where, "9 byte values walked through one round of the loop", evals=n_ev)
    else:
        b_, got, posn = bad
        chk.bad(rid, f, "hex-digits-wrong", where,
                "for the input byte %02X fromHex stores %s at output positions %s; the upper-case hexadecimal text is \"%02X\"" % (
                    b_, "".join(chr(c) if isinstance(c, int) and 32 <= c < 127 else "?" for c in got), posn, b_), evals=n_ev)


def base64_table(prog, chk, rid):
    """the table fromBase64 translates characters with, read from its initialiser"""
    chk.rule(rid, "TBL: the decoding table of String::fromBase64 maps the k-th character of the RFC 4648 alphabet (A-Z a-z 0-9 + /) to k and "
                  "every other index it covers to the reject value 255", floor=1)
    fs = [f for f in prog.functions.values() if f.name == "String::fromBase64" and f.blocks]
    if not fs:
        raise AnalysisBroken("String::fromBase64 not found")
    f = fs[0]
    tab = None
    at = None
    for n in f.nodes:
        if n["k"] != "DeclStmt":
            continue
        for d in n["decls"]:
            if d.get("init") is None:
                continue
            x = f.nodes[f.strip(d["init"])]
            if x["k"] == "InitListExpr" and len(x["c"]) >= 100:
                vals = [fin.eval_expr(f, y, {}) for y in x["c"]]
                if None not in vals:
                    tab, at = vals, n["i"]
    if tab is None:
        g = [g_ for k_, g_ in prog.globals.items() if "base64" in k_.lower() and g_.get("values")]
        if g:
            tab = g[0]["values"]
    if tab is None:
        raise AnalysisBroken("String::fromBase64: decoding table (a constant array of >= 100 entries) not found")
    alpha = "ABCDEFGHIJKLMNOPQRSTUVWXYZabcdefghijklmnopqrstuvwxyz0123456789+/"
    want = {ord(c): k for k, c in enumerate(alpha)}
    wrong = [(i, tab[i] if i < len(tab) else None, want.get(i, 255)) for i in range(max(len(tab), 123)) if (tab[i] if i < len(tab) else None) != want.get(i, 255)]
    where = f.where(at) if at is not None else "%s:%s" % (f.file, f.line)
    if not wrong:
        chk.ok(rid, f, "decoding table of %d entries is the RFC 4648 alphabet" % len(tab), where, "64 alphabet positions and %d reject entries compared" % (len(tab) - 64), evals=len(tab))
    else:
        i, got, w = wrong[0]
        chk.bad(rid, f, "base64-table-entry:%d" % i, where,
                "the decoding table maps %r (index %d) to %s; RFC 4648 requires %s - every encoding containing that character decodes to other bytes (or is "
                "rejected / accepted wrongly)" % (chr(i), i, got, w), evals=len(tab))
