"""C20 — child processes and option parsing (structural part)."""
import re
from .. import q, fin
from .. import containers as C
from ..cursor import CursorAnalysis
from ..facts import AnalysisBroken
from .c15 import report_cursor

EXPLANATION = (
    "Rules on src/Process.cpp (POSIX branch): (a) parser-cursor abstract interpretation of Process::Arguments::read / nextChar — the "
    "option cursor `arg` advances by a constant or reads at an offset only over bytes known to be non-NUL; advances by a length derived "
    "from String::length / a found '=' stop at the terminator by construction (1 known finding: clustered short options); (b) the "
    "command-line splitter advances on every cycle; (c) the option table is walked inside [options, optionsEnd) and opt->name[argLen] is "
    "read only after the successful compare of argLen bytes; (d) after vfork the parent closes the child's pipe ends and stores its own, "
    "the child dup2()s each redirected end before closing it and before execvpe, both argv construction paths end in a null entry; "
    "(e) join and kill reap the child before clearing pid and close/zero every stored descriptor. Not decided: what the child receives, "
    "exit codes, stream contents (OS behaviour), the getopt_long semantics of each option form.")


def pfn(prog, name, pred=None):
    c = [f for f in prog.functions.values() if f.gname == name and f.file.endswith("Process.cpp") and (pred is None or pred(f))]
    if not c:
        raise AnalysisBroken("anchor function not found: " + name)
    return c[0]


def callsn(f, name):
    return [i for i in q.calls(f) if f.nodes[i].get("callee") == name]


class ArgCursor(CursorAnalysis):
    """advances by run-time lengths: accepted when the amount is derived from String::length(arg) or from a pointer
    found inside the argument (they stop at or before the terminator by construction)"""

    def transfer(self, st, e):
        f = self.f
        if isinstance(e, int):
            n = f.nodes[e]
            if n["k"] == "CompoundAssignOperator" and n["op"] == "+=" and self.T(n["c"][0]) in self.cur and fin.eval_expr(f, n["c"][1], {}) is None:
                from .. import containers as C2
                t = q.no_casts(C2.norm(f, n["c"][1], {}, self.defs))
                st = self.copy(st)
                self.checked += 1
                if re.search(r"String::length\(this->arg|String::find\(this->arg|argLen|\blen\b", t):
                    self.moved(st, self.T(n["c"][0]), 0)
                    self.adv_pos.add(f.node_pos(e))
                    return st
                self.viol.append((e, self.T(n["c"][0]), None, self.K(st, self.T(n["c"][0])), "advance by the run-time amount `%s`" % t[:40]))
                self.moved(st, self.T(n["c"][0]), 0)
                return st
        return CursorAnalysis.transfer(self, st, e)


def run(prog, chk):
    chk.extra["explanation"] = EXPLANATION
    chk.rule("C20.a", "CUR: the option cursor stays inside the argument strings", floor=2)
    chk.rule("C20.b", "CUR progress: the command-line splitter advances on every cycle; bounds of its cursor", floor=2)
    chk.rule("C20.c", "VSA: option table walked inside [options, optionsEnd); name[argLen] read only after the successful compare", floor=2)
    chk.rule("C20.d", "MPT/ORD: pipe ends after vfork; dup2 before close before exec; argv null-terminated", floor=6)
    chk.rule("C20.e", "ORD: join/kill reap the child, then clear pid and close/zero every descriptor", floor=4)
    rd = pfn(prog, "Process::Arguments::read")
    nc = pfn(prog, "Process::Arguments::nextChar")
    summ = {"Process::Arguments::nextChar": {"min_advance": 0}}
    report_cursor(chk, "C20.a", "C20.a", rd, ArgCursor(rd, ["this->arg", "end"], summ, None), "Arguments::read", progress=False)
    report_cursor(chk, "C20.a", "C20.a", nc, ArgCursor(nc, ["this->arg"], {}, None), "Arguments::nextChar", progress=False)
    sp = [f for f in prog.functions.values() if f.short == "splitCommandLine" and f.file.endswith("Process.cpp")]
    if not sp:
        raise AnalysisBroken("splitCommandLine not found")
    report_cursor(chk, "C20.b", "C20.b", sp[0], CursorAnalysis(sp[0], ["p"], {}, None), "splitCommandLine", progress=True)
    option_value_table(prog, chk)
    # ------------------------------------------------------------------ g: OS status codes are not returned as bool
    chk.rule("C20.g", "AST: no bool-returning function of Process.cpp returns the int status of a C library call through an implicit int->bool "
                      "conversion (0 = success would read as false)", floor=1)
    nret = 0
    for f in prog.functions.values():
        if not f.file.endswith("Process.cpp") or f.d["ret"] != "bool":
            continue
        for i, n in enumerate(f.nodes):
            if n["k"] != "ReturnStmt" or not n["c"]:
                continue
            nret += 1
            x, conv = n["c"][0], False
            while x >= 0 and f.nodes[x]["k"] in ("ImplicitCastExpr", "ParenExpr", "ExprWithCleanups"):
                if f.nodes[x].get("ck") == "IntegralToBoolean":
                    conv = True
                x = f.nodes[x]["c"][0] if f.nodes[x]["c"] else -1
            if conv and x >= 0 and f.nodes[x]["k"] == "CallExpr" and "::" not in f.nodes[x].get("callee", "::"):
                chk.bad("C20.g", f, "status-code-returned-as-bool:" + f.nodes[x].get("callee", "?"), f.where(i),
                        "`%s` converts the int status of %s() to bool: success (0) is reported as false and failure (-1) as true" % (f.r(i)[:60], f.nodes[x].get("callee")))
    chk.ok("C20.g", "Process.cpp", "%d return statements of bool functions inspected" % nret, "", "no implicit int->bool conversion of a C library status", evals=max(1, nret))
    # ------------------------------------------------------------------ c
    loops = [b for b in rd.blocks.values() if b.get("cond") is not None and fin.key(rd, b["cond"]) == "(opt < this->optionsEnd)"]
    inits = [n for n in rd.nodes if n["k"] == "DeclStmt" and any(d["n"] == "opt" and "init" in d and q.no_casts(rd.r(d["init"])) == "this->options" for d in n["decls"])]
    derefs = [i for i, n in enumerate(rd.nodes) if n["k"] == "MemberExpr" and n.get("arrow") and n["c"] and rd.r(n["c"][0]) == "opt"]
    ok = len(loops) >= 2 and len(inits) >= 2
    for d in derefs:
        atoms = fin.dominating_atoms(rd, rd.node_pos(d))
        if not any(a[0] != "case" and a[1] and fin.key(rd, a[0]) == "(opt < this->optionsEnd)" for a in atoms):
            ok = False
    if ok:
        chk.ok("C20.c", rd, "%d dereferences of opt all under opt < optionsEnd, starting at options" % len(derefs), "%s:%s" % (rd.file, rd.line), "dominating loop guard", evals=len(derefs))
    else:
        chk.bad("C20.c", rd, "option-table-walk", "%s:%s" % (rd.file, rd.line), "the option table is dereferenced outside the guard `opt < optionsEnd` or not started at `options`")
    nm = [i for i, n in enumerate(rd.nodes) if n["k"] == "ArraySubscriptExpr" and q.no_casts(rd.r(n["c"][0])) == "opt->name"]
    okn = bool(nm)
    for i in nm:
        atoms = fin.dominating_atoms(rd, rd.node_pos(i))
        idx = q.no_casts(rd.r(rd.nodes[i]["c"][1]))
        cmp_ok = any(a[0] != "case" and a[1] and re.search(r"String::compare\(opt->name, this->arg, %s\) == 0" % re.escape(idx), fin.key(rd, a[0])) for a in atoms)
        nn = any(a[0] != "case" and a[1] and fin.key(rd, a[0]) == "opt->name" for a in atoms)
        okn = okn and cmp_ok and nn
    if okn:
        chk.ok("C20.c", rd, "opt->name[argLen] read after name != 0 and compare(name, arg, argLen) == 0", rd.where(nm[0]), "dominating atoms", evals=len(nm) * 2)
    else:
        chk.bad("C20.c", rd, "option-name-read-unguarded", "%s:%s" % (rd.file, rd.line), "opt->name[argLen] must be read only after opt->name is non-null and its first argLen bytes matched (else it reads past a shorter name)")
    # ------------------------------------------------------------------ d
    op = pfn(prog, "Process::open", lambda f: len(f.params) == 5 and f.params[1]["t"] == "int")
    vf = callsn(op, "vfork")
    ex = callsn(op, "execvpe")
    if not vf or not ex:
        raise AnalysisBroken("Process::open: vfork/execvpe not found")
    # parent edge: r != 0 (and r != -1); child edge: the else
    par_rets = [i for i, n in enumerate(op.nodes) if n["k"] == "ReturnStmt" and n["c"] and fin.eval_expr(op, n["c"][0], {}) == 1]
    closes = callsn(op, "close")

    def closed_texts(nodes):
        return set(q.no_casts(op.r(q.call_args(op, c)[0])) for c in nodes)
    for r in par_rets:
        # every path to `return true` closes the three child ends when they were created
        need = ["stdoutFds[1]", "stderrFds[1]", "stdinFds[0]"]
        miss = []
        for t in need:
            cl = [c for c in closes if q.no_casts(q.xr(op, q.call_args(op, c)[0])).strip("()") == t and q.reaches(op, c, r) and not any(q.reaches(op, c, e) for e in ex)]
            if not cl:
                miss.append(t)
        st = C.nstores(op)
        stored = all(any(l == "this->" + fld and r_ == src for _s, l, r_ in st) for fld, src in (("fdStdOutRead", "stdoutFds[0]"), ("fdStdErrRead", "stderrFds[0]"), ("fdStdInWrite", "stdinFds[1]")))
        if not miss and stored:
            chk.ok("C20.d", op, "parent closes the child's pipe ends and keeps its own", op.where(r), "close(stdoutFds[1]), close(stderrFds[1]), close(stdinFds[0]) reach `return true`", evals=6)
        else:
            chk.bad("C20.d", op, "parent-pipe-ends", op.where(r),
                    "after vfork the parent must close %s (the reader never sees end-of-file while a write end stays open) and store its own ends" % (miss or "the child's ends"))
    # child: dup2 before close of the same fd before execvpe
    dups = callsn(op, "dup2")
    okc = len(dups) == 3
    for d in dups:
        fd = q.no_casts(op.r(q.call_args(op, d)[0]))
        cl = [c for c in closes if q.no_casts(op.r(q.call_args(op, c)[0])) == fd and q.reaches(op, d, c)]
        okc = okc and bool(cl) and all(q.reaches(op, c, ex[0]) for c in cl) and q.reaches(op, d, ex[0]) and not any(q.reaches(op, c, d) for c in cl)
    targets = sorted(fin.eval_expr(op, q.call_args(op, d)[1], {}) for d in dups) if dups else []
    pairs = set((q.no_casts(op.r(q.call_args(op, d)[0])), fin.eval_expr(op, q.call_args(op, d)[1], {})) for d in dups)
    okc = okc and pairs == {("stdoutFds[1]", 1), ("stderrFds[1]", 2), ("stdinFds[0]", 0)}
    if okc:
        chk.ok("C20.d", op, "child: dup2(end, 0/1/2) before close(end) before execvpe", op.where(dups[0]), "ORD over the three redirections", evals=9)
    else:
        chk.bad("C20.d", op, "child-redirection-order", "%s:%s" % (op.file, op.line),
                "in the child each redirected pipe end must be dup2()ed onto its standard descriptor (stdout<-stdoutFds[1], stderr<-stderrFds[1], stdin<-stdinFds[0]) before it is closed, all before execvpe; found %s" % sorted(pairs))
    # child: every pipe descriptor (its own three after dup2, and the parent's three) is closed before exec
    child_closed = set(q.no_casts(op.r(q.call_args(op, c)[0])) for c in closes if any(q.reaches(op, c, e) for e in ex))
    all_fds = {"stdoutFds[0]", "stdoutFds[1]", "stderrFds[0]", "stderrFds[1]", "stdinFds[0]", "stdinFds[1]"}
    if all_fds <= child_closed:
        chk.ok("C20.d", op, "child closes all six pipe descriptors before execvpe", op.where(ex[0]), "close() reaching exec for each of %s" % sorted(all_fds), evals=6)
    else:
        chk.bad("C20.d", op, "child-keeps-pipe-end:" + ",".join(sorted(all_fds - child_closed)), op.where(ex[0]),
                "the child reaches execvpe with %s still open: a write end kept open in the child means its own stdin (or the parent's reader) never sees end-of-file" % sorted(all_fds - child_closed))
    for f in (op, pfn(prog, "Process::start", lambda f: len(f.params) == 4 and f.params[1]["t"] == "int")):
        # evaluated for argc = 0..3, once with every caller element that is looked at null and once with none: what reaches exec is the
        # caller's vector only when its last counted element was seen to be null, otherwise an own array: executable, argv[1..argc-1]
        # unchanged, null pointer
        exe = callsn(f, "execvpe")
        subs = [i for i, n in enumerate(f.nodes) if n["k"] == "ArraySubscriptExpr" and f.node_pos(i) is not None and q.no_casts(f.r(n["c"][0])) == "argv"]
        if not exe or len(q.call_args(f, exe[0])) < 2:
            chk.bad("C20.d", f, "argv-not-terminated", "%s:%s" % (f.file, f.line), "no execvpe call taking the prepared argument vector")
            continue
        vec = q.no_casts(f.r(q.call_args(f, exe[0])[1]))
        ARGV = 5000
        bad = None
        n_ev = 0
        for argc in range(0, 4):
            for elems_null in (True, False):
                val = {"argc": argc, "argv": ARGV, "this->pid": 0}
                for i in subs:
                    val[fin.key(f, i)] = 0 if elems_null else 77
                st_ = {}

                def trace(e, v_, _st=st_):
                    n_ = f.nodes[e]
                    if n_["k"] == "BinaryOperator" and n_.get("op") == "=":
                        l_ = f.nodes[f.strip(n_["c"][0])]
                        if l_["k"] == "ArraySubscriptExpr" and q.no_casts(f.r(l_["c"][0])) == vec:
                            ix = fin.eval_expr(f, l_["c"][1], v_)
                            r_ = f.nodes[f.strip(n_["c"][1])]
                            while r_["k"] in ("CStyleCastExpr", "ImplicitCastExpr", "ParenExpr") and r_["c"]:
                                nx_ = f.strip(r_["c"][0])
                                r_ = f.nodes[nx_] if nx_ != r_["i"] else f.nodes[r_["c"][0]]
                            src = ("argv", fin.eval_expr(f, r_["c"][1], v_)) if r_["k"] == "ArraySubscriptExpr" and q.no_casts(f.r(r_["c"][0])) == "argv" else ("other", None)
                            _st[ix] = (q.is_zero(f, n_["c"][1]), src)
                seen, end, fv = fin.walk_vals(f, f.entry, val, limit=800, assume=lambda k_: 0, trace=trace, stop_at=exe[0])
                n_ev += 1
                if fv.get(vec) == ARGV:
                    if not (elems_null and argc >= 1):
                        bad = ("argv-not-terminated", "with argc = %d and %s the caller's own array is handed to execvpe: nothing says it ends in a null pointer" % (
                            argc, "no null element inside the count" if not elems_null else "an empty count"))
                elif not st_:
                    bad = ("argv-not-terminated", "with argc = %d the construction of the vector handed to execvpe could not be followed (%s)" % (argc, end))
                else:
                    T = max(argc, 1)
                    if st_.get(T, (None,))[0] is not True:
                        bad = ("argv-not-terminated", "with argc = %d the own copy gets no null pointer at index %d (zero stores at %s)" % (
                            argc, T, sorted(k for k, z in st_.items() if z[0] and k is not None)))
                    elif any(st_.get(k, (None,))[0] is True for k in range(T)):
                        bad = ("argv-not-terminated", "with argc = %d an argument slot below the terminator is zeroed" % argc)
                    elif 0 not in st_ or st_[0][1][0] == "argv":
                        bad = ("argv-copy", "with argc = %d slot 0 of the child's vector is not set to the executable" % argc)
                    else:
                        for k in range(1, T):
                            if k not in st_ or st_[k][1] != ("argv", k):
                                bad = ("argv-copy", "with argc = %d slot %d of the child's vector is %s, not the caller's argv[%d]" % (
                                    argc, k, "left unset" if k not in st_ else "taken from argv[%s]" % st_[k][1][1] if st_[k][1][0] == "argv" else "something else", k))
                                break
                if bad:
                    break
            if bad:
                break
        if bad:
            chk.bad("C20.d", f, bad[0], "%s:%s" % (f.file, f.line),
                    "the child's argument vector must be the executable, argv[1..argc-1] unchanged and a null pointer: %s" % bad[1], evals=n_ev)
        else:
            chk.ok("C20.d", f, "argv handed to execvpe: executable, the caller's arguments, null pointer - on both construction paths", "%s:%s" % (f.file, f.line),
                   "evaluated for argc 0..3 with null / non-null caller elements", evals=n_ev)
            chk.ok("C20.d", f, "args[0] = executable, args[i] = argv[i]", "%s:%s" % (f.file, f.line), "same evaluation", nontrivial=False)
    # ------------------------------------------------------------------ e
    for nm_ in ("Process::join", "Process::kill"):
        f = pfn(prog, nm_, lambda f: True)
        wp = callsn(f, "waitpid")
        st = C.nstores(f)
        clr = [s.node for s, l, r in st if l == "this->pid" and r == "0"]
        ok = bool(wp) and bool(clr) and all(q.precedes_always(f, wp, c) for c in clr)
        fds = ("fdStdOutRead", "fdStdErrRead", "fdStdInWrite")
        for fd in fds:
            cl = [c for c in callsn(f, "close") if q.no_casts(f.r(q.call_args(f, c)[0])) == "this->" + fd]
            z = [s.node for s, l, r in st if l == "this->" + fd and r == "0"]
            ok = ok and bool(cl) and bool(z) and all(q.precedes_always(f, wp, c) for c in cl) and all(any(q.reaches(f, c, x) for x in z) for c in cl)
        # failure of waitpid returns false without clearing
        if ok:
            chk.ok("C20.e", f, "%s: waitpid, then close+zero the three descriptors, then pid = 0" % nm_, "%s:%s" % (f.file, f.line), "ORD", evals=8)
        else:
            chk.bad("C20.e", f, "reap-then-close", "%s:%s" % (f.file, f.line), "%s must reap the child with waitpid before clearing pid and must close and zero every stored descriptor" % nm_)
        if nm_ == "Process::join":
            ec = [s for s, l, r in st if l == "exitCode" and "status" in r]
            if ec and all(q.precedes_always(f, wp, s.node) for s in ec):
                chk.ok("C20.e", f, "exit code taken from the reaped status", f.where(ec[0].node), "store after waitpid", nontrivial=False)
            else:
                chk.bad("C20.e", f, "exit-code-source", "%s:%s" % (f.file, f.line), "join() must report the exit status delivered by waitpid")
        else:
            kl = callsn(f, "kill")
            if kl and wp and all(q.reaches(f, k, w) for k in kl for w in wp):
                chk.ok("C20.e", f, "kill before reaping", f.where(kl[0]), "ORD", nontrivial=False)
            else:
                chk.bad("C20.e", f, "kill-order", "%s:%s" % (f.file, f.line), "kill() must signal the child before waiting for it")


# ----------------------------------------------------------------------------- C20.f: option/value decision table (FIN)

def _walk_from(f, start_block, val, limit=300):
    """follow the CFG from a block deciding branches by evaluating their conditions under `val`;
    returns (visited node ids of calls/stores, return node or reason)"""
    seen = []
    b = start_block
    for _ in range(limit):
        blk = f.blocks[b]
        for e in blk["el"]:
            if isinstance(e, int):
                seen.append(e)
                if f.nodes[e]["k"] == "ReturnStmt":
                    return seen, e
        succ = blk["succ"]
        if len(succ) == 1:
            if succ[0] is None:
                return seen, "dead end"
            b = succ[0]
            continue
        if len(succ) == 2 and blk.get("cond") is not None:
            v = fin.eval_expr(f, blk["cond"], val)
            if v is None:
                return seen, "undetermined: " + fin.key(f, blk["cond"])
            b = succ[0] if v else succ[1]
            if b is None:
                return seen, "dead end"
            continue
        return seen, "unsupported terminator"
    return seen, "limit"


def option_value_table(prog, chk):
    chk.rule("C20.f", "FIN: for every combination of {option takes a value, value optional, '=' present, rest of the argument empty, another argv "
                      "element available} the matched-option arm of Arguments::read attaches / fetches / omits the value as getopt_long specifies", floor=2)
    rd = pfn(prog, "Process::Arguments::read")
    AF = OF = None
    for n in rd.nodes:
        if n["k"] == "DeclRefExpr" and n["ref"].get("dk") == "enumconst":
            if n["ref"]["q"].endswith("argumentFlag"):
                AF = n["ref"]["v"]
            if n["ref"]["q"].endswith("optionalFlag"):
                OF = n["ref"]["v"]
    if AF is None or OF is None:
        raise AnalysisBroken("argumentFlag/optionalFlag not referenced in Arguments::read")
    # ---- long options: start where the matched option's character is taken
    st = [s for s in q.stores(rd) if q.no_casts(rd.r(s.lhs)) == "character" and q.no_casts(rd.r(s.rhs)) == "opt->character"]
    if not st:
        raise AnalysisBroken("Arguments::read: `character = opt->character` not found")
    start = rd.node_pos(st[0].node)[0]
    nextc = set(c for c in q.calls(rd) if rd.nodes[c].get("callee") == "Process::Arguments::nextChar")
    total, bad = 0, []
    for arg_f in (0, 1):
        for opt_f in (0, 1):
            for end in (0, 1):
                for rest in (0, 1):
                    if not end and rest:
                        continue   # without '=' the cursor stands at the terminator after the name: infeasible
                    for nxt in (0, 1):
                        val = {"opt->flags": (AF if arg_f else 0) | (OF if opt_f else 0), "end": end, "*this->arg": rest,
                               "this->nextChar()": nxt, "argLen": 3}
                        seen, r = _walk_from(rd, start, val)
                        total += 1
                        if not isinstance(r, int):
                            bad.append((val, "not evaluable (%s)" % r))
                            continue
                        texts = [q.no_casts(rd.r(e)) for e in seen]
                        called_next = any(e in nextc for e in seen)
                        attach_cur = any(re.match(r"^argument\.attach\(this->arg, len\)$", t) for t in texts)
                        missing = any(re.match(r"^\(character = ':'\)$|^\(character = 58\)$", t) for t in texts)
                        cleared = any(t == "argument.clear()" for t in texts)
                        if not arg_f:
                            want = ("none", False)
                        elif end:
                            want = ("attached", False)
                        elif not opt_f and nxt:
                            want = ("next", True)
                        elif not opt_f:
                            want = ("missing", True)
                        else:
                            want = ("none", False)
                        got = ("missing" if missing else "attached" if attach_cur and not called_next else "next" if attach_cur else "none" if cleared else "?", called_next)
                        if got != want:
                            bad.append((val, "behaves as %s, getopt_long: %s" % (got, want)))
    where = "%s:%s" % (rd.file, rd.line)
    if bad:
        v, why = bad[0]
        chk.bad("C20.f", rd, "long-option-value-decision", where,
                "long option with takes-value=%d optional=%d, '=' %s, rest of the argument %s, next argv %s: %s (%d of %d combinations differ); e.g. `--name=` must yield "
                "an empty attached value and leave the next argument alone" % (bool(v["opt->flags"] & AF), bool(v["opt->flags"] & OF), "present" if v["end"] else "absent",
                                                                              "non-empty" if v["*this->arg"] else "empty", "available" if v["this->nextChar()"] else "missing", why, len(bad), total), evals=total)
    else:
        chk.ok("C20.f", rd, "long options: %d combinations agree with the getopt_long decision table" % total, where, "finite valuation of the guards from `character = opt->character`", evals=total)
    # ---- short options: start at the flags test inside the `opt->character == character` arm
    eq = [b for b in rd.blocks.values() if b.get("cond") is not None and fin.key(rd, b["cond"]) == "(opt->character == character)"]
    if not eq:
        raise AnalysisBroken("Arguments::read: short option match not found")
    start2 = eq[0]["succ"][0]
    total2, bad2 = 0, []
    for arg_f in (0, 1):
        for opt_f in (0, 1):
            for rest in (0, 1):
                for nxt in (0, 1):
                    val = {"opt->flags": (AF if arg_f else 0) | (OF if opt_f else 0), "*this->arg": rest, "this->nextChar()": nxt}
                    seen, r = _walk_from(rd, start2, val)
                    total2 += 1
                    if not isinstance(r, int):
                        bad2.append((val, "not evaluable (%s)" % r))
                        continue
                    texts = [q.no_casts(rd.r(e)) for e in seen]
                    called_next = any(e in nextc for e in seen)
                    attach_cur = any(re.match(r"^argument\.attach\(this->arg, len\)$", t) for t in texts)
                    missing = any(re.match(r"^\(character = ':'\)$|^\(character = 58\)$", t) for t in texts)
                    if arg_f and not opt_f:
                        want = ("attached", False) if rest else (("next", True) if nxt else ("missing", True))
                    else:
                        want = ("none", False)
                    got = ("missing" if missing else "attached" if attach_cur and not called_next else "next" if attach_cur else "none", called_next)
                    if got != want:
                        bad2.append((val, "behaves as %s, getopt: %s" % (got, want)))
    if bad2:
        v, why = bad2[0]
        chk.bad("C20.f", rd, "short-option-value-decision", where, "short option with takes-value=%d optional=%d, rest of the cluster %s, next argv %s: %s" % (
            bool(v["opt->flags"] & AF), bool(v["opt->flags"] & OF), "non-empty" if v["*this->arg"] else "empty", "available" if v["this->nextChar()"] else "missing", why), evals=total2)
    else:
        chk.ok("C20.f", rd, "short options: %d combinations agree with the getopt decision table" % total2, where, "finite valuation of the guards", evals=total2)
    quoted_word_typestate(prog, chk, "C20.h")
    descriptor_pairing(prog, chk, "C20.i")
    environment_handover(prog, chk, "C20.j")
    argv_cursor_bounded(prog, chk, "C20.k")
    select_covers_registered(prog, chk, "C20.l")
    select_arguments_rearmed(prog, chk, "C20.m")
    overload_forwarding(prog, chk, "C20.n")
    argv_reads_within_count(prog, chk, "C20.o")
    list_overload_count(prog, chk, "C20.p")
    reported_text_ends_at_cursor(prog, chk, "C20.q")
    errno_only_after_failure(prog, chk, "C20.r")


def quoted_word_typestate(prog, chk, rid):
    """typestate over the command-line splitter: a word opened by a quote is emitted before the next separator is consumed / the
    function returns, also when nothing was accumulated for it (`""` denotes an empty argument).
    abstract state: set of (accumulator empty?, quoted word pending?, values of the bool locals)"""
    chk.rule(rid, "typestate: in splitCommandLine a word opened by `\"` is appended to the argument list before the next separator has been "
                  "consumed and before the function returns, also when it is empty (states: accumulator empty x quoted word pending x flags)", floor=2)
    fs = [f for f in prog.functions.values() if f.name.endswith("splitCommandLine") and f.file.endswith("Process.cpp")]
    if not fs:
        raise AnalysisBroken("splitCommandLine not found")
    f = fs[0]
    out = f.params[1]["n"]
    acc = None
    flags = []
    for n in f.nodes:
        if n["k"] == "DeclStmt":
            for d in n["decls"]:
                if d.get("t") == "String" and acc is None:
                    acc = d["n"]
                if (d.get("t") or "").replace("const ", "").strip() == "bool":
                    flags.append(d["n"])
    if acc is None:
        raise AnalysisBroken("splitCommandLine: accumulator String local not found")
    flags = sorted(flags)

    def is_emit(n):
        return n["k"] == "CXXMemberCallExpr" and re.match(r"^%s\.append\(%s\)$" % (re.escape(out), re.escape(acc)), f.r(n["i"]))

    def transfer(st, e):
        if not isinstance(e, int):
            return st
        n = f.nodes[e]
        res = set()
        for (empty, pend, fl) in st:
            if n["k"] == "CXXMemberCallExpr":
                t = f.r(e)
                if is_emit(n):
                    pend = False
                elif re.match(r"^%s\.append\(" % re.escape(acc), t):
                    empty = False
                elif t == "%s.clear()" % acc:
                    empty = True
            elif n["k"] == "DeclStmt":
                for d in n["decls"]:
                    if d["n"] in flags and d.get("init") is not None:
                        v = fin.eval_expr(f, d["init"], {})
                        fl = tuple(((bool(v) if v is not None else None) if nm == d["n"] else x) for nm, x in zip(flags, fl))
            elif n["k"] == "BinaryOperator" and n["op"] == "=" and f.r(n["c"][0]) in flags:
                v = fin.eval_expr(f, n["c"][1], {})
                fl = tuple(((bool(v) if v is not None else None) if nm == f.r(n["c"][0]) else x) for nm, x in zip(flags, fl))
            res.add((empty, pend, fl))
        return frozenset(res)

    def refine(st, blk, k):
        s = blk["succ"][k]
        res = set(st)
        if blk.get("tk") == "SwitchStmt":
            lab = f.blocks[s].get("label")
            if lab is not None and f.nodes[lab]["k"] == "CaseStmt" and f.nodes[lab].get("v") == 0x22:
                res = set((e, True, fl) for (e, p, fl) in res)
            return frozenset(res)
        c = blk.get("cond")
        if c is None or len(blk["succ"]) != 2:
            return frozenset(res)
        for a, truth in q.cond_atoms(f, c, k == 0):
            t = q.no_casts(f.r(a))
            if t == "%s.isEmpty()" % acc:
                res = set(x for x in res if x[0] == truth)
            elif t in flags:
                i = flags.index(t)
                res = set(x for x in res if x[2][i] is None or x[2][i] == truth)
        return frozenset(res) if res else None

    init = frozenset({(True, False, tuple(None for _ in flags))})
    sin, sat = q.forward(f, init, transfer, refine, lambda a, b: a | b)
    where = "%s:%s" % (f.file, f.line)
    # boundary 1: the function exit
    ex = sin.get(f.exit) or frozenset()
    lost = [x for x in ex if x[1]]
    if lost:
        chk.bad(rid, f, "quoted-word-dropped-at-end", where,
                "the function can return while a quote-opened word is pending (accumulator empty: %s): a trailing `\"\"` yields no argument, "
                "the child receives one argument fewer" % sorted(set(x[0] for x in lost)), evals=len(ex))
    else:
        chk.ok(rid, f, "no quoted word pending at return", where, "%d abstract states at the exit" % len(ex), evals=max(1, len(ex)))
    # boundary 2: the end of every separator case (case ' ' of a switch on the cursor)
    seps = [b for b in f.blocks.values() if b.get("label") is not None and f.nodes[b["label"]]["k"] == "CaseStmt" and f.nodes[b["label"]].get("v") == 0x20]
    if not seps:
        raise AnalysisBroken("splitCommandLine: no `case ' '` found")
    for sb in seps:
        # blocks of the case: dominated by the label block, up to the break
        bad = None
        n_states = 0
        for b in f.blocks:
            if not f.dominates_pos((sb["id"], 0), (b, 0)):
                continue
            blk = f.blocks[b]
            for s in blk["succ"]:
                if s is not None and not f.dominates_pos((sb["id"], 0), (s, 0)):
                    st = sat.get((b, len(blk["el"]))) or frozenset()
                    n_states += len(st)
                    if any(x[1] for x in st):
                        bad = [x for x in st if x[1]]
        if bad:
            chk.bad(rid, f, "quoted-word-dropped-at-separator", f.where(sb["label"]),
                    "the separator case can finish while a quote-opened word is pending (accumulator empty: %s): in `prog a \"\" b` the empty "
                    "argument vanishes and every later argument shifts by one" % sorted(set(x[0] for x in bad)), evals=n_states)
        else:
            chk.ok(rid, f, "separator emits the pending word", f.where(sb["label"]), "%d abstract states leave the case" % n_states, evals=max(1, n_states))


def descriptor_pairing(prog, chk, rid):
    """PAIRF over every member of Process: a stored pipe descriptor that is closed is zeroed (the same member) on every path after
    the close, and a descriptor member is zeroed only after it was closed: a stale number is closed again later (by then it may
    belong to another pipe), a zeroed-but-open one leaks and read() then reads descriptor 0"""
    chk.rule(rid, "PAIRF: in the parent-side members of Process every `::close(fdX)` of a stored descriptor is followed by `fdX = 0` and every "
                  "`fdX = 0` outside the constructor follows a close of that same member", floor=6)
    fs = [f for f in prog.functions.values() if f.clsq == "Process" and f.file.endswith("Process.cpp") and f.blocks and f.kind != "ctor"]
    FD = re.compile(r"^this->(fd\w+)$")
    for f in fs:
        closes = {}
        for c in q.calls(f):
            if f.nodes[c].get("callee") == "close" and q.call_args(f, c):
                m = FD.match(q.no_casts(q.xr(f, q.call_args(f, c)[0])))
                if m:
                    closes.setdefault(m.group(1), []).append(c)
        zeros = {}
        for s in q.stores(f):
            m = FD.match(q.no_casts(f.r(s.lhs)))
            if m and s.rhs is not None and q.is_zero(f, s.rhs):
                zeros.setdefault(m.group(1), []).append(s.node)
        # the child side after vfork closes descriptors it will never use again and execs: no bookkeeping there
        child = set()
        for b in f.blocks.values():
            c = b.get("cond")
            if c is not None and re.search(r"\(\w+ == 0\)|\(0 == \w+\)", q.no_casts(f.r(c))) and "fork" in q.xr(f, c):
                child |= set(x[0] for x in f.reach({(b["succ"][0], 0)})) if b["succ"][0] is not None else set()
        for fd, cs in sorted(closes.items()):
            for c in cs:
                if (f.node_pos(c) or (None,))[0] in child:
                    continue
                zs = q.pos_of(f, zeros.get(fd, []))
                p = f.find_path(f.node_pos(c), {f.exit_pos()}, avoid=zs)
                if zs and p is None:
                    chk.ok(rid, f, "close(%s) then %s = 0" % (fd, fd), f.where(c), "zero store on every path after the close", evals=2)
                else:
                    chk.bad(rid, f, "descriptor-closed-but-kept:" + fd, f.where(c),
                            "`%s` is closed but a path to the exit does not set it to 0: the stale number is closed again by a later join/kill/close, "
                            "possibly hitting a descriptor that meanwhile belongs to another pipe" % fd, f.path_lines(p) if p else None)
        for fd, zs in sorted(zeros.items()):
            for z in zs:
                if (f.node_pos(z) or (None,))[0] in child:
                    continue
                cs = q.pos_of(f, closes.get(fd, []))
                p = f.find_path(f.entry_pos(), {f.node_pos(z)}, avoid=cs, after_src=False)
                if cs and p is None:
                    chk.ok(rid, f, "%s = 0 only after close(%s)" % (fd, fd), f.where(z), "a close of the same member on every path to the store", evals=2)
                else:
                    chk.bad(rid, f, "descriptor-zeroed-without-close:" + fd, f.where(z),
                            "`%s` is set to 0 on a path that did not close it: the pipe end stays open (the child never sees end-of-file) and "
                            "read()/write() then use descriptor 0" % fd, f.path_lines(p) if p else None)


def environment_handover(prog, chk, rid):
    """"A child started with an environment map receives exactly that environment": the NAME=value strings are built one per map entry
    and all of them, followed by a null pointer, are handed to exec"""
    chk.rule(rid, "CNT/MPT: prepareEnv appends one string made of the entry's key and value on every iteration over the map; start()/open() "
                  "size the pointer array from that list (+1), store one pointer per string, terminate it and pass it to exec", floor=3)
    pe = [f for f in prog.functions.values() if f.short == "prepareEnv" and f.file.endswith("Process.cpp") and f.blocks]
    if not pe:
        raise AnalysisBroken("prepareEnv not found in Process.cpp")
    for f in pe:
        where = "%s:%s" % (f.file, f.line)
        envp, outp = f.params[0]["n"], f.params[1]["n"]
        apps = [c for c in q.calls(f) if f.nodes[c].get("callee", "").endswith("::append") and q.call_object(f, c) is not None and
                q.no_casts(f.r(q.call_object(f, c))) == outp]
        advs = [c for c in q.calls(f) if f.nodes[c]["k"] == "CXXOperatorCallExpr" and f.nodes[c].get("oop") == "++"]
        advs = [c for c in advs if C.loop_blocks(f, c)]
        if not apps or not advs:
            chk.bad(rid, f, "environment-strings-not-built", where, "prepareEnv no longer walks the map appending to `%s`" % outp)
            continue
        lb = C.loop_blocks(f, advs[0])
        heads = [x for x in lb if any(p_ not in lb for p_ in f.preds.get(x, []))]
        skip = f.find_path((heads[0], 0), {(heads[0], 0)}, avoid=q.pos_of(f, apps)) if heads else None
        if skip is not None:
            chk.bad(rid, f, "environment-entry-skipped", f.where(apps[0]),
                    "an iteration over the environment map can finish without appending a NAME=value string (lines %s): that entry is not "
                    "passed to the child (a variable set to the empty string is not the same as an unset one)" % f.path_lines(skip))
        else:
            chk.ok(rid, f, "one string per map entry", f.where(apps[0]), "no path around append() inside the loop", evals=2)
        it = q.no_casts(f.r(f.nodes[advs[0]]["c"][1]))
        for c in apps:
            t = q.no_casts(q.xr(f, q.call_args(f, c)[0]))
            lits = [f.nodes[x] for x in f.desc(q.call_args(f, c)[0]) if f.nodes[x]["k"] == "StringLiteral"]
            okc = ("%s.key()" % it) in t and ("*%s" % it) in t and any(l_.get("bytes") == [61] or l_.get("v") == "=" or '"="' in f.r(l_["i"]) for l_ in lits)
            if okc:
                chk.ok(rid, f, "string is key + \"=\" + value of the current entry", f.where(c), t[:60], evals=1)
            else:
                chk.bad(rid, f, "environment-string-shape", f.where(c), "the appended string `%s` is not key + \"=\" + value of the current entry" % t[:80])
    users = [f for f in prog.functions.values() if f.clsq == "Process" and f.blocks and any(f.nodes[c].get("callee", "").endswith("prepareEnv") for c in q.calls(f))]
    if len(users) < 2:
        raise AnalysisBroken("callers of prepareEnv: %d found, 2 expected (start, open)" % len(users))
    for f in users:
        defs = q.local_defs(f)
        for pc in [c for c in q.calls(f) if f.nodes[c].get("callee", "").endswith("prepareEnv")]:
            lst = q.no_casts(f.r(q.call_args(f, pc)[1])).lstrip("&")
            execs = [c for c in q.calls(f) if re.match(r"^execv?p?e$|^execve$|^execvpe$", f.nodes[c].get("callee", "") or "") and q.reaches(f, pc, c)]
            if not execs:
                chk.bad(rid, f, "environment-not-passed", f.where(pc), "no exec call that takes an environment follows prepareEnv")
                continue
            for ex in execs:
                earg = q.call_args(f, ex)[-1]
                en = f.nodes[f.strip(earg)]
                while en["k"] in ("CStyleCastExpr", "ImplicitCastExpr", "ParenExpr") and en["c"]:
                    en = f.nodes[f.strip(en["c"][0])] if f.strip(en["c"][0]) != en["i"] else f.nodes[en["c"][0]]
                if en["k"] != "DeclRefExpr":
                    chk.bad(rid, f, "environment-not-passed", f.where(ex), "exec is not given the prepared environment array")
                    continue
                arr_id, arr = en["ref"]["id"], en["ref"]["n"]
                allocs = [(nd, init) for kind, nd, init in defs.get(arr_id, []) if init is not None and q.reaches(f, pc, nd) and
                          re.search(r"alloca|malloc|new ", f.r(init))]
                problems = []
                if not allocs:
                    problems.append("`%s` is not re-pointed to an array sized for the prepared strings" % arr)
                else:
                    at = q.no_casts(q.xr(f, allocs[0][1])).replace(" ", "")
                    ac = [c_ for c_ in q.calls(f) if c_ in f.desc(allocs[0][1]) and re.search(r"alloca|malloc", f.nodes[c_].get("callee", "") or "")]
                    sized = False
                    if ac:
                        # the byte count for 3 / 7 prepared strings must hold 4 / 8 pointers
                        vals_ = [fin.eval_expr(f, q.call_args(f, ac[0])[0], {lst + ".size()": k_}) for k_ in (3, 7)]
                        sized = all(v_ is not None for v_ in vals_) and vals_[0] >= 8 * 4 and vals_[1] >= 8 * 8
                    if not sized and not re.search(r"\(%s\.size\(\)\+1\)|\(1\+%s\.size\(\)\)" % (re.escape(lst), re.escape(lst)), at):
                        problems.append("the pointer array is not sized `%s.size() + 1` (%s)" % (lst, at[:60]))
                    # cursor over the array: local initialised from it and stored through with ++
                    curs = [did for did, dl in defs.items() for kind, nd, init in dl if init is not None and q.no_casts(f.r(init)) == arr and q.reaches(f, allocs[0][0], nd)]
                    cname = None
                    for did in curs:
                        cname = next((n_["ref"]["n"] for n_ in f.nodes if n_["k"] == "DeclRefExpr" and n_["ref"].get("id") == did), None)
                    bases = {arr} | ({cname} if cname else set())

                    def slot(s_):
                        """(base, kind) when the store writes one slot of the pointer array: through the cursor or by index"""
                        l_ = f.nodes[s_.lhs]
                        if l_["k"] == "ArraySubscriptExpr":
                            b_ = q.no_casts(f.r(l_["c"][0]))
                            return (b_, "index") if b_ in bases else None
                        m_ = re.match(r"^\*\(?(\w+)(\+\+)?\)?$", q.no_casts(f.r(s_.lhs)).replace(" ", ""))
                        if m_ and m_.group(1) in bases:
                            return (m_.group(1), "cursor")
                        return None
                    sts = [s_ for s_ in q.stores(f) if s_.rhs is not None and s_.op == "=" and slot(s_) and q.reaches(f, allocs[0][0], s_.node)]
                    fills = [s_ for s_ in sts if C.loop_blocks(f, s_.node) and not q.is_zero(f, s_.rhs)]
                    terms = [s_ for s_ in sts if not C.loop_blocks(f, s_.node) and q.is_zero(f, s_.rhs)]
                    if not fills:
                        problems.append("no loop stores one pointer per prepared string through a cursor over `%s`" % arr)
                    else:
                        lb = C.loop_blocks(f, fills[0].node)
                        heads = [x for x in lb if any(p_ not in lb for p_ in f.preds.get(x, []))]
                        if heads and f.find_path((heads[0], 0), {(heads[0], 0)}, avoid=q.pos_of(f, [s_.node for s_ in fills])) is not None:
                            problems.append("an iteration over the prepared strings can skip the pointer store")
                    if not terms or f.find_path(f.node_pos(allocs[0][0]), {f.node_pos(ex)}, avoid=q.pos_of(f, [s_.node for s_ in terms])) is not None:
                        problems.append("the pointer array is not null-terminated on every path to exec")
                if problems:
                    chk.bad(rid, f, "environment-array:" + arr, f.where(ex), "; ".join(problems) + ": the child gets a different environment than the map, or exec reads past the array")
                else:
                    chk.ok(rid, f, "environment array sized, filled, terminated and passed to %s" % f.nodes[ex]["callee"], f.where(ex), "size() + 1, store per string, null store before exec", evals=4)


def argv_cursor_bounded(prog, chk, rid):
    """The argument-vector cursor is stepped past the program name without a test (constructor), so it may already lie behind the end
    (argc == 0): every read through it needs the ordered test `argv < argvEnd`, an inequality test does not stop it."""
    chk.rule(rid, "DOM: every read through the argument-vector cursor of Process::Arguments is dominated by `argv < argvEnd` (strict order, "
                  "whatever the spelling); `!=` is not enough because the cursor can start behind the end", floor=1)
    fs = [f for f in prog.functions.values() if (f.cls or "").endswith("Process::Arguments") and f.blocks and f.file.endswith("Process.cpp")]
    if not fs:
        raise AnalysisBroken("no member of Process::Arguments found in Process.cpp")
    n = 0
    for f in fs:
        for i, nd in enumerate(f.nodes):
            if nd["k"] != "UnaryOperator" or nd.get("op") != "*" or f.node_pos(i) is None:
                continue
            t = q.no_casts(f.r(nd["c"][0])).replace(" ", "")
            if t not in ("this->argv", "this->argv++", "(this->argv++)", "(this->argv)"):
                continue
            n += 1
            rel = fin.relations(f, f.node_pos(i), render=lambda x: q.no_casts(f.r(x)))
            if ("this->argv", "<", "this->argvEnd") in rel:
                chk.ok(rid, f, "read through argv under argv < argvEnd", f.where(i), "dominating order fact", evals=len(rel) + 1)
            else:
                chk.bad(rid, f, "argv-read-without-order-test", f.where(i),
                        "`%s` is read where only %s is known about the cursor: the constructor steps over the program name unconditionally, "
                        "for an empty argument vector the cursor starts behind argvEnd and an inequality test lets it run on" % (
                            f.r(i), sorted(r for r in rel if "argv" in r[0] or "argv" in r[2]) or "nothing"), evals=len(rel) + 1)
    if not n:
        raise AnalysisBroken("no read through this->argv found in Process::Arguments")


def select_covers_registered(prog, chk, rid):
    """the multiplexed read waits with select(): its first argument has to exceed every descriptor put into the set, in whatever order the
    pipes were created - a descriptor above it is never examined, the child blocks on that pipe for ever"""
    chk.rule(rid, "FIN: for every stream mask and both orders of the two pipe descriptors, the nfds argument of select() in Process::read is "
                  "greater than every descriptor registered with FD_SET on that path", floor=1)
    cands = [f for f in prog.functions.values() if f.name == "Process::read" and len(f.params) == 3 and f.blocks and callsn(f, "select")]
    if not cands:
        raise AnalysisBroken("Process::read(void*, usize, uint&) with a select() call not found")
    f = cands[0]
    sel = callsn(f, "select")[0]
    mask = f.params[2]["n"]
    fds = sorted(set(m.group(0) for n in f.nodes if n["k"] == "MemberExpr" for m in [re.match(r"^this->fdStd\w+Read$", q.no_casts(f.r(n["i"])))] if m))
    if len(fds) < 2:
        raise AnalysisBroken("Process::read: the two pipe descriptors were not found")
    # FD_SET expands to an |= on the set's bit array: the registration sites, each with the descriptor it mentions
    regs = {}
    for st in q.stores(f):
        if st.op == "|=" and re.search(r"fds_bits", f.r(st.lhs)):
            for x in [st.node] + list(f.desc(st.node)):
                t = q.no_casts(f.r(x)) if f.nodes[x]["k"] == "MemberExpr" else ""
                if t in fds:
                    regs[st.node] = t
    if not regs:
        raise AnalysisBroken("Process::read: no FD_SET registration found")
    bad = None
    n_ev = 0
    for m_ in (1, 2, 3):
        for va, vb in ((5, 7), (7, 5), (5, 0), (0, 7)):
            val = {mask: m_, fds[0]: va, fds[1]: vb}
            seen, end, fv = fin.walk_vals(f, f.entry, val, stop_at=sel, limit=20000)     # (FD_ZERO is a loop over the whole set)
            n_ev += 1
            if end in ("limit",) or (isinstance(end, str) and end.startswith("undetermined")):
                bad = (m_, va, vb, "the way to select() is not determined by the mask and the descriptors (%s)" % end)
                break
            if end != "stop":
                continue        # nothing to wait for under this valuation (EINVAL path)
            registered = [val[regs[e]] for e in seen for e in ([e] + list(f.desc(e))) if e in regs]
            nfds = fin.eval_expr(f, q.call_args(f, sel)[0], fv)
            if nfds is None:
                bad = (m_, va, vb, "nfds is not determined by the mask and the descriptors")
                break
            if registered and nfds <= max(registered):
                bad = (m_, va, vb, "select() is called with nfds = %d although descriptor %d is in the set" % (nfds, max(registered)))
                break
        if bad:
            break
    where = f.where(sel)
    if bad:
        chk.bad(rid, f, "select-nfds-below-registered-descriptor", where,
                "with stream mask %d and descriptors (%s=%d, %s=%d): %s - output on that pipe is never seen, a child that fills it blocks for ever "
                "and join() is never reached" % (bad[0], fds[0].replace("this->", ""), bad[1], fds[1].replace("this->", ""), bad[2], bad[3]), evals=n_ev)
    else:
        chk.ok(rid, f, "nfds exceeds every registered descriptor", where, "%d valuations (mask x descriptor order)" % n_ev, evals=n_ev)


def select_arguments_rearmed(prog, chk, rid):
    """select() overwrites the descriptor sets it is given (only the ready descriptors stay, none after a timeout) and, on Linux, the
    timeout (what is left of it).  A retry must therefore build both again: calling it again with the old objects waits for nothing."""
    chk.rule(rid, "MPT: no path from a select() call back to a select() call on the same fd_set / timeval objects avoids the statements that "
                  "set those objects up (FD_ZERO/FD_SET stores, the timeval's initialisation)", floor=1)
    n = 0
    for f in [g for g in prog.functions.values() if g.file.endswith("Process.cpp") and g.blocks]:
        for c in callsn(f, "select"):
            n += 1
            args = q.call_args(f, c)
            objs = []
            for a in args[1:5]:
                t = q.no_casts(f.r(a)).lstrip("&")
                if re.match(r"^\w+$", t) and t not in ("0", "NULL", "nullptr"):
                    objs.append(t)
            bad = None
            for o in objs:
                names_ = [o] + [d_["n"] for nd_ in f.nodes if nd_["k"] == "DeclStmt" for d_ in nd_["decls"]
                                if d_.get("init") is not None and q.no_casts(f.r(d_["init"])).strip("()") == "&" + o]       # FD_ZERO: `fd_set* __arr = &fdr`
                setup = [st.node for st in q.stores(f) if any(re.match(r"^&?%s\b" % re.escape(nm_), q.no_casts(f.r(st.lhs)).lstrip("(*")) for nm_ in names_)]
                setup += [nd["i"] for nd in f.nodes if nd["k"] == "DeclStmt" and any(d["n"] in names_ and d.get("init") is not None for d in nd["decls"])]
                again = f.find_path(f.node_pos(c), {f.node_pos(c)}, avoid=q.pos_of(f, setup))
                if again is not None:
                    bad = (o, again)
                    break
            if bad:
                chk.bad(rid, f, "select-retried-with-consumed-arguments:" + bad[0], f.where(c),
                        "select() is called again (lines %s) with `%s` as the previous call left it: after a timeout the descriptor set is empty "
                        "and the remaining time is zero, so the loop spins without ever seeing the child's output" % (f.path_lines(bad[1])[:6], bad[0]), evals=len(objs) + 1)
            else:
                chk.ok(rid, f, "select() arguments %s are set up again before every call" % objs, f.where(c), "cycle search avoiding the set-up statements", evals=len(objs) + 1)
    if not n:
        raise AnalysisBroken("no select() call found in Process.cpp")


def overload_forwarding(prog, chk, rid):
    """The convenience overloads of Process::start/open (command line, List of arguments) convert their arguments and delegate to the
    argc/argv overload: what the caller asked for - environment, stream set - only reaches the child if every delegation hands its own
    parameter on.  An omitted argument silently becomes the default (empty environment = inherit the parent's)."""
    chk.rule(rid, "WRAP: where a Process::start/open overload delegates to a sibling overload, each parameter of the sibling that the "
                  "delegating overload also has (same name and type) receives that parameter, not a default argument or another value", floor=3)
    fs = [f for f in prog.functions.values() if f.clsq == "Process" and f.short in ("start", "open") and f.blocks and f.file.endswith("Process.cpp")]
    if len(fs) < 5:
        raise AnalysisBroken("Process::start/open overloads: %d found, 5 expected" % len(fs))
    by_sig = {f.sig: f for f in fs}
    n = 0
    for f in fs:
        mine = {p_["n"]: p_ for p_ in f.params}
        for c in q.calls(f):
            g = by_sig.get(f.nodes[c].get("csig"))
            if g is None or g is f or g.short != f.short:
                continue
            args = q.call_args(f, c)
            for k, gp in enumerate(g.params):
                if gp["n"] not in mine or mine[gp["n"]]["t"] != gp["t"] or gp["n"] in ("executable", "program", "commandLine", "command"):
                    continue
                n += 1
                a = args[k] if k < len(args) else None
                an = f.nodes[f.strip(a)] if a is not None else None
                while an is not None and an["k"] in ("ImplicitCastExpr", "ParenExpr", "MaterializeTemporaryExpr", "CXXBindTemporaryExpr") and an["c"]:
                    an = f.nodes[f.strip(an["c"][0])] if f.strip(an["c"][0]) != an["i"] else f.nodes[an["c"][0]]
                ok = an is not None and an["k"] == "DeclRefExpr" and an["ref"].get("id") == mine[gp["n"]]["id"] and \
                    not [s_ for s_ in q.stores(f) if q.no_casts(f.r(s_.lhs)) == gp["n"]]
                if ok:
                    chk.ok(rid, f, "`%s` handed on to %s" % (gp["n"], g.sig[:60]), f.where(c), "argument %d is the parameter itself" % (k + 1), evals=1)
                else:
                    what = "left to its default argument" if an is None or an["k"] == "CXXDefaultArgExpr" else "given `%s`" % q.no_casts(f.r(a))[:40]
                    chk.bad(rid, f, "parameter-not-forwarded:" + gp["n"], f.where(c),
                            "this overload takes `%s` but the delegation to %s is %s: the caller's %s never reaches the child process "
                            "(e.g. open(exe, List, streams, {X=1}) starts the child with the parent's environment instead)" % (
                                gp["n"], g.sig[:70], what, gp["n"]), evals=1)
    if not n:
        raise AnalysisBroken("no delegation between Process::start/open overloads found")


def argv_reads_within_count(prog, chk, rid):
    """The argc/argv overloads get an array of which exactly `argc` elements are the caller's (a terminating null pointer behind them is
    optional and therefore may be LOOKED FOR only inside the count).  Evaluated for argc = 0..3 and both outcomes of every test the
    count does not decide: each `argv[E]` that is read has 0 <= E < argc, whatever the function did to its own copy of argc meanwhile."""
    import itertools
    chk.rule(rid, "FIN/VSA: Process::start/open(argc, argv) evaluated for argc = 0..3 over the outcomes of the undetermined tests: every "
                  "subscript of the caller's `argv` that is evaluated lies in [0, argc) of the count passed in", floor=2)
    fs = [f for f in prog.functions.values() if f.clsq == "Process" and f.blocks and f.file.endswith("Process.cpp") and
          any(p_["n"] == "argc" for p_ in f.params) and any(p_["n"] == "argv" for p_ in f.params)]
    if len(fs) < 2:
        raise AnalysisBroken("Process::start/open(argc, argv): %d bodies found, 2 expected" % len(fs))
    for f in fs:
        where = "%s:%s" % (f.file, f.line)
        subs = [i for i, n in enumerate(f.nodes) if n["k"] == "ArraySubscriptExpr" and f.node_pos(i) is not None and q.no_casts(f.r(n["c"][0])) == "argv"]
        if not subs:
            chk.ok(rid, f, "argv is not subscripted here", where, "", nontrivial=False)
            continue
        bad = None
        n_ev = 0
        for argc in range(0, 4):
            unk = []
            for combo in itertools.product((0, 1), repeat=3):
                hits = []

                def trace(e, val, _argc=argc, _hits=hits):
                    if e in subs:
                        v = fin.eval_expr(f, f.nodes[e]["c"][1], val)
                        _hits.append((e, v))
                seen_keys = []

                def assume(k_, _combo=combo, _seen=seen_keys):
                    if k_ not in _seen:
                        _seen.append(k_)
                    ix = _seen.index(k_)
                    return _combo[ix] if ix < len(_combo) else 0
                val = {"argc": argc, "this->pid": 0}
                seen, end, fv = fin.walk_vals(f, f.entry, val, limit=600, assume=assume, trace=trace)
                n_ev += 1
                for e, v in hits:
                    if v is None or not (0 <= v < argc):
                        bad = (argc, e, v)
                        break
                if bad:
                    break
            if bad:
                break
        if bad:
            argc, e, v = bad
            chk.bad(rid, f, "argv-read-outside-count", f.where(e),
                    "called with argc = %d, `%s` is evaluated with the subscript %s: an element the caller never declared (argv may be a "
                    "null pointer or an empty array when argc is 0; a terminator behind the count is optional)" % (
                        argc, q.no_casts(f.r(e))[:40], "undetermined" if v is None else v), evals=n_ev)
        else:
            chk.ok(rid, f, "%d subscripts of argv stay inside the count for argc = 0..3" % len(subs), where, "%d evaluations" % n_ev, evals=n_ev)


def list_overload_count(prog, chk, rid):
    """The List<String> overloads build a pointer vector and delegate to the argc/argv overload, which decides from (argc, argv[argc-1])
    whether it may use the vector as it is.  The count handed over has to be the number of list elements - a terminator counted in
    makes the callee take an empty list for a complete, terminated vector (the child then starts without even its argv[0])."""
    chk.rule(rid, "WRAP/FIN: where a Process::start/open overload taking a List<String> delegates to the argc/argv overload, the count "
                  "argument evaluates to the number of list elements (for 0, 1 and 3 elements)", floor=1)
    fs = [f for f in prog.functions.values() if f.clsq == "Process" and f.short in ("start", "open") and f.blocks and f.file.endswith("Process.cpp") and
          any("List<String>" in (p_.get("t") or "") for p_ in f.params)]
    if not fs:
        raise AnalysisBroken("no Process::start/open overload taking a List<String> found")
    for f in fs:
        ln = next(p_["n"] for p_ in f.params if "List<String>" in (p_.get("t") or ""))
        for c in q.calls(f):
            g = prog.functions.get(f.nodes[c].get("csig"))
            if g is None or g.short != f.short or g is f or not any(p_["n"] == "argc" for p_ in g.params):
                continue
            k = [p_["n"] for p_ in g.params].index("argc")
            a = q.call_args(f, c)[k]
            bad = None
            for n in (0, 1, 3):
                v = fin.eval_expr(f, a, {"%s.size()" % ln: n})
                if v != n:
                    bad = (n, v)
                    break
            if bad:
                chk.bad(rid, f, "list-count-not-element-count", f.where(c),
                        "for a list of %d element(s) the count handed to %s is `%s`%s: the callee treats a vector whose last counted element "
                        "is null as complete and passes it to exec as it is - for an empty list the child gets no argv[0] at all" % (
                            bad[0], g.sig[:50], q.no_casts(f.r(a))[:40], "" if bad[1] is None else " = %s" % bad[1]), evals=3)
            else:
                chk.ok(rid, f, "count = number of list elements", f.where(c), q.no_casts(f.r(a))[:40], evals=3)


def reported_text_ends_at_cursor(prog, chk, rid):
    """Arguments::read reports a piece of the current word (`argument.attach(base, n)`) and leaves its cursor where that piece ends, so
    that the next call goes on behind it (nextChar() only moves to the next word when the cursor stands on the terminator).  Evaluated
    over the outcomes of the undetermined tests: at every successful return `arg == base + n` for the last piece attached."""
    import itertools
    chk.rule(rid, "FIN: Process::Arguments::read evaluated over the outcomes of its undetermined tests: whenever a piece of the current word "
                  "was attached to `argument`, the cursor `arg` stands at the end of that piece when read() returns true", floor=1)
    fs = [f for f in prog.functions.values() if f.name == "Process::Arguments::read" and f.blocks]
    if not fs:
        raise AnalysisBroken("Process::Arguments::read not found")
    f = fs[0]
    att = [c for c in q.calls(f) if (f.nodes[c].get("callee") or "").endswith("String::attach") and len(q.call_args(f, c)) == 2]
    lens = set(fin.key(f, c) for c in q.calls(f) if (f.nodes[c].get("callee") or "") == "String::length")
    if not att:
        raise AnalysisBroken("Process::Arguments::read: no attach() of a reported piece found")
    A0 = 10000
    checked, bad = 0, None
    tried = set()
    for combo in itertools.product((0, 1), repeat=9):
        val = {"this->arg": A0, "end": 0 if combo[0] else A0 + 6}
        for k_ in lens:
            val[k_] = 4
        seen_keys = []

        def assume(k_, _c=combo[1:], _s=seen_keys):
            if k_ not in _s:
                _s.append(k_)
            ix = _s.index(k_)
            return _c[ix] if ix < len(_c) else 0
        last = {}

        def trace(e, v_, _l=last):
            if e in att:
                a_ = q.call_args(f, e)
                _l["piece"] = (fin.eval_expr(f, a_[0], v_), fin.eval_expr(f, a_[1], v_), e)
        seen, end, fv = fin.walk_vals(f, f.entry, val, limit=500, assume=assume, trace=trace)
        if isinstance(end, str) or "piece" not in last:
            continue
        ret = fin.eval_expr(f, f.nodes[end]["c"][0], fv) if f.nodes[end]["c"] else None
        b_, n_, site = last["piece"]
        cur = fv.get("this->arg")
        sig_ = (site, end)
        if not ret or b_ is None or n_ is None or not isinstance(cur, int) or sig_ in tried:
            continue
        tried.add(sig_)
        checked += 1
        if cur != b_ + n_:
            bad = (site, "the piece reported ends %+d bytes from where the cursor is left" % ((b_ + n_) - cur))
            break
    if bad:
        chk.bad(rid, f, "cursor-not-at-end-of-reported-piece", f.where(bad[0]),
                "after `%s` read() returns with %s: the next call steps on inside the same word and reports text that is not in the argument "
                "vector (a lone `-` is followed by a phantom empty argument)" % (q.no_casts(f.r(bad[0]))[:50], bad[1]), evals=checked + 1)
    elif checked < 3:
        raise AnalysisBroken("Process::Arguments::read: only %d reporting returns could be evaluated" % checked)
    else:
        chk.ok(rid, f, "the cursor stands at the end of the reported piece at %d reporting returns" % checked, "%s:%s" % (f.file, f.line), "evaluation over test outcomes", evals=checked)


def errno_only_after_failure(prog, chk, rid):
    """errno is meaningful only directly after a call that reported failure: a successful call leaves it as it was.  A retry decision
    `errno == EINTR` taken when the call did NOT fail - read() returning 0 at end-of-file, say - acts on a stale value: after one
    interrupted call the loop retries on end-of-file for ever and the caller never sees the end of the child's output."""
    chk.rule(rid, "DOM: in Process.cpp every comparison of errno with EINTR is dominated by a fact that the preceding call failed (`r == -1` / "
                  "`r < 0` true, `r >= 0` / `r != -1` false); `r <= 0` is not enough, 0 is end-of-file", floor=1)
    n = 0
    for f in sorted([f for f in prog.functions.values() if f.file.endswith("src/Process.cpp") and f.blocks], key=lambda g: g.sig):
        for i, nd in enumerate(f.nodes):
            if nd["k"] != "BinaryOperator" or nd.get("op") not in ("==", "!=") or len(nd["c"]) != 2 or f.node_pos(i) is None:
                continue
            sides = [q.no_casts(f.r(x)) for x in nd["c"]]
            vals = [fin.eval_expr(f, x, {}) for x in nd["c"]]
            if not any("__errno_location()" in t for t in sides) or 4 not in vals:
                continue
            n += 1
            atoms = [a for a in fin.dominating_atoms(f, f.node_pos(i)) if a[0] != "case"]
            failed = None
            for a in atoms:
                cn = fin._canon(f, a[0], a[1])
                if len(cn) == 3 and cn[0] != "val":
                    l, op, r = cn
                    if (op == "==" and "-1" in (l, r)) or (op == "<" and r == "0") or (op == "<=" and r == "-1") or (op == "<" and l == "-1" and False):
                        failed = cn
            if failed:
                chk.ok(rid, f, "errno compared with EINTR only after a failed call", f.where(i), "dominating fact %s %s %s" % failed, evals=len(atoms) + 1)
            else:
                chk.bad(rid, f, "errno-read-without-failure", f.where(i),
                        "`%s` is evaluated on a path where the preceding call is not known to have failed (facts: %s): a result of 0 - end-of-file - "
                        "leaves errno as an EARLIER interrupted call set it, the loop retries for ever and Process::read never reports the end of the "
                        "stream" % (q.no_casts(f.r(i))[:40], [" ".join(map(str, fin._canon(f, a[0], a[1]))) for a in atoms][-3:]), evals=len(atoms) + 1)
    if n == 0:
        raise AnalysisBroken("Process.cpp: no comparison of errno with EINTR found (the select() retry of Process::read expected)")
