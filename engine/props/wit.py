"""Compile witnesses: the witness unit (explicit instantiations of every container template for
chosen element types) must parse without errors; non-copyable classes must have no usable copy."""
import os
import re
from ..facts import AnalysisBroken
from .. import containers as C


def members_instantiate(prog, chk, rid, classes):
    chk.rule(rid, "WIT: every member of the container templates instantiates (explicit instantiation for T != V / class-type "
                  "elements compiles without error)", floor=len(classes))
    by_header = {}
    for unit, d in prog.errors:
        by_header.setdefault(os.path.basename(d.get("file", "")), []).append(d)
    for cls in classes:
        errs = by_header.get(cls + ".hpp", [])
        insts = {} if errs else C.class_insts(prog, cls)
        if errs:
            seen = set()
            for d in errs:
                msg = re.sub(r"'[^']*'", "'...'", d["msg"])[:70]
                fn = _function_at(prog, d.get("file"), d.get("line"))
                tag = "does-not-instantiate:%s:%s" % (fn, msg)
                if tag in seen:
                    continue
                seen.add(tag)
                chk.bad(rid, cls, tag, "%s:%s" % (d.get("file"), d.get("line")),
                        "member of %s cannot be instantiated: %s" % (cls, d["msg"]))
        else:
            n = sum(len(fs) for fs in insts.values())
            chk.ok(rid, cls, "%d instantiated member bodies of %s (%s)" % (n, cls, ", ".join(sorted(insts))), "",
                   "clang reports no error in %s.hpp for the witness instantiations" % cls, evals=n)
    other = [d for unit, d in prog.errors if os.path.basename(d.get("file", "")) == "instantiate.cpp"]
    if other:
        raise AnalysisBroken("witness unit itself does not compile: %s" % other[0]["msg"])


def _function_at(prog, file, line):
    best = None
    try:
        with open(file) as fh:
            src = fh.read().splitlines()
        m = re.search(r"([~\w]+)\s*\(", src[line - 1])
        if m:
            best = m.group(1)
    except Exception:
        pass
    return best or "?"


def pool_noncopyable(prog, chk, rid):
    chk.rule(rid, "WIT: PoolList<NC> and PoolMap<K, NC> instantiate every member for a non-copyable, non-assignable element type "
                  "(so no member copies or moves an element), and the pool containers themselves have no usable copy operations", floor=4)
    for cls, want in (("PoolList", "PoolList<witness::NC>"), ("PoolMap", "PoolMap<unsigned int, witness::NC>")):
        insts = C.class_insts(prog, cls)
        if want not in insts:
            raise AnalysisBroken("witness instantiation %s missing (have %s)" % (want, sorted(insts)))
        errs = [d for unit, d in prog.errors if os.path.basename(d.get("file", "")) == cls + ".hpp"]
        if errs:
            d = errs[0]
            msg = re.sub(r"'[^']*'", "'...'", d["msg"])[:70]
            chk.bad(rid, cls, "needs-copy-of-element:%s:%s" % (_function_at(prog, d.get("file"), d.get("line")), msg),
                    "%s:%s" % (d.get("file"), d.get("line")),
                    "%s does not instantiate for a non-copyable element: %s — a member copies/moves/assigns elements" % (cls, d["msg"]))
        else:
            names = sorted(set(f.short for f in insts[want]))
            need = {"append", "remove", "clear", "swap", "find", "insert"} & ({"append", "remove", "clear", "swap"} if cls == "PoolList" else {"append", "remove", "clear", "swap", "find", "insert"})
            if not need <= set(names):
                raise AnalysisBroken("%s lacks instantiated members %s" % (want, sorted(need - set(names))))
            chk.ok(rid, cls, "%s: %d member bodies instantiate without copying the element" % (want, len(insts[want])), "",
                   "members: " + ", ".join(names), evals=len(insts[want]))
        for tn in sorted(insts):
            rec = prog.records.get(tn)
            if rec is None:
                continue
            sm = rec["special"]
            where = "%s:%s" % (rec["file"], rec["line"])
            if sm["copyctor"] in ("private_undefined", "deleted") and sm["copyassign"] in ("private_undefined", "deleted"):
                chk.ok(rid, cls, "%s cannot be copied" % tn, where, str(sm), nontrivial=False)
            else:
                chk.bad(rid, cls, "pool-container-copyable", where,
                        "%s has a usable copy constructor/assignment (%s): copying it would relocate or alias its in-place elements" % (cls, sm))


def not_copyable(prog, chk, rid, names):
    chk.rule(rid, "WIT: these classes have no usable copy constructor / copy assignment", floor=len(names))
    for nm in names:
        rec = prog.records.get(nm)
        if rec is None:
            raise AnalysisBroken("record %s not found" % nm)
        sm = rec["special"]
        where = "%s:%s" % (rec["file"], rec["line"])
        if sm["copyctor"] in ("private_undefined", "deleted") and sm["copyassign"] in ("private_undefined", "deleted"):
            chk.ok(rid, nm, "%s cannot be copied" % nm, where, str(sm), nontrivial=False)
        else:
            chk.bad(rid, nm, "copyable", where, "%s has a usable copy operation (%s)" % (nm, sm))
