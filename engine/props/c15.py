"""C15 — JSON parsing is total and safe; serialising then parsing is identity (structural part)."""
import re
from .. import q, fin
from .. import containers as C
from ..cursor import CursorAnalysis
from ..facts import AnalysisBroken
from .. import refcount as R

EXPLANATION = (
    "Parser-cursor abstract interpretation and table agreement on src/Document/Json.cpp: (a) in readToken, skipSpace and stripComments "
    "every advance of the cursor by n and every read at offset i is covered by n resp. i bytes known to be non-NUL (knowledge from case "
    "labels, comparisons, successful String::compare, character-class predicates); (b) every cycle of the tokenizer loops contains a "
    "guaranteed advance; (d) the bytes the string reader cannot take literally (the case labels of its scanning switch) are a subset of the "
    "bytes the writer escapes, and every writer escape is decoded to the same byte by the reader's escape switch; (e) the serialiser has an "
    "arm for every Variant tag and the value parser an arm for every token kind; (f) stripComments' output writes are matched by consumed "
    "source bytes and its string-literal mode is left only on the closing quote or the terminator (1 known finding). Not decided: equality "
    "of re-parsed trees for all value trees beyond the escaping clause, recursion depth.")

J = "Json::Private::"


def jfn(prog, name):
    c = [f for f in prog.functions.values() if f.name == name and f.file.endswith("Json.cpp")]
    if not c:
        raise AnalysisBroken("anchor function not found: " + name)
    return c[0]


def case_values(f, sw):
    """values of the case labels belonging directly to switch statement node sw (not to nested switches)"""
    vals = {}
    body = f.nodes[sw]["c"][-1]
    stack = [body]
    while stack:
        x = stack.pop()
        if x < 0:
            continue
        n = f.nodes[x]
        if n["k"] == "SwitchStmt":
            continue
        if n["k"] == "CaseStmt":
            vals[n.get("v")] = x
        if n["k"] == "DefaultStmt":
            vals["default"] = x
        stack.extend(n["c"])
    return vals


def switches_on(f, pred):
    return [i for i, n in enumerate(f.nodes) if n["k"] == "SwitchStmt" and pred(q.no_casts(f.r(n["c"][0] if n["c"][0] >= 0 else n["c"][1])))]


def report_cursor(chk, rid_b, rid_p, f, ca, what, progress=True, extra_adv=()):
    v = ca.run()
    where = "%s:%s" % (f.file, f.line)
    for node, p, need, have, desc in v:
        chk.bad(rid_b, f, "cursor-may-pass-terminator:%s:%s" % (p.replace("this->", ""), re.sub(r"\s+", "-", desc)[:40]), f.where(node),
                "%s of `%s` needs %s byte(s) known to be non-NUL, the dominating tests establish only %d: on an input that ends here the parser "
                "steps over the terminator and reads past the buffer" % (desc, p, need, have))
    if not v:
        chk.ok(rid_b, f, "%s: %d cursor advances/offset reads covered by non-NUL knowledge" % (what, ca.checked), where, "forward dataflow (k = bytes known non-NUL), join = min", evals=max(1, ca.checked))
    if progress:
        path = ca.cycles_without_advance(extra_adv)
        if path is None:
            chk.ok(rid_p, f, "%s: every loop iteration advances the cursor" % what, where, "no CFG cycle avoids the %d guaranteed advance sites" % len(ca.adv_pos), evals=len(ca.adv_pos) + 1)
        else:
            chk.bad(rid_p, f, "loop-without-progress", "%s:%s" % (f.file, (f.path_lines(path) or [f.line])[0]),
                    "%s has a cycle on which the cursor is not guaranteed to advance (lines %s): on such input the tokenizer never terminates" % (what, f.path_lines(path)[:8]), f.path_lines(path))


def run(prog, chk):
    chk.extra["explanation"] = EXPLANATION
    chk.rule("C15.a", "CUR: every cursor advance / offset read in the tokenizer is covered by bytes known to be non-NUL", floor=3)
    chk.rule("C15.b", "CUR progress: no cycle of a tokenizer loop without a guaranteed advance", floor=3)
    chk.rule("C15.d", "TBL: reader-special string bytes are a subset of the writer-escaped bytes; each writer escape round-trips through the reader", floor=4)
    chk.rule("C15.e", "TAG: the serialiser covers every Variant tag; the value parser covers every token kind the tokenizer produces", floor=2)
    chk.rule("C15.h", "FIN/typestate: the string-literal loop of stripComments returns to the top-level scanner at the offset given by the JSON "
                      "literal automaton, for every literal over {backslash, quote, slash, letter} of up to 4 bytes", floor=1)
    chk.rule("C15.f", "CUR/typestate: stripComments writes at most one byte per consumed byte and leaves string mode only on the quote or the terminator", floor=2)
    rt = jfn(prog, J + "readToken")
    sk = jfn(prog, J + "skipSpace")
    sc = [f for f in prog.functions.values() if f.name == "Json::stripComments"]
    if not sc:
        raise AnalysisBroken("Json::stripComments not found")
    sc = sc[0]
    summ = {J + "skipSpace": {"min_advance": 0}, J + "readToken": {"min_advance": 0}}
    report_cursor(chk, "C15.a", "C15.b", rt, CursorAnalysis(rt, ["this->pos.pos"], summ, "this->pos"), "readToken")
    report_cursor(chk, "C15.a", "C15.b", sk, CursorAnalysis(sk, ["this->pos.pos"], summ, "this->pos"), "skipSpace")
    # cursor names are read off the declarations: const char* locals are input cursors, the char* local written through is the output
    in_curs = [d["n"] for n in sc.nodes if n["k"] == "DeclStmt" for d in n["decls"] if d.get("t") == "const char *"]
    out_curs = [d["n"] for n in sc.nodes if n["k"] == "DeclStmt" for d in n["decls"] if d.get("t") == "char *"
                and any(re.match(r"^\*%s\+\+$" % re.escape(d["n"]), q.no_casts(sc.r(s_.lhs))) for s_ in q.stores(sc))]
    in_curs = sorted(set(in_curs), key=in_curs.index)
    if not in_curs or len(out_curs) != 1:
        raise AnalysisBroken("stripComments: input cursors %s / output cursor %s not identified" % (in_curs, out_curs))
    SRC, DST = in_curs[0], out_curs[0]
    ca = CursorAnalysis(sc, in_curs, {}, None)
    report_cursor(chk, "C15.a", "C15.b", sc, ca, "stripComments")
    # ------------------------------------------------------------------ d
    outer = switches_on(rt, lambda t: t == "this->token.token")
    if not outer:
        raise AnalysisBroken("readToken: switch on token.token not found")
    ov = case_values(rt, outer[0])
    if 34 not in ov:
        raise AnalysisBroken("readToken: no case for '\"'")
    inner = [s for s in switches_on(rt, lambda t: t == "*this->pos.pos") if s in rt.desc(ov[34])]
    # the string loop's switch is the outermost of those below case '"'
    inner = sorted(inner, key=lambda s: len([a for a in inner if s in rt.desc(a)]))
    if not inner:
        raise AnalysisBroken("readToken: string scanning switch not found")
    sv = case_values(rt, inner[0])
    reader_special = set(v for v in sv if isinstance(v, int))
    esc_sw = [s for s in inner[1:] if 92 in sv and s in rt.desc(sv[92])]
    if not esc_sw:
        raise AnalysisBroken("readToken: escape switch not found")
    ev = case_values(rt, esc_sw[0])
    reader_esc = {}
    for v, cs in ev.items():
        if not isinstance(v, int):
            continue
        # what the arm appends: value.append(<char literal>) or value.append(*pos.pos)
        apps = [c for c in q.calls(rt) if rt.nodes[c].get("callee") == "String::append" and c in rt.desc(cs)]
        # restrict to the first statement group of this label (until the next case)
        for a in apps[:1]:
            arg = q.call_args(rt, a)[0]
            x = fin.eval_expr(rt, arg, {})
            reader_esc[v] = x if x is not None else (v if q.no_casts(rt.r(arg)) == "*this->pos.pos" else None)
    # fall-through groups: case '"': case '\\': case '/': share one arm appending *pos.pos
    for v in list(ev):
        if isinstance(v, int) and v not in reader_esc:
            reader_esc[v] = None
    ae = jfn(prog, J + "appendEscapedString")
    finder = [c for c in q.calls(ae) if ae.nodes[c].get("callee") == "String::findOneOf"]
    if not finder:
        raise AnalysisBroken("appendEscapedString: findOneOf not found")
    stop = CursorAnalysis(ae, []).set_of(q.call_args(ae, finder[0])[1]) or set()
    # the writer's table, read off by evaluation: for every byte value, which literal the code after the scan appends when the scan
    # stopped at that byte (a switch, an if chain or a lookup alike)
    defs_ae = q.local_defs(ae)
    evar = None
    for did, dl in defs_ae.items():
        for kind, nd, init in dl:
            if init is not None and finder[0] in [ae.strip(init)] + list(ae.desc(init)):
                evar = next((n_["ref"]["n"] for n_ in ae.nodes if n_["k"] == "DeclRefExpr" and n_["ref"].get("id") == did), None)
    if evar is None:
        raise AnalysisBroken("appendEscapedString: the result of findOneOf is not kept")
    dkey = "*" + evar
    disp = []
    for b in ae.blocks.values():
        c = b.get("cond")
        if c is None:
            continue
        def reads_stop_byte(x):
            if q.no_casts(ae.r(x)) == dkey:
                return True
            nx = ae.nodes[x]
            if nx["k"] == "DeclRefExpr" and nx["ref"].get("dk") == "local":
                ini = q.single_def(ae, nx["ref"]["id"], defs_ae)
                return ini is not None and q.no_casts(ae.r(ini)) == dkey
            return False
        if any(reads_stop_byte(x) for x in [ae.strip(c)] + list(ae.desc(c))):
            disp.append(b)
    if not disp:
        raise AnalysisBroken("appendEscapedString: no dispatch on the byte the scan stopped at")
    disp.sort(key=lambda b: (ae.nodes[ae.strip(b["cond"])].get("l", 0), -b["id"]))
    d0 = disp[0]
    for b in disp:
        if all(ae.dominates_pos((b["id"], 0), (o["id"], 0)) for o in disp):
            d0 = b
    wsw = [d0["cond"]]
    writer = {}
    has_default = False
    for bval in sorted(set(stop) | {120}):
        seen_, end_, _fv = fin.walk_vals(ae, d0["id"], {dkey: bval}, stop_at_loop_back=True)
        lits = []
        for e_ in seen_:
            ne_ = ae.nodes[e_]
            if ne_["k"] in ("CXXOperatorCallExpr", "CXXMemberCallExpr") and (ne_.get("oop") == "+=" or (ne_.get("callee") or "").endswith("::append")):
                lits += [ae.nodes[x] for x in ae.desc(e_) if ae.nodes[x]["k"] == "StringLiteral"]
        if bval == 120:
            has_default = bool(lits)
        elif lits:
            writer[bval] = lits[0].get("bytes", [])
    need = reader_special - {0}
    missing = sorted(b for b in need if b not in stop or b not in writer)
    if missing:
        chk.bad("C15.d", ae, "reader-special-byte-not-escaped:" + ",".join(str(b) for b in missing), "%s:%s" % (ae.file, ae.line),
                "inside a string literal the reader treats the bytes %s specially (case labels of its scanning switch) but the writer emits %s raw: "
                "a value containing them does not survive toString + parse" % (sorted(need), missing))
    else:
        chk.ok("C15.d", ae, "reader-special bytes %s are all escaped by the writer (stop set %s)" % (sorted(need), sorted(stop)), "%s:%s" % (ae.file, ae.line), "case labels vs findOneOf set + cases", evals=len(need))
    # every byte the scan stops at is consumed by the statement after the switch (`p = e + 1`): it must have been emitted by an arm
    dropped = sorted(b for b in stop if b not in writer)
    if dropped and not has_default:
        chk.bad("C15.d", ae, "stop-byte-without-arm:" + ",".join(str(b) for b in dropped), ae.where(wsw[0]),
                "the scan stops at the bytes %s but the switch has no arm (and no default) for %s: the byte is skipped without being written, "
                "the serialised string loses it" % (sorted(stop), dropped))
    else:
        chk.ok("C15.d", ae, "every stop byte %s has an emitting arm" % sorted(stop), ae.where(wsw[0]), "findOneOf set vs case labels", evals=len(stop))
    for b, seq in sorted(writer.items()):
        ok = len(seq) == 2 and seq[0] == 92 and reader_esc.get(seq[1]) is not None and (reader_esc[seq[1]] == b)
        # group arms (case '"': case '\\': case '/':) append *pos.pos, i.e. the label itself
        if not ok and len(seq) == 2 and seq[0] == 92 and seq[1] in ev:
            grp_val = None
            # find the arm's append for a grouped label: the nearest following label with an append
            keys = sorted([v for v in ev if isinstance(v, int)], key=lambda v: rt.nodes[ev[v]]["l"] * 1000 + rt.nodes[ev[v]]["col"])
            idx = keys.index(seq[1])
            for v2 in keys[idx:]:
                if reader_esc.get(v2) is not None:
                    grp_val = seq[1] if reader_esc[v2] == v2 else reader_esc[v2]
                    break
            ok = grp_val == b
        if ok:
            chk.ok("C15.d", ae, "writer escape of byte %d (`\\%s`) is decoded to the same byte by the reader" % (b, chr(seq[1])), "%s:%s" % (ae.file, ae.line), "escape switch arm", evals=2)
        else:
            chk.bad("C15.d", ae, "escape-does-not-round-trip:%d" % b, "%s:%s" % (ae.file, ae.line),
                    "the writer emits %s for byte %d but the reader's escape switch does not decode that sequence to %d" % (bytes(seq), b, b))
    # ------------------------------------------------------------------ e
    def handled(f, keytext, values, impossible):
        """values whose guard-directed walk through f differs from the walk of a value no arm can match (switch or if-chain alike)"""
        base, _e = fin.walk(f, f.entry, {keytext: impossible}, stop_at_loop_back=False)
        out = set()
        for v in values:
            seen, _e = fin.walk(f, f.entry, {keytext: v}, stop_at_loop_back=False)
            if seen != base:
                out.add(v)
        return out, len(base)

    def dispatch_key(f, pred):
        """rendered text of the expression a switch / comparison chain of f dispatches on"""
        for b_ in f.blocks.values():
            c_ = b_.get("cond")
            if c_ is None:
                continue
            for i_ in f.desc(c_):
                t_ = q.no_casts(f.r(i_))
                if pred(t_):
                    return fin.key(f, i_)
        for n_ in f.nodes:       # dispatch value kept in a local
            if n_["k"] == "DeclStmt":
                for d_ in n_["decls"]:
                    if d_.get("init") is not None and pred(q.no_casts(f.r(d_["init"]))):
                        return fin.key(f, f.strip(d_["init"]))
        return None

    av = jfn(prog, J + "appendVariant")
    tags = R._enum_values(prog, "Variant::")
    tags = {k: v for k, v in tags.items() if k.endswith("Type")}
    kt = dispatch_key(av, lambda t: re.fullmatch(r"\w+\.(getType\(\)|data->type)", t) is not None)
    if kt:
        have, nb = handled(av, kt, sorted(tags.values()), 10 ** 6)
        # the null alternative may legitimately share the fall-back arm (it prints `null`): it counts as handled when the fall-back arm emits something
        miss = sorted(k for k, v in tags.items() if v not in have)
        if miss and not (len(miss) == 1 and nb > 0 and miss[0].endswith("nullType")):
            chk.bad("C15.e", av, "serialiser-misses-tag:" + ",".join(m.split("::")[-1] for m in miss), "%s:%s" % (av.file, av.line), "appendVariant has no arm for %s: such values are silently dropped from the output" % miss)
        else:
            chk.ok("C15.e", av, "appendVariant has an arm for all %d Variant tags" % len(tags), "%s:%s" % (av.file, av.line), "guard-directed walk per tag vs the fall-back walk", evals=len(tags))
    else:
        chk.bad("C15.e", av, "serialiser-switch-missing", "%s:%s" % (av.file, av.line), "appendVariant does not dispatch on the Variant type")
    pv = jfn(prog, J + "parseValue")
    kinds = set(v for v in ov if isinstance(v, int)) - {0, ord("}"), ord("]"), ord(","), ord(":")}
    kinds |= set(fin.eval_expr(rt, s.rhs, {}) for s in q.stores(rt) if q.no_casts(rt.r(s.lhs)) == "this->token.token" and fin.eval_expr(rt, s.rhs, {}) is not None)
    kt = dispatch_key(pv, lambda t: t == "this->token.token")
    if kt:
        have, _nb = handled(pv, kt, sorted(kinds), 1)
        miss = sorted(k for k in kinds if k not in have)
        if miss:
            chk.bad("C15.e", pv, "parser-misses-token-kind:" + ",".join(chr(m) for m in miss), "%s:%s" % (pv.file, pv.line), "parseValue has no arm for token kinds %s produced by the tokenizer" % [chr(m) for m in miss])
        else:
            chk.ok("C15.e", pv, "parseValue handles all %d value token kinds" % len(kinds), "%s:%s" % (pv.file, pv.line), "guard-directed walk per token kind vs the fall-back walk", evals=len(kinds))
    else:
        chk.bad("C15.e", pv, "parser-switch-missing", "%s:%s" % (pv.file, pv.line), "parseValue does not dispatch on the token kind")
    # ------------------------------------------------------------------ g: numeric token conversion
    chk.rule("C15.g", "WHO/DOM: the number token's text is converted only with the 64-bit / double conversions; an int is stored into the token value only "
                      "under the test that the narrowed value equals the 64-bit one", floor=2)
    conv = [c for c in q.calls(rt) if re.match(r"^String::to(Int|UInt|Int64|UInt64|Double|Bool)$", rt.nodes[c].get("callee", ""))]
    narrow = [c for c in conv if rt.nodes[c]["callee"] in ("String::toInt", "String::toUInt", "String::toBool")]
    if narrow:
        chk.bad("C15.g", rt, "number-parsed-with-32-bit-conversion", rt.where(narrow[0]),
                "the number token is converted with %s: integers outside the 32-bit range are silently truncated (2147483648 re-parses as -2147483648)" % rt.nodes[narrow[0]]["callee"])
    elif conv:
        chk.ok("C15.g", rt, "number text converted with %s only" % sorted(set(rt.nodes[c]["callee"].split("::")[-1] for c in conv)), rt.where(conv[0]), "who-may-call over the tokenizer", evals=len(conv))
    else:
        chk.bad("C15.g", rt, "number-conversion-missing", "%s:%s" % (rt.file, rt.line), "readToken no longer converts number tokens")
    ints = []
    for st_ in q.stores(rt):
        if q.no_casts(rt.r(st_.lhs)) == "this->token.value" and st_.rhs is not None:
            rn = rt.nodes[rt.strip(st_.rhs)]
            ty_ = lambda t_: (t_ or "").replace("const ", "").strip()
            if ty_(rn.get("t")) in ("int", "unsigned int", "short") or (rn["k"] == "DeclRefExpr" and ty_(rn["ref"].get("t")) in ("int", "unsigned int", "short")):
                ints.append(st_)
    for st_ in ints:
        atoms = fin.dominating_atoms(rt, rt.node_pos(st_.node))
        # the stored int X is the narrowing of a wider value W (`int X = (int)W`); the dominating test must say X == W
        defs_ = q.local_defs(rt)
        rn = rt.nodes[rt.strip(st_.rhs)]
        xt = wt = None
        if rn["k"] == "DeclRefExpr" and rn["ref"].get("dk") == "local":
            ini = q.single_def(rt, rn["ref"]["id"], defs_)
            if ini is not None:
                xt, wt = rn["ref"]["n"], q.no_casts(rt.r(ini))
        okfit = False
        for a in atoms:
            if a[0] == "case" or xt is None:
                continue
            an = rt.strip(a[0])
            for _ in range(4):      # a bool local that names the test
                nn = rt.nodes[an]
                ini = q.single_def(rt, nn["ref"]["id"], defs_) if nn["k"] == "DeclRefExpr" and nn["ref"].get("dk") == "local" else None
                if ini is None:
                    break
                an = rt.strip(ini)
            cn = fin._canon(rt, an, bool(a[1]))
            if cn[0] != "val" and cn[1] == "==" and {cn[0], cn[2]} == {xt, wt} and xt != wt:
                okfit = True
        if okfit:
            chk.ok("C15.g", rt, "int stored only when it equals the parsed 64-bit value", rt.where(st_.node), "dominating fit test", evals=2)
        else:
            chk.bad("C15.g", rt, "int-stored-without-fit-test", rt.where(st_.node), "`%s` stores a 32-bit value without the dominating test that it equals the 64-bit value parsed from the text" % rt.r(st_.node)[:60])
    # ------------------------------------------------------------------ f
    # every `*(dest++) = ...` consumes a source byte: right side reads `*(src++)` or `*(end++)`
    wr = [s for s in q.stores(sc) if re.match(r"^\*%s\+\+$" % re.escape(DST), q.no_casts(sc.r(s.lhs)))]
    # ... in the same statement (`*dest++ = *src++`) or by an advance of an input cursor on every path to the next output write
    alt_ = "|".join(re.escape(x) for x in in_curs)
    adv_ = []
    for s_ in q.stores(sc):
        lt_ = q.no_casts(sc.r(s_.lhs))
        if lt_ not in in_curs:
            continue
        if s_.op in ("++", "+=") or (s_.op == "=" and s_.rhs is not None and re.fullmatch(r"\(?(%s) \+ [1-9]\d*\)?" % alt_, q.no_casts(sc.r(s_.rhs)))):
            adv_.append(s_.node)
    advp_ = q.pos_of(sc, adv_)
    wrp_ = q.pos_of(sc, [s.node for s in wr])
    badw = []
    for s in wr:
        if re.match(r"^\*(%s)\+\+$" % alt_, q.no_casts(sc.r(s.rhs))):
            continue
        if sc.node_pos(s.node) is None or sc.find_path(sc.node_pos(s.node), wrp_, avoid=advp_) is not None:
            badw.append(s)
    # the String the output cursor points into is constructed with the input's length
    res = [n for n in sc.nodes if n["k"] == "DeclStmt" and any(d.get("t") == "String" for d in n["decls"])]
    sized = bool(res) and ("%s.length()" % sc.params[0]["n"]) in sc.r(res[0]["i"])
    if wr and not badw and sized:
        chk.ok("C15.f", sc, "output bounded by input: %d writes each consume one source byte; buffer sized data.length()" % len(wr), "%s:%s" % (sc.file, sc.line), "store shapes", evals=len(wr))
    else:
        chk.bad("C15.f", sc, "output-not-bounded-by-input", sc.where(badw[0].node) if badw else "%s:%s" % (sc.file, sc.line), "stripComments writes an output byte without consuming a source byte (or the result buffer is not sized by the input length)")
    # string mode: the loop scanning a literal may only be left on '"' or NUL; today it is also left after a backslash
    gotos = [i for i, n in enumerate(sc.nodes) if n["k"] == "GotoStmt" and n.get("label") == "checkStr"]
    for g in gotos:
        atoms = fin.dominating_atoms(sc, sc.node_pos(g))
        if any(a[0] != "case" and a[1] and fin.key(sc, a[0]) == "(*%s == '\\x5c')" % SRC for a in atoms):
            chk.bad("C15.f", sc, "string-mode-left-after-escape", sc.where(g),
                    "inside a string literal an escape sequence jumps back to the top-level scanner: the rest of the literal is scanned as code "
                    "(a `//` inside it is stripped, a comment after `\"a\\\\\\\\\"` is kept)")
            break
    else:
        chk.ok("C15.f", sc, "string mode is left only on the closing quote or the terminator", "%s:%s" % (sc.file, sc.line), "no goto out of the literal loop under an escape", evals=len(gotos))
    string_mode_automaton(chk, "C15.h", sc)
    line_break_agreement(prog, chk, "C15.i")
    comment_bytes_not_copied(prog, chk, "C15.o")
    text_only_through_escaper(prog, chk, "C15.p")
    container_results_typed(prog, chk, "C15.q")
    from .. import balance
    balance.check(prog, chk, "C15.l", [f for f in prog.functions.values() if f.file.endswith("Json.cpp") and (f.cls or "").startswith("Json::Private")], "Json::Private")
    chk.rule("C15.j", "MPT: every cursor / line field the tokenizer advances is set again in Private::parse before the first tokenizer call (a Parser is reused across documents)", floor=2)
    from .server_common import parser_entry_resets
    from .c16 import look_behind
    look_behind(prog, chk, "C15.k", ("Json.cpp",))
    from .server_common import block_reads_on_cursor
    block_reads_on_cursor(prog, chk, "C15.m", "Json::Private", "Json.cpp")
    from .server_common import cursor_stores_not_null
    cursor_stores_not_null(prog, chk, "C15.n", "Json::Private", "Json.cpp", required=False)
    parser_entry_resets(prog, chk, "C15.j", "Json::Private", "Json.cpp")


def string_mode_automaton(chk, rid, sc):
    """FIN/typestate: the literal-scanning loop of stripComments is walked (guards evaluated, nothing executed) for every
    NUL-terminated text `"` + content over {backslash, quote, slash, letter} up to 4 bytes; the offset at which it hands
    control back to the top-level scanner must be the one the JSON literal automaton gives (escape = backslash plus the
    following non-NUL byte, consumed as a pair)."""
    import itertools
    # the source cursor: the `const char *` local initialised from the parameter
    cur = None
    for n in sc.nodes:
        if n["k"] == "DeclStmt":
            for d in n["decls"]:
                if d.get("t") == "const char *" and d.get("init") is not None and re.search(r"\b%s\b" % re.escape(sc.params[0]["n"]), sc.r(d["init"])):
                    cur = d["n"]
    if cur is None:
        raise AnalysisBroken("stripComments: source cursor (const char * initialised from the argument) not found")
    # entry of string mode: the false edge of `*cur != '"'` / true edge of `*cur == '"'` that is not inside the literal loop
    entry = None
    for b in sc.blocks.values():
        c = b.get("cond")
        if c is None or len(b["succ"]) != 2:
            continue
        # the test that tells a quote from any other byte under the cursor, however it is spelled (`*src != '"'`, a snapshot local ...)
        vq_ = fin.eval_expr(sc, c, {"*" + cur: 0x22, cur + "[0]": 0x22})
        vo_ = fin.eval_expr(sc, c, {"*" + cur: 0x61, cur + "[0]": 0x61})
        vs_ = fin.eval_expr(sc, c, {"*" + cur: 0x2f, cur + "[0]": 0x2f})
        if vq_ is None or vo_ is None or vs_ is None or bool(vq_) == bool(vo_) or bool(vo_) != bool(vs_):
            continue
        for k in ((0,) if vq_ else (1,)):
            if b["succ"][k] is not None:
                tgt = b["succ"][k]
                # the quote test that opens a literal: the target is not yet in a loop that contains the test itself... take the
                # one whose target block writes before any further test of the cursor (the opening quote is copied)
                if entry is None or b["id"] > entry[0]:
                    entry = (b["id"], tgt)
    if entry is None:
        raise AnalysisBroken("stripComments: the test for the opening quote was not found")
    start_cond_block, start = entry

    def step_count(e):
        n = sc.nodes[e]
        if n["k"] == "UnaryOperator" and n.get("op") in ("++", "post++", "pre++") or (n["k"] == "UnaryOperator" and "++" in str(n.get("op"))):
            t = sc.nodes[sc.strip(n["c"][0])]
            if t["k"] == "DeclRefExpr" and t["ref"].get("n") == cur:
                return 1
        if n["k"] == "CompoundAssignOperator" and n.get("op") == "+=" and sc.r(n["c"][0]) == cur:
            v = fin.eval_expr(sc, n["c"][1], {})
            return v if isinstance(v, int) else "unknown"
        if n["k"] == "BinaryOperator" and n.get("op") == "=" and sc.r(n["c"][0]) == cur:
            return "unknown"
        return 0

    def walk(text):
        """returns ('left', k) when control returns to the block of the opening-quote test or its predecessors (top-level
        scanner), ('exit', k) when the function's tail is reached, or ('undetermined', why)"""
        k = 0
        b = start
        seen_top = set(sc.reach({(start_cond_block, 0)}))
        lit = None
        for _ in range(400):
            blk = sc.blocks[b]
            for e in blk["el"]:
                if isinstance(e, int):
                    s = step_count(e)
                    if s == "unknown":
                        return ("undetermined", "the cursor is re-assigned inside string mode (%s)" % sc.r(e)[:40])
                    k += s
            succ = blk["succ"]
            if len(succ) == 0:
                return ("exit", k)
            if len(succ) == 1 or blk.get("cond") is None:
                nb = succ[0]
            else:
                val = {}
                if k < len(text):
                    val["*" + cur] = text[k]
                    val["%s[0]" % cur] = text[k]
                if k + 1 < len(text):
                    val["%s[1]" % cur] = text[k + 1]
                v = fin.eval_expr(sc, blk["cond"], val)
                if v is None:
                    return ("undetermined", "`%s` at offset %d of %r" % (sc.r(blk["cond"])[:40], k, bytes(text)))
                nb = succ[0] if v else succ[1]
            if nb is None:
                return ("undetermined", "dead edge taken")
            # back at the top-level scanner: a block from which the opening-quote test is reachable and that is not in the literal loop
            if lit is None:
                lit = _literal_loop(sc, start)
            if nb not in lit:
                return ("left", k)
            b = nb
        return ("undetermined", "no decision after 400 blocks")

    def ref(text):
        p = 1
        while True:
            c = text[p]
            if c == 0x5c and text[p + 1] != 0:
                p += 2
            elif c == 0x22:
                return p + 1
            elif c == 0:
                return p
            else:
                p += 1

    alphabet = (0x5c, 0x22, 0x2f, 0x61)
    total, bad = 0, []
    for n_ in range(0, 5):
        for content in itertools.product(alphabet, repeat=n_):
            text = [0x22] + list(content) + [0]
            total += 1
            got = walk(text)
            want = ref(text)
            if got[0] == "undetermined":
                bad.append((text, "not decidable: %s" % got[1]))
            elif got[1] != want:
                bad.append((text, "string mode is left at offset %d, the literal automaton leaves at %d" % (got[1], want)))
    if bad:
        text, why = bad[0]
        shown = bytes(text[:-1]).decode("latin-1")
        chk.bad(rid, sc, "string-mode-disagrees-with-literal-automaton", "%s:%s" % (sc.file, sc.line),
                "for the text %r %s (%d of %d enumerated texts disagree): from there string and code state are swapped, so comments after the "
                "literal are kept and comment markers inside later literals are stripped" % (shown, why, len(bad), total), evals=total)
    else:
        chk.ok(rid, sc, "literal scanner agrees with the JSON literal automaton on %d texts" % total, "%s:%s" % (sc.file, sc.line),
               "guard-directed walk with cursor offset tracking; escape pairs consumed together", evals=total)
    chk.extra["literal_texts_enumerated"] = total


def _literal_loop(sc, start):
    """blocks of string mode: everything reachable from `start` without passing the label that re-enters the top-level scanner;
    the top-level scanner is recognised as the blocks that can reach `start`'s predecessor test without having been in string mode:
    here simply the blocks dominated by `start`"""
    out = set()
    for b in sc.blocks:
        if sc.dominates_pos((start, 0), (b, 0)):
            out.add(b)
    return out


def line_break_agreement(prog, chk, rid):
    """TBL: the bytes the tokenizer counts as a line break (sites that do `++pos.line`) are exactly the bytes at which the
    column computation of syntaxError stops walking back"""
    chk.rule(rid, "TBL: the set of bytes under which the tokenizer increments the line number equals the set of bytes at which syntaxError's "
                  "column walk stops (else a reported column lies beyond the end of the reported line)", floor=1)
    counters = set()
    n_sites = 0
    for name in ("readToken", "skipSpace"):
        f = jfn(prog, J + name)
        for i, n in enumerate(f.nodes):
            if n["k"] == "UnaryOperator" and "++" in str(n.get("op")) and q.no_casts(f.r(n["c"][0])) == "this->pos.line":
                n_sites += 1
                pos = f.node_pos(i)
                cases = [a for a in fin.dominating_atoms(f, pos) if a[0] == "case" and a[2] is not None]
                if cases:
                    inner = max(a[1] for a in cases)      # the innermost switch: its condition is the latest node
                    counters.update(a[2] for a in cases if a[1] == inner)
    se = jfn(prog, J + "syntaxError")
    # the bytes at which the column walk stops, by evaluation: one iteration of the walk for every byte value - it either counts a
    # column and goes round again, or it leaves (a switch, a comparison chain or a named local alike)
    stops = set()
    incs = [st.node for st in q.stores(se) if se.nodes[st.lhs]["k"] == "DeclRefExpr" and se.nodes[st.lhs]["ref"]["n"] == "column" and C.loop_blocks(se, st.node)]
    walkers = [se.nodes[st.lhs]["ref"]["n"] for st in q.stores(se) if st.op in ("--", "-=") and se.nodes[st.lhs]["k"] == "DeclRefExpr" and C.loop_blocks(se, st.node)]
    if not incs or not walkers:
        raise AnalysisBroken("syntaxError: no backward walk that counts `column` found")
    lb = C.loop_blocks(se, incs[0])
    heads = [x for x in lb if any(p_ not in lb for p_ in se.preds.get(x, []))]
    body = [s_ for s_ in se.blocks[heads[0]]["succ"] if s_ in lb][0]
    for bv in range(1, 256):
        val = {}
        for w in walkers:
            val.update({"*" + w: bv, w + "[0]": bv, "*--" + w: bv, w + "[-1]": bv})
        seen_, end_, _fv = fin.walk_vals(se, body, val, stop_at_loop_back=True)
        if not (end_ == "loop back" and any(i_ in seen_ or any(i_ in se.desc(e_) for e_ in seen_) for i_ in incs)):
            stops.add(bv)
    where = "%s:%s" % (se.file, se.line)
    if not counters or not n_sites:
        raise AnalysisBroken("no `++pos.line` under a case label found in the JSON tokenizer")
    # stripComments skips comment text with forward searches: each of them has to stop at every line-break byte (a line comment ends
    # there, a block comment copies it), or a CR / LF disappears with the comment
    scs = [g for g in prog.functions.values() if g.name == "Json::stripComments" and g.blocks]
    if not scs:
        raise AnalysisBroken("Json::stripComments not found")
    sc_ = scs[0]
    scans = 0
    for c_ in q.calls(sc_):
        callee = sc_.nodes[c_].get("callee") or ""
        args_ = q.call_args(sc_, c_)
        if callee not in ("String::findOneOf", "String::find") or len(args_) < 2 or q.call_object(sc_, c_) is not None:
            continue
        if callee == "String::findOneOf":
            sset = CursorAnalysis(sc_, []).set_of(args_[1]) or set()
        else:
            v_ = fin.eval_expr(sc_, args_[1], {})
            sset = {v_} if isinstance(v_, int) else (CursorAnalysis(sc_, []).set_of(args_[1]) or set())
        if not sset:
            continue
        scans += 1
        miss = sorted(counters - set(sset))
        if miss:
            chk.bad(rid, sc_, "comment-scan-skips-line-break:" + ",".join(str(b) for b in miss), sc_.where(c_),
                    "this search skips comment text up to one of the bytes %s; the tokenizer counts %s as line breaks: a comment that ends at "
                    "byte %s (CR-only or CRLF text) swallows the line break - or everything up to the next LF" % (sorted(sset), sorted(counters), miss), evals=2)
        else:
            chk.ok(rid, sc_, "comment scan stops at every line-break byte (%s)" % sorted(sset), sc_.where(c_), "stop set vs the tokenizer's line-break set", evals=2)
    if not scans:
        raise AnalysisBroken("stripComments: no forward search over comment text found")
    if counters == stops:
        chk.ok(rid, se, "line breaks %s counted and honoured by the column walk" % sorted(counters), where, "%d counting sites, case labels vs comparison constants" % n_sites, evals=n_sites + 1)
    else:
        chk.bad(rid, se, "column-walk-disagrees-with-line-count", where,
                "the tokenizer counts the bytes %s as line breaks, syntaxError's column walk stops at %s: after a line break of the other kind the "
                "reported column is measured from an earlier line and lies beyond the end of the reported line" % (sorted(counters), sorted(stops)), evals=n_sites + 1)


def comment_bytes_not_copied(prog, chk, rid):
    """Inside a block comment stripComments stops at every line break (kept, so that line numbers stay) and at every `*` (to look for
    the closing `*/`).  Whatever it copies to the output there has to be a line break: each byte of the search's stop set is tried
    against the branch conditions that dominate the copy - one that can reach the copy and is not a line break is comment text in the
    output."""
    chk.rule(rid, "FIN: in Json::stripComments a byte found by the block-comment search (stop set read from the call) is copied to the output "
                  "only if it is a line break: for every other member of the stop set a dominating branch condition evaluates against it", floor=1)
    fs = [f for f in prog.functions.values() if f.name == "Json::stripComments" and f.blocks]
    if not fs:
        raise AnalysisBroken("Json::stripComments not found")
    f = fs[0]
    n = 0
    for dn in [x for x in f.nodes if x["k"] == "DeclStmt"]:
        for d in dn["decls"]:
            ini = f.nodes[f.strip(d["init"])] if d.get("init") is not None else None
            if ini is None or ini["k"] != "CallExpr" or not (ini.get("callee") or "").startswith("String::findOneOf"):
                continue
            lit = [f.nodes[x] for x in f.desc(ini["i"]) if f.nodes[x]["k"] == "StringLiteral"]
            stop = set(lit[0].get("bytes") or []) if lit else set()
            if 42 not in stop:
                continue        # (the line-comment search; its result is never copied)
            vid, vname = d["id"], d["n"]
            for st in q.stores(f):
                if st.rhs is None or "dest" not in f.r(st.lhs):
                    continue
                rd = [x for x in [f.strip(st.rhs)] + list(f.desc(st.rhs)) if f.nodes[x]["k"] == "DeclRefExpr" and f.nodes[x]["ref"].get("id") == vid]
                if not rd:
                    continue
                n += 1
                pos = f.node_pos(st.node)
                leaks = []
                for v in sorted(stop):
                    if v in (10, 13):
                        continue
                    excluded = False
                    for b in f.blocks.values():
                        c = b.get("cond")
                        if c is None or len(b["succ"]) != 2 or b.get("tk") == "SwitchStmt" or vname not in fin.key(f, c):
                            continue
                        for k_ in (0, 1):
                            if b["succ"][k_] is not None and b["succ"][0] != b["succ"][1] and f.edge_dominates((b["id"], b["succ"][k_]), pos):
                                got = fin.eval_expr(f, c, {"*" + vname: v, vname + "[0]": v})
                                if got is not None and bool(got) != (k_ == 0):
                                    excluded = True
                    if not excluded:
                        leaks.append(v)
                if leaks:
                    chk.bad(rid, f, "comment-byte-copied:" + ",".join(str(v) for v in leaks), f.where(st.node),
                            "`%s` copies the byte the comment search stopped at; nothing on the way excludes %s: a `*` that is not followed by "
                            "`/` (every line of a boxed comment has one) is written to the output - `a /* x * y */ b` becomes `a * b`" % (
                                q.no_casts(f.r(st.node))[:40], ", ".join(repr(chr(v)) for v in leaks)), evals=len(stop))
                else:
                    chk.ok(rid, f, "only line breaks are copied out of a block comment", f.where(st.node), "stop set %s tried against the dominating conditions" % sorted(stop), evals=len(stop))
    if not n:
        # the search result is not copied at all (line breaks re-emitted as literals, or the scan walks byte by byte)
        chk.ok(rid, f, "no byte found by the block-comment search is copied", "%s:%s" % (f.file, f.line), "store scan", nontrivial=False)


def text_only_through_escaper(prog, chk, rid):
    """Whatever text of the value tree reaches the output - string values, member names - has to pass the one function that knows which
    bytes the tokenizer treats specially.  A shortcut that copies a String of the tree into the output directly (after looking for SOME
    special bytes) is a second, smaller escape table."""
    chk.rule(rid, "WHO: in the JSON serialiser a String that comes from the value tree (a key, a string value) is appended to the output only "
                  "by appendEscapedString; direct appends take literals, indentation and formatted numbers", floor=1)
    fs = [f for f in prog.functions.values() if f.gname == "Json::Private::appendVariant" and f.blocks]
    if not fs:
        raise AnalysisBroken("Json::Private::appendVariant not found")
    f = fs[0]
    defs = q.local_defs(f)
    outp = f.params[-1]["n"]
    esc = [c for c in q.calls(f) if (f.nodes[c].get("callee") or "").endswith("appendEscapedString")]
    if not esc:
        chk.bad(rid, f, "text-not-escaped", "%s:%s" % (f.file, f.line), "appendVariant no longer calls appendEscapedString")
        return

    def from_tree(x, depth=0):
        """does this expression designate text of the value tree: key()/toString()/*iterator of the data, through reference locals"""
        t = q.no_casts(q.xr(f, x, defs))
        if re.search(r"\.key\(\)", t):
            return True
        if re.search(r"(\.|->)toString\(\)", t):
            # the formatted text of a number is not text of the tree; toString() of a string value is
            pos_ = f.node_pos(f.strip(x)) or f.node_pos(site[0])
            cases = [a[2] for a in fin.dominating_atoms(f, pos_) if a[0] == "case"]
            b_ = pos_[0] if pos_ else None
            for _ in range(6):      # several labels on one arm: `case intType: case uintType: ...` - the label chain of the arm's first block
                if b_ is None:
                    break
                lab = f.blocks[b_].get("label")
                while lab is not None and lab >= 0 and f.nodes[lab]["k"] in ("CaseStmt", "DefaultStmt"):
                    if f.nodes[lab]["k"] == "CaseStmt":
                        cases.append(f.nodes[lab].get("v"))
                    nxt = [y for y in f.nodes[lab]["c"] if y >= 0 and f.nodes[y]["k"] in ("CaseStmt", "DefaultStmt")]
                    lab = nxt[0] if nxt else None
                if f.blocks[b_].get("label") is not None:
                    break
                preds_ = f.preds.get(b_, [])
                b_ = preds_[0] if len(preds_) == 1 else None
            return not cases or STRING_TAG in cases
        n_ = f.nodes[f.strip(x)]
        if n_["k"] == "DeclRefExpr" and n_["ref"].get("dk") == "local" and depth < 3 and "String" in (n_["ref"].get("t") or ""):
            ini = q.single_def(f, n_["ref"]["id"], defs)
            return ini is not None and from_tree(ini, depth + 1)
        return False
    n = 0
    site = [None]
    STRING_TAG = next((x["ref"].get("v") for x in f.nodes if x["k"] == "DeclRefExpr" and x["ref"].get("dk") == "enumconst" and x["ref"].get("n") == "stringType"), 10)
    for c in q.calls(f):
        nd = f.nodes[c]
        site[0] = c
        callee = nd.get("callee") or ""
        if not re.search(r"String::(append|operator\+=|prepend|insert)$", callee):
            continue
        o = q.call_object(f, c) if nd["k"] == "CXXMemberCallExpr" else (nd["c"][1] if len(nd["c"]) > 1 else None)
        if o is None or q.no_casts(f.r(o)) != outp:
            continue
        args = q.call_args(f, c) if nd["k"] == "CXXMemberCallExpr" else nd["c"][2:]
        for a in args:
            if "String" in (f.nodes[f.strip(a)].get("t") or "") or f.nodes[f.strip(a)]["k"] == "DeclRefExpr":
                n += 1
                if from_tree(a):
                    chk.bad(rid, f, "tree-text-appended-unescaped", f.where(c),
                            "`%s` copies text of the value tree into the output without appendEscapedString: a line break (or any byte the "
                            "shortcut's own test does not look for) inside a member name is written raw, the tokenizer drops it and the "
                            "re-parsed key differs - two keys can collapse into one" % q.no_casts(f.r(c))[:50], evals=1)
    chk.ok(rid, f, "%d appendEscapedString call(s); %d direct appends of String-valued expressions, none of tree text" % (len(esc), n),
           "%s:%s" % (f.file, f.line), "callee / origin scan", evals=n + len(esc))


def container_results_typed(prog, chk, rid):
    """`[]` and `{}` are values too: the array / object parser has to turn its result into a list / map on every successful path, not only
    when it stores the first element - otherwise the empty container parses to null and toString -> parse is no longer the identity."""
    chk.rule(rid, "MPT: every `return true` of Json::Private::parseArray / parseObject has passed a call that makes `result` a list / a map "
                  "(result.toList() / result.toMap(), or an assignment of one to result)", floor=2)
    for nm, conv, ty in (("parseArray", "toList", "List<"), ("parseObject", "toMap", "HashMap<")):
        fs = [f for f in prog.functions.values() if f.name == "Json::Private::" + nm and f.blocks]
        if not fs:
            raise AnalysisBroken("Json::Private::%s not found" % nm)
        f = fs[0]
        res = f.params[0]["n"]
        made = []
        for c in q.calls(f):
            cal = f.nodes[c].get("callee") or ""
            o = q.call_object(f, c)
            if cal == "Variant::" + conv and o is not None and q.no_casts(f.r(o)) == res:
                made.append(c)
            if cal.startswith("Variant::operator=") and q.no_casts(f.r(c)).startswith(res + ".operator=(") or \
               (f.nodes[c]["k"] == "CXXOperatorCallExpr" and f.nodes[c].get("oop") == "=" and len(f.nodes[c]["c"]) == 3 and
                    q.no_casts(f.r(f.nodes[c]["c"][1])) == res and ty in (f.nodes[f.strip(f.nodes[c]["c"][2])].get("t") or "")):
                made.append(c)
        rets = [i for i, n in enumerate(f.nodes) if n["k"] == "ReturnStmt" and n["c"] and fin.eval_expr(f, n["c"][0], {}) != 0 and f.node_pos(i) is not None]
        bad = None
        for r in rets:
            if f.find_path(f.entry_pos(), {f.node_pos(r)}, avoid=q.pos_of(f, made), after_src=False) is not None:
                bad = r
        if not rets:
            raise AnalysisBroken("Json::Private::%s: no successful return found" % nm)
        if bad is None and made:
            chk.ok(rid, f, "%s: every successful return has made the result a %s" % (nm, "list" if conv == "toList" else "map"), f.where(made[0]),
                   "no path to a `return true` avoids %s.%s()" % (res, conv), evals=len(rets) + 1)
        else:
            chk.bad(rid, f, "empty-container-stays-null:" + nm, f.where(bad if bad is not None else rets[0]),
                    "%s can return true without `%s.%s()` having been evaluated (the loop body never runs for `%s`): the empty %s parses to "
                    "null, and parsing the output of toString no longer yields an equal tree" % (
                        nm, res, conv, "[]" if conv == "toList" else "{}", "list" if conv == "toList" else "map"), evals=len(rets) + 1)
