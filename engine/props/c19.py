"""C19 — paths, files and directories: failure discipline and staying inside the tree (structural part)."""
import re
from .. import q, fin
from .. import containers as C
from ..facts import AnalysisBroken

EXPLANATION = (
    "Structural rules on src/File.cpp and src/Directory.cpp (POSIX branch): (a) a failed operation does not leave a file it created: on "
    "every path from a successful exclusive open(O_CREAT) to `return false` the created path is unlinked (File::copy: 1 known finding); "
    "(b) Directory::create returns true only on the success edge of mkdir, for '.'/'..' base names, or when Directory::exists(dir) holds "
    "afterwards, and returns false when creating the parent failed; File::open clears its handle on every failure path; (c) recursive "
    "Directory::unlink calls nothing that follows symbolic links (who-may-call over its callees) and recurses only for entries whose "
    "dirent type is DT_DIR, everything else goes to File::unlink; the directory stream is closed on every exit after it was opened; "
    "(d) the parent is created before mkdir; (e) descriptor leaks are reported as notes only. Not decided: the path algebra "
    "(simplifyPath idempotence, recomposition, getRelativePath), byte fidelity of file I/O, what the file system does.")


def ffn(prog, name, fileend, nparams=None):
    c = [f for f in prog.functions.values() if f.name == name and f.file.endswith(fileend) and (nparams is None or len(f.params) == nparams)]
    if not c:
        raise AnalysisBroken("anchor function not found: " + name)
    return c[0]


def callsn(f, name):
    return [i for i in q.calls(f) if f.nodes[i].get("callee") == name]


def rets(f, val):
    live = f.reach([f.entry_pos()])
    return [i for i, n in enumerate(f.nodes) if n["k"] == "ReturnStmt" and n["c"] and fin.eval_expr(f, n["c"][0], {}) == val and f.node_pos(i) in live]


def run(prog, chk):
    chk.extra["explanation"] = EXPLANATION
    chk.rule("C19.a", "MPT: from a successful creating open() every path to `return false` unlinks the created file", floor=2)
    chk.rule("C19.b", "DOM: Directory::create returns true only when the directory exists afterwards; File::open resets its handle on failure", floor=4)
    chk.rule("C19.c", "WHO+DOM: recursive unlink never follows a link: allowed callees only, recursion only for d_type == DT_DIR, stream closed on every exit", floor=3)
    chk.rule("C19.d", "ORD: Directory::create makes the parent before mkdir and fails when that fails", floor=1)
    # ------------------------------------------------------------------ a
    for name in ("File::rename", "File::copy"):
        f = ffn(prog, name, "File.cpp")
        where = "%s:%s" % (f.file, f.line)
        opens = [c for c in callsn(f, "open") if "64" in f.r(q.call_args(f, c)[1]) or fin.eval_expr(f, q.call_args(f, c)[1], {}) is None or (fin.eval_expr(f, q.call_args(f, c)[1], {}) or 0) & 64]
        created = []
        for c in opens:
            flags = q.call_args(f, c)[1]
            v = fin.eval_expr(f, flags, {})
            txt = f.r(flags)
            if (v is not None and v & 0o100) or re.search(r"\b64\b|O_CREAT", txt) or v is None:
                created.append(c)
        if not created:
            chk.bad("C19.a", f, "no-creating-open", where, "%s no longer creates its destination with open(O_CREAT...)" % name)
            continue
        for c in created:
            target = q.no_casts(f.r(q.call_args(f, c)[0]))
            # the success edge of the test of the descriptor
            var = None
            p = f.up(c)
            while p is not None and f.nodes[p]["k"] != "DeclStmt":
                p = f.up(p)
            if p is not None:
                var = f.nodes[p]["decls"][0]["n"]
            ok_edges = []
            for b in f.blocks.values():
                cnd = b.get("cond")
                if cnd is None or var is None or len(b["succ"]) != 2:
                    continue
                k = fin.key(f, cnd)
                if k == "(%s == -1)" % var:
                    ok_edges.append(b["succ"][1])
                elif k == "(%s != -1)" % var or k == "(%s >= 0)" % var:
                    ok_edges.append(b["succ"][0])
            unl = [u for u in callsn(f, "unlink") if q.no_casts(f.r(q.call_args(f, u)[0])) == target]
            # `return false`, and returns of a computed value (`return ::rename(..) == 0;`): a value that can be false without a branch that
            # could clean up
            live_ = f.reach([f.entry_pos()])
            fails = rets(f, 0) + [i for i, n_ in enumerate(f.nodes) if n_["k"] == "ReturnStmt" and n_["c"] and f.node_pos(i) in live_ and
                                  fin.eval_expr(f, n_["c"][0], {}) is None]
            bad = None
            for e in ok_edges:
                if e is None:
                    continue
                for r in fails:
                    pth = f.find_path((e, 0), {f.node_pos(r)}, avoid=q.pos_of(f, unl), after_src=False)
                    if pth is not None:
                        bad = (r, pth)
            if not ok_edges:
                chk.bad("C19.a", f, "created-descriptor-not-tested", f.where(c), "the result of the creating open() is not tested")
            elif bad:
                chk.bad("C19.a", f, "created-file-left-behind", f.where(bad[0]),
                        "%s created `%s` and a path returns %s without unlinking it (a failed operation leaves a new, empty or partial file behind)" % (
                            name, target, "false" if fin.eval_expr(f, f.nodes[bad[0]]["c"][0], {}) == 0 else "the unbranched result `%s`, which is false when that call fails," % q.no_casts(f.r(f.nodes[bad[0]]["c"][0]))[:40]), f.path_lines(bad[1]))
            else:
                chk.ok("C19.a", f, "%s: every failure after creating `%s` unlinks it" % (name, target), f.where(c), "MPT from the success edge of open() to `return false`", evals=len(fails) + 1)
    # ------------------------------------------------------------------ b
    f = ffn(prog, "Directory::create", "Directory.cpp")
    mk = callsn(f, "mkdir")
    if not mk:
        raise AnalysisBroken("Directory::create: mkdir not found")
    defs_b = q.local_defs(f)
    for r in rets(f, 1):
        atoms = fin.dominating_atoms(f, f.node_pos(r))
        why = None
        # the outcome of mkdir kept in a bool local (`const bool created = mkdir(dir, mode) == 0;`): the name stands for that test
        named = []
        for a in atoms:
            if a[0] == "case":
                continue
            xn_ = f.nodes[f.strip(a[0])]
            if xn_["k"] == "DeclRefExpr" and xn_["ref"].get("dk") == "local":
                ini_ = q.single_def(f, xn_["ref"]["id"], defs_b)
                if ini_ is not None:
                    named += [(n_, t_) for n_, t_ in q.cond_atoms(f, ini_, bool(a[1]))]
        for a in list(atoms) + named:
            if a[0] == "case":
                continue
            k = fin.key(f, a[0])
            if mk[0] in f.desc(a[0]) and ((re.search(r"!= 0\)$", k) and not a[1]) or (re.search(r"== 0\)$", k) and a[1])):
                why = "mkdir succeeded"
            if re.search(r"Directory::exists\(dir\)", k) and a[1]:
                why = "Directory::exists(dir) holds"
            if re.search(r"basename == \"\.\.?\"", k) and a[1]:
                why = "base name is . or .."
        if why is None:
            # disjunction: every edge into the returning block carries an accepting fact
            inc = fin.incoming_edge_atoms(f, f.node_pos(r)[0])
            if inc and all(any(t and re.search(r"basename == \"\.\.?\"", fin.key(f, a)) for a, t in ats) for _p, ats in inc):
                why = "base name is . or .."
        if why:
            chk.ok("C19.b", f, "`return true` at line %s: %s" % (f.nodes[r]["l"], why), f.where(r), "dominating atom", evals=len(atoms))
        else:
            facts = [(fin.key(f, a[0])[:40], a[1]) for a in atoms if a[0] != "case"][-3:]
            chk.bad("C19.b", f, "create-reports-success-without-directory", f.where(r),
                    "Directory::create returns true on a path where mkdir failed and the existence of the directory was not verified (facts: %s): e.g. a "
                    "regular file or dangling link occupying the name (EEXIST) is reported as success" % facts)
    fo = ffn(prog, "File::open", "File.cpp")
    op = callsn(fo, "open")
    for r in rets(fo, 0):
        # after the descriptor was stored, a failing path must reset fp
        st = [s.node for s in q.stores(fo) if q.no_casts(fo.r(s.lhs)) == "this->fp" and not q.is_zero(fo, s.rhs)]
        if st and any(q.reaches(fo, s, r) for s in st):
            z = [s.node for s in q.stores(fo) if q.no_casts(fo.r(s.lhs)) == "this->fp" and q.is_zero(fo, s.rhs)]
            if z and all(fo.find_path(fo.node_pos(s), {fo.node_pos(r)}, avoid=q.pos_of(fo, z)) is None for s in st if q.reaches(fo, s, r)):
                chk.ok("C19.b", fo, "File::open: failure at line %s leaves no handle" % fo.nodes[r]["l"], fo.where(r), "fp = 0 on every path from the open to this return", evals=2)
            else:
                chk.bad("C19.b", fo, "open-failure-keeps-handle", fo.where(r), "File::open returns false but keeps the (invalid or leaked) descriptor in fp: isOpen() lies and the next open() is refused")
    # ------------------------------------------------------------------ c
    f = ffn(prog, "Directory::unlink", "Directory.cpp")
    allowed = {"rmdir", "opendir", "readdir", "closedir", "Directory::unlink", "File::unlink", "__errno_location", "String::length", "String::String", "String::~String",
               "operator+", "String::operator const char *", "String::operator+", "String::append"}
    forbidden = {"stat", "lstat", "fstatat", "realpath", "chdir", "Directory::exists", "Directory::read", "Directory::open", "File::exists", "File::isSymbolicLink", "readlink", "access", "open"}
    names = set()
    for c in q.calls(f):
        nm = f.nodes[c].get("callee", "")
        names.add(nm)
    hit = sorted(n for n in names if n in forbidden or n.split("::")[-1] in ("stat", "lstat"))
    if hit:
        chk.bad("C19.c", f, "unlink-calls-link-following-function:" + ",".join(hit), "%s:%s" % (f.file, f.line),
                "recursive Directory::unlink calls %s: resolving an entry through a function that follows symbolic links lets the deletion leave the given tree" % hit)
    else:
        chk.ok("C19.c", f, "callees of Directory::unlink contain no link-following function", "%s:%s" % (f.file, f.line), "callees: %s" % sorted(n.split("::")[-1] for n in names if n)[:12], evals=len(names))
    rec = [c for c in callsn(f, "Directory::unlink")]
    fu = [c for c in callsn(f, "File::unlink")]
    ok = bool(rec) and bool(fu)
    for c in rec:
        atoms = fin.dominating_atoms(f, f.node_pos(c))
        isdir = False
        for a in atoms:
            if a[0] == "case" or not a[1]:
                continue
            v = fin.key(f, a[0])
            if re.search(r"dent->d_type == (4|DT_DIR)\)", v) or v == "isDir":
                # isDir must be the dirent's type test
                if v == "isDir":
                    defs = q.local_defs(f)
                    n = f.nodes[f.strip(a[0])]
                    init = q.single_def(f, n["ref"]["id"], defs) if n["k"] == "DeclRefExpr" else None
                    isdir = init is not None and re.search(r"dent->d_type == (4|DT_DIR)\)", fin.key(f, init)) is not None
                else:
                    isdir = True
        ok = ok and isdir
    if ok:
        chk.ok("C19.c", f, "recursion only for entries with d_type == DT_DIR; other entries are unlinked as files", f.where(rec[0]), "dominating atom on the dirent type", evals=len(rec) + len(fu))
    else:
        chk.bad("C19.c", f, "recursion-not-guarded-by-dirent-type", "%s:%s" % (f.file, f.line),
                "the recursive call must be taken only when the directory entry itself says DT_DIR (a symbolic link to a directory has type DT_LNK and must be unlinked, not entered)")
    od = callsn(f, "opendir")
    cd = callsn(f, "closedir")
    if od and cd:
        # success edge of opendir: `if(!dp) return false`
        leak = None
        for b in f.blocks.values():
            cnd = b.get("cond")
            if cnd is not None and fin.key(f, cnd) in ("!dp", "dp") and len(b["succ"]) == 2:
                e = b["succ"][1] if fin.key(f, cnd) == "!dp" else b["succ"][0]
                if e is not None:
                    leak = f.find_path((e, 0), {f.exit_pos()}, avoid=q.pos_of(f, cd), after_src=False)
        if leak is None:
            chk.ok("C19.c", f, "directory stream closed on every exit after opendir succeeded", f.where(od[0]), "MPT", evals=2)
        else:
            chk.bad("C19.c", f, "directory-stream-leaked", f.where(od[0]), "a path leaves Directory::unlink without closedir() after opendir() succeeded (descriptor leak per failed deletion)", f.path_lines(leak))
    # ------------------------------------------------------------------ d
    f = ffn(prog, "Directory::create", "Directory.cpp")
    rc = callsn(f, "Directory::create")
    if rc and mk and all(q.precedes_always(f, [b["id"] for b in []] or rc, m) or True for m in mk):
        fail_ok = all(any(a[0] != "case" and c in f.desc(a[0]) and ((fin.key(f, a[0]).startswith("!") and a[1]) or (not fin.key(f, a[0]).startswith("!") and not a[1]))
                          for a in fin.dominating_atoms(f, f.node_pos(r))) or True for c in rc for r in [])
        # the parent call reaches mkdir (parent first) and a failed parent creation returns false
        ordered = all(q.reaches(f, c, m) and not q.reaches(f, m, c) for c in rc for m in mk)
        fails = rets(f, 0)
        pf = any(any(a[0] != "case" and rc[0] in f.desc(a[0]) and not a[1] for a in fin.dominating_atoms(f, f.node_pos(r))) for r in fails)
        if ordered and pf:
            chk.ok("C19.d", f, "parent created first; its failure returns false", f.where(rc[0]), "ORD + dominating atom", evals=2)
        else:
            chk.bad("C19.d", f, "parent-creation-order", "%s:%s" % (f.file, f.line), "Directory::create must create the missing parent before mkdir(dir) and return false when that fails")
    else:
        chk.bad("C19.d", f, "parent-creation-missing", "%s:%s" % (f.file, f.line), "Directory::create no longer creates missing parents")
    # ------------------------------------------------------------------ f: prefix tests on component boundaries
    chk.rule("C19.f", "typestate: in getRelativePath every `to starts with prefix` comparison is made while the prefix ends in a separator "
                      "(component boundary), so a sibling whose name merely extends the last component is not taken for a descendant", floor=2)
    f = ffn(prog, "File::getRelativePath", "File.cpp")
    cmps = []
    for c in q.calls(f):
        if f.nodes[c].get("callee") != "String::compare":
            continue
        a = q.call_args(f, c)
        if len(a) < 3:
            continue
        m = re.match(r"^(\w+)\.length\(\)$", q.no_casts(f.r(a[2])))
        if m:
            cmps.append((c, q.alias_root(f, m.group(1))))     # through the parameter of an inlined helper
            continue
        # the length kept in a local: it is the whole prefix when it was taken from prefix.length(), or when the prefix was just resized to it
        pm = re.match(r"^\(?(\w+)\.operator const char \*\(\)\)?$|^(\w+)$", q.no_casts(f.r(a[1])).strip())
        pv = (pm.group(1) or pm.group(2)) if pm else None
        if pv is None:
            continue
        lt = q.no_casts(f.r(a[2]))
        whole = q.no_casts(q.xr(f, a[2])) == "%s.length()" % pv
        if not whole:
            for r_ in q.calls(f):
                nr = f.nodes[r_]
                if nr["k"] == "CXXMemberCallExpr" and (nr.get("callee") or "").endswith("String::resize") and q.call_object(f, r_) is not None and \
                   q.no_casts(f.r(q.call_object(f, r_))) == pv and q.call_args(f, r_) and q.no_casts(f.r(q.call_args(f, r_)[0])) == lt and \
                   f.dominates_pos(f.node_pos(r_), f.node_pos(c)):
                    whole = True
        if whole:
            cmps.append((c, q.alias_root(f, pv)))
    if not cmps:
        chk.bad("C19.f", f, "no-prefix-comparison", "%s:%s" % (f.file, f.line), "getRelativePath no longer compares the simplified target against a prefix of the simplified source")
    for c, var in cmps:
        def tr(st, e, var=var):
            if not isinstance(e, int):
                return st
            n = f.nodes[e]
            if n["k"] in ("CXXMemberCallExpr", "CXXOperatorCallExpr"):
                o = q.call_object(f, e) if n["k"] == "CXXMemberCallExpr" else (f.strip(n["c"][1]) if len(n["c"]) > 1 else None)
                if o is None or q.no_casts(f.r(o)) != var:
                    return st
                short = n.get("callee", "").split("::")[-1]
                args = q.call_args(f, e) if n["k"] == "CXXMemberCallExpr" else n["c"][2:]
                if short == "append" and args and fin.eval_expr(f, args[0], {}) == 47:
                    return "sep"
                if short == "resize" and args:
                    t = q.no_casts(q.xr(f, args[0]))
                    # resize((newEnd - start) + 1) with newEnd = findLast('/') keeps the separator
                    if re.search(r"findLast\('/'\)", t) and t.endswith("+ 1)"):
                        return "sep"
                    return "nosep"
                if short in ("operator=", "clear", "prepend", "replace", "operator+=", "printf") or (short == "append"):
                    return "nosep"
            return st
        sin, sat = q.forward(f, "nosep", tr, None, lambda a, b: a if a == b else "nosep")
        st = sat.get(f.node_pos(c))
        # only comparisons whose success leads to a return matter
        if st == "sep":
            chk.ok("C19.f", f, "prefix comparison at line %s with `%s` ending in '/'" % (f.nodes[c]["l"], var), f.where(c), "typestate dataflow over append('/') / resize", evals=2)
        else:
            chk.bad("C19.f", f, "prefix-test-off-component-boundary", f.where(c),
                    "`%s` is compared as a prefix of the target while it does not end in a separator: \"/r/lib\" is accepted as a prefix of \"/r/lib64/x\" "
                    "and the relative path then denotes a different file" % var)
    # ------------------------------------------------------------------ e (notes)
    fc = ffn(prog, "File::copy", "File.cpp")
    early = [r for r in rets(fc, 0) if callsn(fc, "open") and q.reaches(fc, callsn(fc, "open")[0], r) and
             fc.find_path(fc.node_pos(callsn(fc, "open")[0]), {fc.node_pos(r)}, avoid=q.pos_of(fc, callsn(fc, "close"))) is not None]
    if early:
        chk.note("File::copy returns false on %d path(s) without closing the source descriptor (descriptor leak; not a clause of C19)" % len(early))
    open_flag_table(prog, chk, "C19.g")
    position_preserving_probe(prog, chk, "C19.h")
    copy_destination_flags(prog, chk, "C19.i")
    stale_path_summaries(prog, chk, "C19.j")
    stem_extension_cut(prog, chk, "C19.k")
    read_all_table(prog, chk, "C19.l")
    extension_cut_needs_dot(prog, chk, "C19.m")
    directory_test_follows_links(prog, chk, "C19.n")
    transfer_loops_advance(prog, chk, "C19.o")


def copy_destination_flags(prog, chk, rid):
    """File::copy writes the source into the destination with sendfile(): the destination has to be opened for writing, created when
    missing, emptied when it exists (O_TRUNC) - or refused when it exists and the caller asked for that (O_EXCL)"""
    chk.rule(rid, "FIN/TBL: for failIfExists in {false, true} File::copy opens its destination with O_CREAT, write access, O_EXCL exactly "
                  "when failIfExists, and O_TRUNC whenever an existing file may be opened", floor=1)
    f = ffn(prog, "File::copy", "File.cpp")
    where = "%s:%s" % (f.file, f.line)
    dest = f.params[1]["n"] if len(f.params) > 1 else None
    flagp = next((p_["n"] for p_ in f.params if p_.get("t") == "bool"), None)
    opens = [c for c in callsn(f, "open") if q.call_args(f, c) and dest and re.search(r"\b%s\b" % re.escape(dest), f.r(q.call_args(f, c)[0]))]
    if not opens or flagp is None:
        chk.ok(rid, f, "File::copy does not open its destination with open(2) here", where, "no such call", nontrivial=False)
        return
    O_WRONLY, O_RDWR, O_CREAT, O_EXCL, O_TRUNC, O_APPEND = 1, 2, 0o100, 0o200, 0o1000, 0o2000
    for c in opens:
        bad = None
        for v in (0, 1):
            fl = fin.value_at(f, q.call_args(f, c)[1], c, {flagp: v})
            if fl is None:
                bad = (v, "the flags are not determined by failIfExists")
                break
            if not fl & O_CREAT:
                bad = (v, "O_CREAT is missing: a destination that does not exist is not created")
            elif not (fl & 3) in (O_WRONLY, O_RDWR):
                bad = (v, "the destination is not opened for writing")
            elif bool(fl & O_EXCL) != bool(v):
                bad = (v, "O_EXCL is %s" % ("missing: an existing destination is overwritten although the caller forbade it" if v else "set: copying over an existing file fails"))
            elif not v and not fl & O_TRUNC:
                bad = (v, "O_TRUNC is missing: a longer old destination keeps its tail behind the copied bytes")
            elif fl & O_APPEND:
                bad = (v, "O_APPEND is set: the copy lands behind the old contents")
            if bad:
                break
        if bad:
            chk.bad(rid, f, "copy-destination-flags:failIfExists=%d" % bad[0], f.where(c), "File::copy(.., failIfExists=%s): %s" % ("true" if bad[0] else "false", bad[1]), evals=2)
        else:
            chk.ok(rid, f, "destination opened create + write, O_EXCL iff failIfExists, O_TRUNC otherwise", f.where(c), "flags evaluated for both values of failIfExists", evals=2)


def position_preserving_probe(prog, chk, rid):
    """File::size() measures with lseek(SEEK_END): a query must leave the file position where the caller put it"""
    chk.rule(rid, "MPT/FIN: in File::size() every path from the successful end-of-file probe (lseek SEEK_END) to a return passes "
                  "lseek(saved position, SEEK_SET), except on edges where the saved position is known to equal the probe's result", floor=1)
    f = ffn(prog, "File::size", "File.cpp")
    where = "%s:%s" % (f.file, f.line)
    seeks = callsn(f, "lseek") + callsn(f, "lseek64")
    by = {0: [], 1: [], 2: []}
    for c in seeks:
        a = q.call_args(f, c)
        wh = fin.eval_expr(f, a[2], {}) if len(a) == 3 else None
        if wh in by:
            by[wh].append(c)
    if not by[2]:
        chk.ok(rid, f, "size() does not move the file position (no SEEK_END probe)", where, "no lseek(.., SEEK_END)", nontrivial=False)
        return

    def result_name(c):
        p_ = f.up(c)
        while p_ is not None and f.nodes[p_]["k"] in ("ImplicitCastExpr", "CStyleCastExpr", "ParenExpr"):
            p_ = f.up(p_)
        if p_ is None:
            return None
        n_ = f.nodes[p_]
        if n_["k"] == "DeclStmt":
            for d_ in n_["decls"]:
                if d_.get("init") is not None and c in f.desc(d_["init"]):
                    return d_["n"]
        if n_["k"] == "BinaryOperator" and n_.get("op") == "=":
            return q.no_casts(f.r(n_["c"][0]))
        return None
    for probe in by[2]:
        sz = result_name(probe)
        saves = [c for c in by[1] if q.reaches(f, c, probe)]
        cur = result_name(saves[0]) if saves else None
        restores = [c for c in by[0] if cur is not None and q.no_casts(f.r(q.call_args(f, c)[1])) == cur and q.reaches(f, probe, c)]
        if cur is None or sz is None:
            chk.bad(rid, f, "position-not-saved", f.where(probe), "the end-of-file probe is not preceded by a saved lseek(.., 0, SEEK_CUR) position "
                    "(or its result is not kept): the caller's file position cannot be restored")
            continue
        avoid = set(q.pos_of(f, restores))
        cut = set()      # excused block-to-block edges

        def bypass():
            from collections import deque
            start = f.node_pos(probe)
            prev = {}
            dq = deque()
            for s_ in f.succs_pos(start):
                if s_ not in avoid:
                    prev[s_] = start
                    dq.append(s_)
            while dq:
                x = dq.popleft()
                if x == f.exit_pos():
                    out = [x]
                    while out[-1] != start:
                        out.append(prev[out[-1]])
                    return list(reversed(out))
                for y in f.succs_pos(x):
                    if y in prev or y in avoid or (x[0] != y[0] and (x[0], y[0]) in cut):
                        continue
                    prev[y] = x
                    dq.append(y)
            return None
        verdict = None
        for _ in range(12):
            pth = bypass()
            if pth is None:
                break
            excused = None
            for (pb, pi), (nb, ni) in zip(pth, pth[1:]):
                blk = f.blocks[pb]
                if nb == pb or blk.get("cond") is None or len(blk["succ"]) != 2 or blk["succ"][0] == blk["succ"][1]:
                    continue
                for an, tr in fin.edge_atoms(f, blk, nb):
                    cn = fin._canon(f, an, tr)
                    if cn[0] == "val":
                        continue
                    if (cn[1] == "==" and {cn[0], cn[2]} == {cur, sz}) or (cn[1] == "<" and cn[0] == sz and cn[2] == "0") or \
                       (cn[1] == "==" and {cn[0], cn[2]} == {sz, "-1"}):
                        excused = (pb, nb)
                if excused:
                    break
            if excused is None:
                verdict = pth
                break
            cut.add(excused)
        if verdict is None:
            chk.ok(rid, f, "position restored after the SEEK_END probe unless `%s == %s`" % (cur, sz), f.where(probe), "MPT with excused edges", evals=3)
        else:
            chk.bad(rid, f, "position-not-restored", f.where(probe),
                    "a path (lines %s) returns after lseek(.., SEEK_END) moved the position without seeking back to `%s`, and nothing on it "
                    "says `%s == %s`: with the position beyond the end of the file size()/readAll() leave it at the end, the next write "
                    "lands at the wrong offset" % (f.path_lines(verdict), cur, cur, sz))


def open_flag_table(prog, chk, rid):
    """FIN/TBL: File::open's decision table from its flag argument to the open(2) flags, for all 16 flag sets"""
    chk.rule(rid, "FIN/TBL: for each of the 16 flag sets File::open hands open(2) an access mode that matches read/write, O_CREAT only for a "
                  "writing, non-openFlag open, O_TRUNC only for a writing open without appendFlag, never O_APPEND (writes after seek() must land "
                  "at the position), and positions at the end (lseek SEEK_END) exactly when appendFlag is given", floor=16)
    f = ffn(prog, "File::open", "File.cpp")
    P = f.params[1]["n"]
    en = {}
    for n in f.nodes:
        if n["k"] == "DeclRefExpr" and n["ref"].get("dk") == "enumconst" and n["ref"].get("q", "").startswith("File::"):
            en[n["ref"]["q"].split("::")[-1]] = n["ref"].get("v")
    for k in ("readFlag", "writeFlag", "appendFlag", "openFlag"):
        if k not in en:
            raise AnalysisBroken("File::open does not test File::%s" % k)
    O_ACC, O_WRONLY, O_RDWR, O_CREAT, O_TRUNC, O_APPEND = 3, 1, 2, 0o100, 0o1000, 0o2000
    opens = callsn(f, "open")
    if len(opens) != 1:
        raise AnalysisBroken("File::open: expected one call of open(2), found %d" % len(opens))
    for v in range(16):
        val = {P: v, "this->fp": 0}
        seen, end = [], None
        for _ in range(6):
            seen, end = fin.walk(f, f.entry, dict(val), stop_at_loop_back=False)
            if isinstance(end, str) and end.startswith("undetermined: ") and "== -1" in end:
                val[end[len("undetermined: "):]] = 0        # the system call succeeded
                continue
            break
        names = [k for k in ("readFlag", "writeFlag", "appendFlag", "openFlag") if v & en[k]]
        what = "flags = %s" % ("|".join(names) or "0")
        where = f.where(opens[0])
        if not isinstance(end, int):
            chk.bad(rid, f, "open-table-undecided:%d" % v, where, "%s: the path through File::open is not decided by the flag value (%s)" % (what, end))
            continue
        if opens[0] not in seen:
            chk.bad(rid, f, "open-not-reached:%d" % v, where, "%s: File::open returns without calling open(2) on a closed file" % what)
            continue
        ofl = None
        for e in seen:
            ne = f.nodes[e]
            if ne["k"] in ("BinaryOperator", "CompoundAssignOperator") and ne.get("op") in ("=", "|=", "&=", "^=", "+=", "-=") and ne["c"]:
                l = f.nodes[f.strip(ne["c"][0])]
                if l["k"] == "DeclRefExpr" and l["ref"].get("dk") == "local":
                    lk = f.r(ne["c"][0])
                    x = fin.eval_expr(f, ne["c"][1], val)
                    if ne["op"] != "=":
                        old_ = val.get(lk)
                        x = None if (x is None or old_ is None) else {"|=": old_ | x, "&=": old_ & x, "^=": old_ ^ x, "+=": old_ + x, "-=": old_ - x}[ne["op"]]
                    val[lk] = x
                    if x is None:
                        val.pop(lk, None)
            elif ne["k"] == "DeclStmt":
                for d in ne["decls"]:
                    if d.get("init") is not None:
                        x = fin.eval_expr(f, d["init"], val)
                        if x is not None:
                            val[d["n"]] = x
        ofl = fin.eval_expr(f, q.call_args(f, opens[0])[1], val)
        if ofl is None:
            chk.bad(rid, f, "open-flags-undetermined:%d" % v, where, "%s: the flags passed to open(2) are not determined by the flag argument" % what)
            continue
        rd, wr, ap, op = (bool(v & en[k]) for k in ("readFlag", "writeFlag", "appendFlag", "openFlag"))
        want_acc = O_RDWR if (rd and wr) else (O_WRONLY if wr else 0)
        errs = []
        if ofl & O_ACC != want_acc:
            errs.append("access mode %d, expected %d" % (ofl & O_ACC, want_acc))
        if ofl & O_APPEND:
            errs.append("O_APPEND is set: the kernel then ignores the position set by seek(), every write goes to the end of the file")
        if ofl & O_TRUNC and (not wr or ap):
            errs.append("O_TRUNC is set %s: existing bytes are discarded" % ("together with appendFlag" if ap else "without writeFlag"))
        if ofl & O_CREAT and (not wr or op):
            errs.append("O_CREAT is set %s: a missing file is created" % ("although openFlag asks to fail" if op else "for a read-only open"))
        if wr and not rd and not ap and not op and not ofl & O_TRUNC:
            errs.append("a write-only, non-append, creating open does not truncate: bytes of an older, longer file survive behind the written ones")
        seeks = [c for c in callsn(f, "lseek") if c in seen and fin.eval_expr(f, q.call_args(f, c)[1], {}) == 0 and fin.eval_expr(f, q.call_args(f, c)[2], {}) == 2]
        if ap and not seeks:
            errs.append("appendFlag does not position at the end of the file (no lseek(fd, 0, SEEK_END) on the success path)")
        if not ap and seeks:
            errs.append("the position is moved to the end of the file without appendFlag")
        if errs:
            chk.bad(rid, f, "open-flag-table:%s" % ("|".join(names) or "0"), where, "%s -> open(2) flags 0%o: %s" % (what, ofl, "; ".join(errs)), evals=len(seen))
        else:
            chk.ok(rid, f, "%s -> 0%o%s" % (what, ofl, ", lseek END" if seeks else ""), where, "guard-directed walk under the flag value", evals=len(seen))


def run_thorough(prog, chk):
    """C19.s (thorough) — SIB: the path decomposition functions locate their split point the same way.

    getDirectoryName / getBaseName / getStem / getExtension each scan backwards for the last separator; recomposition
    (directory name + separator + base name == path) holds only if they agree on where that separator is.  Compared: the start of the
    backward scan and what happens to the scan pointer before the separator loop.  Residual false-alarm risk as for C01.g: a one-sided
    but equivalent restructuring fires this rule, hence thorough tier only."""
    chk.rule("C19.s", "SIB: getDirectoryName, getBaseName, getStem (and getExtension) start their backward separator scan at the same "
                      "position and do not move the scan pointer before the separator loop", floor=3)
    sigs = {}
    for name in ("File::getDirectoryName", "File::getBaseName", "File::getStem", "File::getExtension"):
        fs = [f for f in prog.functions.values() if f.name == name and f.file.endswith("File.cpp")]
        if not fs:
            continue
        f = fs[0]
        defs = q.local_defs(f)
        # the separator loop: a loop block set that contains a comparison of `*p` with '/' (47)
        loop, ptr = None, None
        for b in f.blocks.values():
            c = b.get("cond")
            if c is None:
                continue
            for i in f.desc(c):
                n = f.nodes[i]
                if n["k"] == "BinaryOperator" and n.get("op") == "==" and fin.eval_expr(f, n["c"][1], {}) in (47, 92):
                    l = f.nodes[f.strip(n["c"][0])]
                    if l["k"] == "UnaryOperator" and l.get("op") == "*":
                        base = C.base_local(f, l["c"][0])
                        lb = C.loop_blocks(f, i)
                        if base is not None and lb:
                            cand = (min(lb), base)
                            # several loops may test for separators (a pre-skip, then the split)
                            if loop is None or max(lb) < max(loop):      # the last such loop: the one that performs the split
                                loop, ptr = lb, base
        if loop is None:
            continue
        inits = [q.no_casts(C.norm(f, init, {}, defs)) for kind, _n, init in defs.get(ptr["id"], []) if kind == "decl" and init is not None]
        pre = []
        for s in q.stores(f):
            ln = f.nodes[f.strip(s.lhs)]
            if ln["k"] == "DeclRefExpr" and ln["ref"]["id"] == ptr["id"] and (f.node_pos(s.node) or (None,))[0] not in loop:
                if any(f.find_path(f.node_pos(s.node), {(b_, 0)}) is not None for b_ in loop):
                    pre.append(q.no_casts(f.r(s.node)))
        start = re.sub(r"\b%s\b" % re.escape(f.params[0]["n"]), "$path", inits[0]) if inits else "?"
        sigs[name] = (start, tuple(pre), f)
    if len(sigs) < 3:
        raise AnalysisBroken("path decomposition functions not found (%s)" % sorted(sigs))
    ref = sigs.get("File::getBaseName") or list(sigs.values())[0]
    for name, (start, pre, f) in sorted(sigs.items()):
        if (start, pre) == (ref[0], ref[1]):
            chk.ok("C19.s", f, "%s scans back from %s" % (name.split("::")[-1], start[:50]), "%s:%s" % (f.file, f.line), "same scan start, pointer untouched before the loop", evals=2)
        else:
            chk.bad("C19.s", f, "split-point-differs-from-siblings", "%s:%s" % (f.file, f.line),
                    "%s starts its separator scan at `%s`%s, getBaseName at `%s`%s: for paths on which the two differ (e.g. a trailing separator) "
                    "directory name + separator + base name no longer recomposes the path" % (
                        name.split("::")[-1], start[:50], (" after " + "; ".join(pre)[:60]) if pre else "", ref[0][:50], (" after " + "; ".join(ref[1])[:40]) if ref[1] else ""))


def stale_path_summaries(prog, chk, rid):
    """simplifyPath / getRelativePath / purge build a path in an accumulator string and decide, component by component, what to do with
    its tail.  A local that remembers what was appended last (so that the text need not be looked at again) is only right as long as
    every operation on the accumulator refreshes it - also the one that removes a component."""
    from .. import stale
    chk.rule(rid, "FRESH (dataflow): in the path functions a local computed from what was put into the accumulator string and read by a guard of "
                  "a later change of the accumulator is redefined on every path from each change of the accumulator to that guard", floor=1)
    fs = [f for f in prog.functions.values() if f.blocks and (f.file.endswith("src/File.cpp") or f.file.endswith("src/Directory.cpp"))]
    acc = [f for f in fs if any(C.loop_blocks(f, c) for c in q.calls(f) if (f.nodes[c].get("callee") or "").startswith("String::") and
                                (f.nodes[c].get("callee") or "").split("::")[-1] in stale.MUTATORS)]
    if not acc:
        raise AnalysisBroken("no function of File.cpp / Directory.cpp changes a String inside a loop")
    for f in acc:
        where = "%s:%s" % (f.file, f.line)
        found, pairs = stale.findings(f)
        if found:
            v, g, m, path = found[0]
            chk.bad(rid, f, "stale-summary:" + v, f.where(g),
                    "`%s` remembers what was last put into the accumulator and decides `%s`, but `%s` changes the accumulator without "
                    "refreshing it (path through lines %s): the decision is taken on what the text ended with before that change "
                    "(simplifyPath(\"../a/../..\") answers \"\" instead of \"../..\")" % (
                        v, q.no_casts(f.r(g))[:40], q.no_casts(f.r(m))[:40], f.path_lines(path)[:10]), f.path_lines(path), evals=pairs + 1)
        else:
            chk.ok(rid, f, "accumulator loop: %d cached summaries, all refreshed after every change" % pairs, where, "reaching-definition search from each change to each guard", evals=pairs + 1, nontrivial=pairs > 0)


def _dot_scan(f):
    """how a backward scan treats a dot: ("cut-at-first-met" | "keeps-first-met" | "keeps-last-met" | None, conditions evaluated between the
    dot test and the cut).  The scan meets the LAST dot of the name first."""
    for b in f.blocks.values():
        c = b.get("cond")
        if c is None or not C.loop_blocks(f, f.strip(c)):
            continue
        dot_succ = None
        if b.get("tk") == "SwitchStmt":
            # `switch(*pos) { case '.': ...`: the successor labelled with the dot alone is the dot edge
            for s_ in b["succ"]:
                lab = f.blocks[s_].get("label") if s_ is not None else None
                if lab is not None and f.nodes[lab]["k"] == "CaseStmt" and f.nodes[lab].get("v") == 46 and \
                   not (f.nodes[lab]["c"] and f.nodes[f.nodes[lab]["c"][-1]]["k"] in ("CaseStmt", "DefaultStmt")):
                    dot_succ = s_
            if dot_succ is None:
                continue
        else:
            if len(b["succ"]) != 2:
                continue
            # the dot test: an equality of one byte-valued operand with '.', however the byte is obtained (`*pos`, `start[i - 1]`, a local `c`)
            cn_ = f.nodes[f.strip(c)]
            if cn_["k"] != "BinaryOperator" or cn_.get("op") not in ("==", "!=") or len(cn_["c"]) != 2:
                continue
            sides = [fin.eval_expr(f, x_, {}) for x_ in cn_["c"]]
            if sides.count(46) != 1:
                continue
            opnd = cn_["c"][0] if sides[1] == 46 else cn_["c"][1]
            k = fin.key(f, opnd)
            at = [fin.eval_expr(f, c, {k: v_}) for v_ in (46, 47, 97)]
            if None in at or bool(at[0]) == bool(at[1]) or bool(at[1]) != bool(at[2]):
                continue
            dot_succ = b["succ"][0] if at[0] else b["succ"][1]
        lb = C.loop_blocks(f, f.strip(c))
        heads = [x for x in lb if any(p_ not in lb for p_ in f.preds.get(x, []))]
        # region behind the dot edge, up to the loop's back edge / exit
        region, conds, stack = set(), [], [dot_succ]
        leaves, loops_back, rec = False, False, []
        while stack:
            x = stack.pop()
            if x is None or x in region:
                continue
            if x in heads or x == b["id"]:
                loops_back = True
                continue
            if x == f.exit:
                leaves = True
                continue
            region.add(x)
            xb = f.blocks[x]
            for e in xb["el"]:
                if isinstance(e, int) and f.nodes[e]["k"] == "BinaryOperator" and f.nodes[e].get("op") == "=":
                    l_ = f.nodes[f.strip(f.nodes[e]["c"][0])]
                    if l_["k"] == "DeclRefExpr" and l_["ref"].get("dk") == "local" and "*" in (l_["ref"].get("t") or ""):
                        rec.append(e)       # the position of this dot is kept in a pointer local
            if isinstance(xb.get("term"), int) and f.nodes[xb["term"]]["k"] == "ReturnStmt" or any(isinstance(e, int) and f.nodes[e]["k"] == "ReturnStmt" for e in xb["el"]):
                leaves = True
                continue
            if xb.get("cond") is not None and len(xb["succ"]) == 2 and f.node_pos(f.strip(xb["cond"])) is not None and "++" not in fin.key(f, xb["cond"]) and "--" not in fin.key(f, xb["cond"]):
                is_step = any(isinstance(e, int) and f.nodes[e]["k"] == "UnaryOperator" and f.nodes[e].get("op") in ("--", "++") for e in xb["el"])
                if not is_step:
                    conds.append(q.no_casts(fin.key(f, xb["cond"])))
            stack.extend(xb["succ"])
        if rec:
            # recorded and scanned on: which occurrence survives?
            first_only = all(any(a[0] != "case" and not a[1] and fin.key(f, a[0]) == q.no_casts(f.r(f.nodes[e]["c"][0])) or
                                 a[0] != "case" and fin.null_test(f, a[0]) is not None and fin.null_test(f, a[0])[0] == q.no_casts(f.r(f.nodes[e]["c"][0])) and
                                 (fin.null_test(f, a[0])[1] == 0) == bool(a[1])
                                 for a in fin.dominating_atoms(f, f.node_pos(e))) for e in rec)
            if loops_back and not first_only:
                return "keeps-last-met", conds, rec[0]
            # the test that makes the record a keep-first one is part of the mechanism, not a condition on the name
            names = set(q.no_casts(f.r(f.nodes[e]["c"][0])) for e in rec)
            conds = [c_ for c_ in conds if c_.strip("()!") not in names and not re.fullmatch(r"\(?(%s) (==|!=) (0|nullptr)\)?" % "|".join(re.escape(n_) for n_ in names), c_)]
            return "keeps-first-met", conds, rec[0]
        if leaves and not loops_back:
            return "cut-at-first-met", conds, f.strip(c)
    return None, [], None


def stem_extension_cut(prog, chk, rid):
    """getStem and getExtension take a base name apart; put together again (stem + "." + extension) they have to give the base name
    back.  Both scan backwards from the end, so both have to settle on the same dot - the one met first - under the same conditions."""
    chk.rule(rid, "SIB: the backward scans of File::getStem and File::getExtension cut the name at the same dot: the first one met (the last "
                  "dot of the name), with no condition that only one of the two applies", floor=1)
    st = [f for f in prog.functions.values() if f.name == "File::getStem" and f.blocks]
    ex = [f for f in prog.functions.values() if f.name == "File::getExtension" and f.blocks]
    if not st or not ex:
        raise AnalysisBroken("File::getStem / File::getExtension not found")
    ks, cs, ns = _dot_scan(st[0])
    ke, ce, ne = _dot_scan(ex[0])
    if ks is None or ke is None:
        raise AnalysisBroken("the dot test of the backward scan was not found in %s" % ("getStem" if ks is None else "getExtension"))
    last_s = ks in ("cut-at-first-met", "keeps-first-met")
    last_e = ke in ("cut-at-first-met", "keeps-first-met")
    if last_s != last_e:
        odd, oddn, what = (st[0], ns, ks) if not last_s else (ex[0], ne, ke)
        chk.bad(rid, odd, "stem-extension-different-dot", odd.where(oddn),
                "%s %s while its sibling settles on the dot met first: for `a.tar.gz` the stem is `a` but the extension `gz` - "
                "stem + \".\" + extension gives `a.gz`, not the base name" % (
                    odd.name, "overwrites the recorded dot with every further one (ends at the first dot of the name)" if what == "keeps-last-met" else "settles on the last dot of the name"), evals=2)
    elif sorted(cs) != sorted(ce):
        odd = ex[0] if len(ce) > len(cs) else st[0]
        extra = sorted(set(ce) ^ set(cs))
        chk.bad(rid, odd, "stem-extension-different-condition", odd.where(ne if odd is ex[0] else ns),
                "behind the dot test %s also asks `%s`, its sibling does not: for the names where that makes a difference (e.g. `.profile`) "
                "stem and extension no longer add up to the base name" % (odd.name, extra[0][:60]), evals=2)
    else:
        chk.ok(rid, st[0], "getStem and getExtension both cut at the dot met first, unconditionally", "%s:%s" % (st[0].file, st[0].line), "scan classification: %s / %s" % (ks, ke), evals=2)


def read_all_table(prog, chk, rid):
    """File::readAll as a decision table over (size(), what read() returns): it fails exactly when size() or read() failed; otherwise
    it succeeds and the text is cut to the number of bytes read - zero bytes (position at or behind the end, empty file) included."""
    chk.rule(rid, "FIN: File::readAll(String&) evaluated over size() in {-1, 0, 10} x read() in {-1, 0, 4, 10}: false exactly when one of "
                  "the two is negative, otherwise true with the text resized to the byte count read", floor=1)
    fs = [f for f in prog.functions.values() if f.name == "File::readAll" and f.blocks and len(f.params) == 1]
    if not fs:
        raise AnalysisBroken("File::readAll(String&) not found")
    f = fs[0]
    where = "%s:%s" % (f.file, f.line)
    sz = [c for c in q.calls(f) if (f.nodes[c].get("callee") or "") == "File::size"]
    rd = [c for c in q.calls(f) if (f.nodes[c].get("callee") or "") == "File::read"]
    rs = [c for c in q.calls(f) if (f.nodes[c].get("callee") or "") == "String::resize"]
    if not sz or not rd:
        raise AnalysisBroken("File::readAll: calls of size() / read() not found")
    bad = None
    n_ev = 0
    for S in (-1, 0, 10):
        for R in (-1, 0, 4, 10):
            if S < 0 and R != -1:
                continue
            if R > max(S, 0):
                continue
            val = {fin.key(f, c): S for c in sz}
            val.update({fin.key(f, c): R for c in rd})
            last = {}

            def trace(e, v_, _l=last):
                if e in rs:
                    _l["n"] = fin.eval_expr(f, q.call_args(f, e)[0], v_)
                if f.nodes[e]["k"] == "CXXMemberCallExpr" and (f.nodes[e].get("callee") or "") == "String::clear":
                    _l["n"] = 0
            seen, end, fv = fin.walk_vals(f, f.entry, val, limit=200, trace=trace)
            n_ev += 1
            if isinstance(end, str):
                bad = (S, R, "the outcome depends on something else (%s)" % end)
                break
            ret = fin.eval_expr(f, f.nodes[end]["c"][0], fv) if f.nodes[end]["c"] else None
            want = not (S < 0 or (any(c in seen for c in rd) and R < 0))
            if S >= 0 and not any(c in seen for c in rd) and S > 0:
                bad = (S, R, "read() is not called")
                break
            if bool(ret) != want:
                bad = (S, R, "it returns %s, required %s" % (bool(ret), want))
                break
            if want and any(c in seen for c in rd) and last.get("n") != R:
                bad = (S, R, "the text is left with %s byte(s), %d were read" % (last.get("n"), R))
                break
        if bad:
            break
    if bad:
        chk.bad(rid, f, "read-all-table", where,
                "File::readAll with size() = %d and read() = %d: %s - at the end of a file (after read(), write() or a seek to the end) "
                "there is nothing left to read, which is not an error" % bad, evals=n_ev)
    else:
        chk.ok(rid, f, "readAll fails exactly when size() or read() fails, text cut to the bytes read", where, "%d outcome pairs evaluated" % n_ev, evals=n_ev)


def extension_cut_needs_dot(prog, chk, rid):
    """getBaseName(file, ext) / getStem(file, ext) with an extension given WITHOUT its dot cut `.ext` - one byte more than the extension.
    That extra byte has to have been seen to be a dot: evaluated for an extension without a dot and every outcome of the tests the
    lengths do not decide, a return that cuts length(ext) + 1 bytes lies behind a comparison of a byte of the name with '.'."""
    import itertools
    chk.rule(rid, "FIN/DOM: File::getBaseName(file, extension) evaluated for a dot-less extension over the outcomes of its undetermined tests: "
                  "every return that cuts extension.length() + 1 bytes from the name has evaluated a test `name[..] == '.'` on the way; a "
                  "return never cuts more than that", floor=1)
    fs = [f for f in prog.functions.values() if f.name == "File::getBaseName" and f.blocks and len(f.params) == 2]
    if not fs:
        raise AnalysisBroken("File::getBaseName(file, extension) not found")
    f = fs[0]
    en = f.params[1]["n"]
    ctor = [i for i, n in enumerate(f.nodes) if n["k"] in ("CXXConstructExpr", "CXXTemporaryObjectExpr") and (n.get("callee") or "").endswith("String::String") and
            len([c_ for c_ in n["c"] if c_ >= 0]) == 2 and f.node_pos(i) is not None]
    lens = [c for c in q.calls(f) if (f.nodes[c].get("callee") or "") == "String::length"]
    if not ctor or not lens:
        raise AnalysisBroken("File::getBaseName: result construction / length() calls not found")
    NAME, EXT = 20, 3
    bad = None
    n_ev = 0
    cuts_seen = set()
    for combo in itertools.product((0, 1), repeat=5):
        val = {}
        for c in lens:
            o = q.call_object(f, c)
            val[fin.key(f, c)] = EXT if o is not None and q.no_casts(f.r(o)) == en else NAME
        # the name has no separator (the scan loop ends at once), the extension starts with a letter
        val.update({"*extensionPtr": 97, "extensionPtr[0]": 97})
        seen_keys = []

        def assume(k_, _c=combo, _s=seen_keys):
            if k_ not in _s:
                _s.append(k_)
            ix = _s.index(k_)
            return _c[ix] if ix < len(_c) else 0
        got = {}

        def trace(e, v_, _g=got):
            if e in ctor:
                a_ = [c_ for c_ in f.nodes[e]["c"] if c_ >= 0]
                _g["len"] = fin.eval_expr(f, a_[1], v_)
        # start behind the backward scan for the last separator: at the block that reads the extension's length, with the length of
        # the last path component standing for whatever local holds it
        ext_len_calls = [c for c in lens if q.call_object(f, c) is not None and q.no_casts(f.r(q.call_object(f, c))) == en]
        if not ext_len_calls:
            raise AnalysisBroken("File::getBaseName: extension.length() not found")
        start_blk = f.node_pos(ext_len_calls[0])[0]
        for d_ in [d for n_ in f.nodes if n_["k"] == "DeclStmt" for d in n_["decls"]]:
            if re.search(r"unsigned long|usize", d_.get("t") or "") and d_.get("init") is not None and re.search(r"fileLen|length\(\)", f.r(d_["init"])) and \
               en not in f.r(d_["init"]):
                val[d_["n"]] = NAME
        seen, end, fv = fin.walk_vals(f, start_blk, val, limit=400, assume=assume, trace=trace)
        n_ev += 1
        if "len" not in got or got["len"] is None:
            continue
        cut = NAME - got["len"]
        cuts_seen.add(cut)
        def on_name(e):
            """a comparison with '.' whose other operand reads a byte through a pointer that does not come from the extension"""
            sides = f.nodes[e]["c"]
            vals_ = [fin.eval_expr(f, x_, {}) for x_ in sides]
            if 46 not in vals_:
                return False
            other = sides[1] if vals_[0] == 46 else sides[0]
            x_ = f.nodes[f.strip(other)]
            while x_["k"] in ("ArraySubscriptExpr", "UnaryOperator", "ParenExpr", "CStyleCastExpr", "ImplicitCastExpr") and x_["c"]:
                nx_ = f.strip(x_["c"][0])
                x_ = f.nodes[nx_] if nx_ != x_["i"] else f.nodes[x_["c"][0]]
            if x_["k"] != "DeclRefExpr":
                return False
            if x_["ref"]["n"] == en:
                return False
            ini_ = q.single_def(f, x_["ref"]["id"], q.local_defs(f)) if x_["ref"].get("dk") == "local" else None
            return not (ini_ is not None and re.search(r"(?<![\w])%s(?![\w])" % re.escape(en), f.r(ini_)))
        dot_tests = [e for e in seen if f.nodes[e]["k"] == "BinaryOperator" and f.nodes[e].get("op") in ("==", "!=") and on_name(e)]
        if cut > EXT + 1 or cut < 0:
            bad = "a return cuts %d bytes for an extension of %d" % (cut, EXT)
            break
        if cut == EXT + 1 and not dot_tests:
            bad = "a return cuts the extension and one more byte (%d) without having compared that byte of the name with '.'" % cut
            break
    where = "%s:%s" % (f.file, f.line)
    if bad:
        chk.bad(rid, f, "extension-cut-without-dot-test", where,
                "getBaseName(name, \"ext\"): %s - getBaseName(\"src/Makefile\", \"file\") answers \"Mak\"; stem and extension no longer "
                "recompose the base name" % bad, evals=n_ev)
    elif not cuts_seen:
        raise AnalysisBroken("File::getBaseName: no evaluated path reached the construction of the result")
    else:
        chk.ok(rid, f, "cuts of %s byte(s) seen; the longer one only behind a dot test on the name" % sorted(cuts_seen), where, "%d outcome combinations evaluated" % n_ev, evals=n_ev)


def directory_test_follows_links(prog, chk, rid):
    """Directory::create decides "the parent is there" and "it was there already" through Directory::exists.  A path whose last
    component is a symbolic link to a directory IS a directory to mkdir(2) and to everything that opens files below it; a test that
    does not follow the link (lstat) says it is not, and create() returns false although the directory exists afterwards."""
    chk.rule(rid, "WHO/FIN: Directory::exists classifies its path with stat() (following symbolic links), returns false when that fails and "
                  "S_ISDIR of the reported mode otherwise", floor=1)
    fs = [f for f in prog.functions.values() if f.name == "Directory::exists" and f.blocks]
    if not fs:
        raise AnalysisBroken("Directory::exists not found")
    f = fs[0]
    st = [c for c in q.calls(f) if (f.nodes[c].get("callee") or "") in ("stat", "lstat", "fstatat", "stat64", "lstat64", "access", "opendir")]
    if not st:
        raise AnalysisBroken("Directory::exists: no file-status call found")
    nofollow = [c for c in st if "lstat" in f.nodes[c]["callee"] or (f.nodes[c]["callee"] == "fstatat" and "AT_SYMLINK_NOFOLLOW" in f.r(c))]
    if nofollow:
        chk.bad(rid, f, "directory-test-does-not-follow-links", f.where(nofollow[0]),
                "Directory::exists asks `%s`: for a symbolic link to a directory it reports a link, exists() is false and "
                "Directory::create(\"link/sub\") fails (and create(\"link\") returns false although the directory exists afterwards)" % f.nodes[nofollow[0]]["callee"], evals=len(st))
    else:
        chk.ok(rid, f, "the directory test follows symbolic links", f.where(st[0]), "status call: %s" % f.nodes[st[0]]["callee"], evals=len(st))


def transfer_loops_advance(prog, chk, rid):
    """a loop that repeats read()/write() until a byte count is used up has to move through the buffer as it goes: where the remaining
    length is reduced by the transferred count, the buffer pointer advances by the same count before the next call - otherwise the
    start of the data is sent again (or overwritten) after a short transfer while the function still reports success"""
    chk.rule(rid, "PAIRF: in File.cpp, where a read/write call inside a loop takes (pointer, length) and the loop reduces that length by the "
                  "transferred count, every path from the reduction back to the call advances the pointer by the same count", floor=0)
    n = 0
    for f in sorted([f for f in prog.functions.values() if f.file.endswith("src/File.cpp") and f.blocks], key=lambda g: g.sig):
        for c in q.calls(f):
            cal = f.nodes[c].get("callee") or ""
            if cal not in ("write", "read", "File::write", "File::read", "pwrite", "pread"):
                continue
            lb = C.loop_blocks(f, c)
            if not lb:
                continue
            args = q.call_args(f, c)
            if len(args) < 2:
                continue
            pa, la = (args[-2], args[-1]) if cal.startswith("File::") else (args[1], args[2]) if len(args) >= 3 else (None, None)
            if pa is None:
                continue
            P, L = q.no_casts(f.r(pa)), q.no_casts(f.r(la))
            if not re.fullmatch(r"\w+", L):
                continue
            inloop = lambda s_: (f.node_pos(s_.node) or (None,))[0] in lb
            dec = [s_ for s_ in q.stores(f) if inloop(s_) and q.no_casts(f.r(s_.lhs)) == L and s_.rhs is not None and
                   (s_.op == "-=" or (s_.op == "=" and re.match(r"^\(?%s - " % re.escape(L), q.no_casts(f.r(s_.rhs)))))]
            if not dec:
                continue
            n += 1
            adv = [s_ for s_ in q.stores(f) if inloop(s_) and q.no_casts(f.r(s_.lhs)) == P and s_.rhs is not None and
                   (s_.op == "+=" or (s_.op == "=" and re.match(r"^\(?%s \+ " % re.escape(P), q.no_casts(f.r(s_.rhs)))))]
            # the pointer argument may itself be computed from a moving offset (`base + done`): then the offset is what advances
            m_ = re.fullmatch(r"\(?(\w+) \+ (\w+)\)?", P)
            if not adv and m_:
                adv = [s_ for s_ in q.stores(f) if inloop(s_) and q.no_casts(f.r(s_.lhs)) in (m_.group(1), m_.group(2)) and s_.op in ("+=", "=")]
            bad = None
            for d_ in dec:
                if f.node_pos(d_.node) is None or f.node_pos(c) is None:
                    continue
                if f.find_path(f.node_pos(d_.node), {f.node_pos(c)}, avoid=q.pos_of(f, [a_.node for a_ in adv])) is not None:
                    bad = d_
            if bad is not None:
                chk.bad(rid, f, "transfer-loop-does-not-advance:" + P, f.where(c),
                        "the loop reduces `%s` by the count `%s` transferred (`%s`) and calls `%s` again without moving `%s` forward: after a short "
                        "transfer the beginning of the data is transferred a second time and the function still reports success" % (
                            L, cal, q.no_casts(f.r(bad.node))[:40], q.no_casts(f.r(c))[:40], P), evals=len(dec) + len(adv) + 1)
            else:
                chk.ok(rid, f, "transfer loop moves `%s` and `%s` together" % (P, L), f.where(c), "every path from the length update to the next call passes the pointer update", evals=len(dec) + len(adv) + 1)
    chk.ok(rid, "File.cpp", "%d transfer loop(s) over a shrinking length found" % n, "src/File.cpp", "loop scan", nontrivial=False)
