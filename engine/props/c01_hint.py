"""C01.e — the hinted insert chooses only order-preserving cells.

The hinted `insert(position, key, value)` touches keys only through comparisons against the list neighbours of
`position`.  All consistent orderings of the new key against (prev, position, next) are enumerated together with the
shape facts {position is end, prev absent, next is end}; for each one the branch conditions of the function's CFG are
evaluated (finite valuation of the guard expressions, nothing of libnstd is executed) and the cell handed to the private insert is compared with
the specification."""
import re
from .. import q, fin
from .. import containers as C
from ..facts import AnalysisBroken


def walk(f, val, limit=200):
    """follow the CFG from the entry deciding every two-way branch by evaluating its condition under `val`;
    returns the ReturnStmt node reached (or None when a condition is not determined)"""
    b = f.entry
    sym = getattr(f, "_hint_sym", None)
    if sym is not None:
        sym.clear()
    for _ in range(limit):
        blk = f.blocks[b]
        for e in blk["el"]:
            if isinstance(e, int) and f.nodes[e]["k"] == "ReturnStmt":
                return e
            # locals that are (re)assigned on the path (single-exit style: `cell = &prev->right; parent = prev;`): remember what they hold
            if sym is not None and isinstance(e, int):
                ne = f.nodes[e]
                if ne["k"] == "BinaryOperator" and ne["op"] == "=" and f.nodes[f.strip(ne["c"][0])]["k"] == "DeclRefExpr" \
                   and f.nodes[f.strip(ne["c"][0])]["ref"].get("dk") == "local":
                    sym[f.nodes[f.strip(ne["c"][0])]["ref"]["n"]] = q.no_casts(f.r(ne["c"][1]))
                elif ne["k"] == "DeclStmt":
                    for d_ in ne["decls"]:
                        if d_.get("init") is not None and d_["id"] in f._hint_multi:
                            sym[d_["n"]] = q.no_casts(f.r(d_["init"]))
        succ = [s for s in blk["succ"]]
        if len(succ) == 1:
            b = succ[0]
            continue
        if len(succ) == 2 and blk.get("cond") is not None:
            v = fin.eval_expr(f, blk["cond"], val)
            if v is None:
                return ("undetermined", fin.key(f, blk["cond"]))
            b = succ[0] if v else succ[1]
            if b is None:
                return None
            continue
        return None
    return None


def run(prog, chk):
    chk.rule("C01.e", "FIN: for every consistent ordering of the key against the neighbours of the hint, the cell chosen by the hinted insert "
                      "preserves the order (exhaustive over orderings x {hint is end, prev absent, next is end})", floor=2)
    for cls in ("Map", "MultiMap"):
        fs = [f for f in prog.functions.values() if f.gname == cls + "::insert" and len(f.params) == 3 and (f.cls or "").startswith(cls + "<int")]
        if not fs:
            raise AnalysisBroken("hinted insert of %s<int, ...> not instantiated" % cls)
        f = fs[0]
        multi = cls == "MultiMap"
        pos_name = None
        for n in f.nodes:
            if n["k"] == "DeclStmt":
                for d in n["decls"]:
                    if "init" in d and re.search(r"\.item$", f.r(d["init"])):
                        pos_name = d["n"]
        if pos_name is None:
            raise AnalysisBroken("hinted insert: the node of the position iterator is not read into a local")
        P = pos_name
        total, bad = 0, []
        # the table below speaks of `prev` and `next` as the neighbours of the hint in the threaded list: that is what they have to be
        wrong = None
        for n in f.nodes:
            if n["k"] == "DeclStmt":
                for d in n["decls"]:
                    if d["n"] in ("prev", "next") and d.get("init") is not None:
                        it_ = q.no_casts(q.xr(f, d["init"])).strip("()")
                        if it_ not in ("%s->%s" % (P, d["n"]), "position.item->%s" % d["n"], "this->endItem.%s" % d["n"], "&this->endItem->%s" % d["n"]):
                            wrong = (n["i"], d["n"], q.no_casts(f.r(d["init"])))
        if wrong:
            chk.bad("C01.e", f, "hint-neighbour-not-from-list:" + wrong[1], f.where(wrong[0]),
                    "%s hinted insert validates the hint against `%s = %s`; the order of the keys is the order of the threaded list, so the "
                    "neighbour has to be `%s->%s` (a tree child is null whenever the neighbour is an ancestor, and the test then admits "
                    "any key)" % (cls, wrong[1], wrong[2], P, wrong[1]), evals=1)
            continue
        # keys of the neighbours: prev <= pos <= next (strict for Map); key ranges over all gaps and ties
        neigh = [(10, 20, 30)] + ([(20, 20, 30), (10, 20, 20), (20, 20, 20)] if multi else [])
        for pk, ck, nk in neigh:
            for key in (5, 10, 15, 20, 25, 30, 35):
                for at_end in (0, 1):
                    for has_prev in (0, 1):
                        for next_end in (0, 1):
                            val = {
                                "(%s == &this->endItem)" % P: at_end, "(&this->endItem == %s)" % P: at_end,
                                "(%s != &this->endItem)" % P: 1 - at_end, "(&this->endItem != %s)" % P: 1 - at_end,
                                "(next != &this->endItem)": 1 - next_end, "(&this->endItem != next)": 1 - next_end,
                                "prev": has_prev, "next": 1,
                                "(next == &this->endItem)" % (): next_end, "(&this->endItem == next)": next_end,
                                "key": key, "prev->key": pk, "%s->key" % P: ck, "next->key": nk,
                                "%s->prev" % P: has_prev,
                            }
                            if at_end:
                                # position is the sentinel: its key is never a valid neighbour; prev is the last element
                                val["%s->key" % P] = 10 ** 9
                                val["prev->key"] = ck
                            if not hasattr(f, "_hint_sym"):
                                defs_ = q.local_defs(f)
                                f._hint_multi = set(k for k, dl in defs_.items() if any(x[0] == "store" for x in dl))
                                f._hint_sym = {}
                            r = walk(f, val)
                            total += 1
                            if r is None or isinstance(r, tuple):
                                bad.append((val, "branch condition not evaluable: %s" % (r[1] if r else "?")))
                                continue
                            t = q.no_casts(f.r(f.nodes[r]["c"][0])) if f.nodes[r]["c"] else ""
                            for nm_, tx_ in sorted(f._hint_sym.items(), key=lambda kv: -len(kv[0])):
                                t = re.sub(r"(?<![\w>.])%s(?![\w])" % re.escape(nm_), tx_.replace("\\", "\\\\"), t)
                            t = t.replace(", 0,", ", 0,")
                            pv = val["prev->key"]
                            le = (lambda a, b: a <= b) if multi else (lambda a, b: a < b)
                            if "&this->root" in t:
                                ok = True
                            elif re.search(r"&%s->left, %s," % (P, P), t):
                                ok = not at_end and key < ck and (not has_prev or le(pv, key))
                            elif re.search(r"&%s->right, %s," % (P, P), t):
                                ok = not at_end and le(ck, key) and (next_end or le(key, nk))
                                if not multi:
                                    ok = ok and key != ck
                            elif re.search(r"&prev->right, prev,", t):
                                # legal at the end (prev is the last element), or in front of position when position has no left child... only the end form exists
                                ok = at_end and has_prev and le(pv, key) and (multi or key != pv)
                            elif re.search(r"Iterator\(%s\)$" % P, t) or t == P:
                                ok = (not at_end) and key == ck and not multi
                            else:
                                ok = False
                            if not ok:
                                bad.append((val, "returns `%s`" % t[:60]))
        where = "%s:%s" % (f.file, f.line)
        if bad:
            v, why = bad[0]
            desc = "key=%s, prev=%s(%s), position=%s%s, next=%s%s" % (v["key"], v["prev->key"], "present" if v["prev"] else "absent",
                                                                   v["%s->key" % P], " (end)" if v["(%s == &this->endItem)" % P] else "", v["next->key"], " (end)" if v["(next == &this->endItem)"] else "")
            chk.bad("C01.e", f, "hint-chooses-order-breaking-cell", where,
                    "%s hinted insert: for the ordering [%s] it %s, which does not keep the keys sorted (%d of %d orderings fail)" % (cls, desc, why, len(bad), total), evals=total)
        else:
            chk.ok("C01.e", f, "%s hinted insert: %d orderings, every chosen cell preserves the order" % (cls, total), where, "exhaustive finite valuation of the guards", evals=total)
        chk.extra.setdefault("orderings_enumerated", 0)
        chk.extra["orderings_enumerated"] += total
