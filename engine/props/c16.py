"""C16 — XML parsing is total and safe; serialising then parsing is identity (structural part)."""
import re
from collections import deque
from .. import q, fin
from .. import containers as C
from ..cursor import CursorAnalysis
from ..facts import AnalysisBroken
from .. import refcount as R
from .c15 import report_cursor, case_values, switches_on

EXPLANATION = (
    "Parser-cursor abstract interpretation, interprocedural progress and table agreement on src/Document/Xml.cpp and Xml.hpp: (a) cursor "
    "bounds in readToken, skipSpace, parseText and the processing-instruction loop of parse; (b) progress: every tokenizer loop cycle "
    "advances, and in the content loop of parseElement — which saves the cursor, reads a token and may rewind — every way round the loop "
    "consumes input that is not undone by the rewind (summaries: readToken true => advance >= 1; parseText, skipSpace >= 0; an explicit "
    "`cursor == saved` test counts as proof of progress on its false edge); (c) escape tables: bytes that end or break an attribute value / "
    "text node in the reader are escaped by the writer, escapeChars and escapeStrings have equal length; (d) raw pointers obtained from a "
    "String are not used after a call that may reallocate that String; unescapeString writes at most one byte per consumed byte outside "
    "numeric references; (e) element values are copy-on-write handles obeying the reference-count rules of C09; (f) every store to "
    "pos.line is paired with a store to pos.lineStart (1 known finding). Not decided: structural equality of re-parsed element trees in general.")

X = "Xml::Private::"


def xfn(prog, name, nparams=None):
    c = [f for f in prog.functions.values() if f.name == name and f.file.endswith("Xml.cpp") and (nparams is None or len(f.params) == nparams)]
    if not c:
        raise AnalysisBroken("anchor function not found: " + name)
    return c[0]


def content_loop_progress(chk, f, summ):
    """state machine over the CFG of parseElement's loops: progress in {none, tentative, firm}; a SAVE of the cursor struct makes later
    advances tentative until the loop head is reached again; a REWIND to the saved copy voids tentative progress"""
    ca = CursorAnalysis(f, ["this->pos.pos"], summ, "this->pos")
    ca.run()
    saves, rewinds = set(ca.save_pos), set(ca.rewind_pos)
    # successful callee => advance: the true edge of `if(readToken())` / false edge of `if(!readToken())`
    adv_edges = set()
    explicit = set()
    for b in f.blocks.values():
        c = b.get("cond")
        if c is None or len(b["succ"]) != 2:
            continue
        for a, t in q.cond_atoms(f, c, True):
            n = f.nodes[f.strip(a)]
            if n["k"] == "CXXMemberCallExpr":
                from ..report import strip_targs
                g = strip_targs(n.get("callee", ""))
                if summ.get(g, {}).get("min_advance", 0) >= 1:
                    adv_edges.add((b["id"], b["succ"][0] if t else b["succ"][1]))
            k = fin.key(f, a)
            me = re.match(r"^(\w+)\.isEmpty\(\)$", k)
            if me:
                # `text` filled by parseText(text): a non-empty text was built from consumed bytes (summary checked on parseText below)
                outs = [c2 for c2 in q.calls(f) if f.nodes[c2].get("callee", "").endswith("::parseText") and
                        any(q.no_casts(f.r(x)) == me.group(1) for x in q.call_args(f, c2)) and f.dominates_pos(f.node_pos(c2), (b["id"], 0))]
                if outs:
                    explicit.add((b["id"], b["succ"][1] if t else b["succ"][0]))
            m = re.match(r"^\(this->pos\.pos (==|!=) (\w+)\.pos\)$", k)
            if m:
                # cursor compared with a saved copy: on the "different" edge input was consumed since the save
                diff_edge = b["succ"][1] if (m.group(1) == "==") == t else b["succ"][0]
                explicit.add((b["id"], diff_edge))
    loops = [b for b in f.blocks.values() if b.get("tk") == "ForStmt" or b.get("tk") == "WhileStmt"]
    heads = [b["id"] for b in f.blocks.values() if any(p > b["id"] for p in []) ]
    # loop heads = targets of back edges
    heads = set()
    for b in f.blocks.values():
        for s in b["succ"]:
            if s is not None and f.dominates_pos((s, 0), (b["id"], 0)) and s in f.dom().get(b["id"], set()):
                heads.add(s)
    bad = None
    for h in sorted(heads):
        # BFS over (position, progress, saved)
        start = ((h, 0), "none", False)
        seen = set()
        dq = deque([(start, [(h, 0)])])
        first = True
        while dq:
            (p, prog, saved), path = dq.popleft()
            if (p, prog, saved) in seen:
                continue
            seen.add((p, prog, saved))
            b, i = p
            blk = f.blocks[b]
            if not first and p == (h, 0):
                if prog == "none":
                    bad = (h, path)
                    break
                continue
            first = False
            if i < len(blk["el"]):
                np_, ns = prog, saved
                if p in saves:
                    ns = True
                if p in rewinds:
                    if np_ == "tentative":
                        np_ = "none"
                if p in ca.adv_pos:
                    np_ = "firm" if not ns else ("tentative" if np_ == "none" else np_)
                dq.append((((b, i + 1), np_, ns), path + [(b, i + 1)]))
            else:
                for s in blk["succ"]:
                    if s is None:
                        continue
                    np_ = prog
                    if (b, s) in adv_edges:
                        np_ = "firm" if not saved else ("tentative" if prog == "none" else prog)
                    if (b, s) in explicit:
                        np_ = "firm"
                    # leaving the loop (not dominated by the head) ends the exploration of this path
                    if h not in f.dom().get(s, set()):
                        continue
                    dq.append((((s, 0), np_, saved), path + [(s, 0)]))
        if bad:
            break
    where = "%s:%s" % (f.file, f.line)
    if bad:
        lines = f.path_lines(bad[1])
        chk.bad("C16.b", f, "content-loop-without-progress", "%s:%s" % (f.file, lines[0] if lines else f.line),
                "a way round the loop saves the cursor, reads a token, rewinds and continues without having consumed input that the rewind does not "
                "undo (lines %s): e.g. a comment directly in front of text makes the parser loop forever" % lines[:10], lines)
    else:
        chk.ok("C16.b", f, "parseElement: every way round its loops consumes input that is not rewound (%d loop heads, %d saves, %d rewinds)" % (len(heads), len(saves), len(rewinds)),
               where, "state machine over (position, progress, saved) with callee summaries", evals=len(heads) * 10)


def _ident(f, o):
    """identity of a String object expression: declaration id for variables (shadowed names differ), text otherwise"""
    n = f.nodes[f.strip(o)]
    if n["k"] == "DeclRefExpr":
        return "%s#%s" % (n["ref"]["n"], n["ref"]["id"][-5:])
    return q.no_casts(f.r(o))


def stale_pointers(prog, chk, rid, files=("Xml.cpp", "Json.cpp", "String.cpp")):
    chk.rule(rid, "ALIAS: a raw char pointer obtained from a String (operator char* / const char*) is re-derived after every call that may "
                  "reallocate that String (reserve, resize, append, ...) before it is used again", floor=2)
    realloc = ("reserve", "resize", "append", "prepend", "detach", "clear", "operator=", "operator+=", "printf", "replace", "attach")
    n = 0
    for f in prog.functions.values():
        if not any(f.file.endswith(x) for x in files):
            continue
        defs = q.local_defs(f)
        # pointer locals derived from String S: init/assignment whose rhs is S.operator char*() / S.operator const char*() (+ offset)
        derived = {}   # did -> (name, set of S texts, defining nodes)
        for did, dl in defs.items():
            for kind, nd, init in dl:
                if init is None:
                    continue
                for x in f.desc(init):
                    xn = f.nodes[x]
                    if xn["k"] == "CXXMemberCallExpr" and re.search(r"String::operator (const )?char \*$", xn.get("callee", "")):
                        o = q.call_object(f, x)
                        if o is not None:
                            S = _ident(f, o)
                            derived.setdefault(did, [None, set(), []])
                            derived[did][1].add(S)
                            derived[did][2].append(nd)
                # pointer derived from another derived pointer: dest = destStart + len
        changed = True
        while changed:
            changed = False
            for did, dl in defs.items():
                for kind, nd, init in dl:
                    if init is None:
                        continue
                    for x in f.desc(init):
                        xn = f.nodes[x]
                        if xn["k"] == "DeclRefExpr" and xn["ref"]["id"] in derived and xn["ref"]["id"] != did:
                            src = derived[xn["ref"]["id"]]
                            d = derived.setdefault(did, [None, set(), []])
                            if not src[1] <= d[1] or nd not in d[2]:
                                d[1] |= src[1]
                                if nd not in d[2]:
                                    d[2].append(nd)
                                    changed = True
        # only pointers go stale: a length or offset computed from two of them (`written = dest - destStart`) is a number
        def _is_ptr(did_):
            t_ = next((x["ref"].get("t") or "" for x in f.nodes if x["k"] == "DeclRefExpr" and x["ref"].get("id") == did_), "*")
            return "*" in t_ or "&" in t_ or "[" in t_
        derived = {d_: v_ for d_, v_ in derived.items() if _is_ptr(d_)}
        if not derived:
            continue
        for did, (nm, Ss, dn) in derived.items():
            uses = [i for i, x in enumerate(f.nodes) if x["k"] == "DeclRefExpr" and x["ref"]["id"] == did]
            inval = []
            for c in q.calls(f):
                cn = f.nodes[c]
                if cn["k"] not in ("CXXMemberCallExpr", "CXXOperatorCallExpr"):
                    continue
                short = cn.get("callee", "").split("::")[-1]
                if cn.get("cclsq") != "String" or short not in realloc or cn.get("csig", "").endswith(" const"):
                    continue
                o = q.call_object(f, c) if cn["k"] == "CXXMemberCallExpr" else (f.strip(cn["c"][1]) if len(cn["c"]) > 1 else None)
                if o is not None and _ident(f, o) in Ss:
                    inval.append(c)
            if not inval:
                continue
            n += 1
            redef = q.pos_of(f, dn)
            bad = None
            for c in inval:
                for u in uses:
                    up = f.node_pos(u)
                    if up in redef and any(u in f.desc(d) and f.nodes[d]["k"] != "DeclStmt" for d in dn):
                        pass
                    # a use is stale if reachable from the invalidating call without passing a re-definition of the pointer;
                    # the use inside a re-defining statement's right side (dest = destStart + ...) counts as a use of the OTHER pointer only
                    if f.find_path(f.node_pos(c), {up}, avoid=redef - {up}) is not None:
                        # uses that are themselves the left side of a re-definition are fine
                        par = f.up(u)
                        if par is not None and f.nodes[par]["k"] == "BinaryOperator" and f.nodes[par]["op"] == "=" and f.strip(f.nodes[par]["c"][0]) == u:
                            continue
                        if up in redef and par is not None and any(u in f.desc(d) for d in dn) and not any(f.strip(f.nodes[d]["c"][0]) != u for d in dn if f.nodes[d]["k"] == "BinaryOperator" and u in f.desc(d)):
                            continue
                        bad = (c, u)
                        break
                if bad:
                    break
            name = f.nodes[uses[0]]["ref"]["n"] if uses else "?"
            if bad:
                chk.bad(rid, f, "stale-pointer-after-reallocation:" + name, f.where(bad[1]),
                        "`%s` points into the buffer of %s and is used after `%s` may have reallocated that buffer, without being re-derived first: "
                        "writes go to freed memory" % (name, sorted(Ss)[0], f.r(bad[0])[:50]))
            else:
                chk.ok(rid, f, "`%s` is re-derived after every reallocating call on %s" % (name, sorted(Ss)[0]), "%s:%s" % (f.file, f.line), "%d reallocating calls, %d uses" % (len(inval), len(uses)), evals=len(inval) * max(1, len(uses)))
    return n


def run(prog, chk):
    chk.extra["explanation"] = EXPLANATION
    chk.rule("C16.a", "CUR: cursor bounds in the XML tokenizer", floor=4)
    chk.rule("C16.b", "CUR progress: tokenizer loops advance; the content loop of parseElement consumes input on every round (save/rewind aware)", floor=5)
    chk.rule("C16.c", "TBL: bytes that terminate or break a value in the reader are escaped by the writer; escape tables have equal length", floor=4)
    chk.rule("C16.f", "PAIRF: every store to pos.line is paired with a store to pos.lineStart", floor=3)      # (duplicated line accounting may legitimately be merged into a helper)
    summ = {X + "skipSpace": {"min_advance": 0}, X + "readToken": {"min_advance": 1}, X + "parseText": {"min_advance": 0},
            X + "parseElement": {"min_advance": 1}}
    rt, sk, pt, pa, pe = xfn(prog, X + "readToken"), xfn(prog, X + "skipSpace"), xfn(prog, X + "parseText"), xfn(prog, X + "parse", 2), xfn(prog, X + "parseElement")
    prolog_token_start(chk, "C16.g", pa)
    look_behind(prog, chk, "C16.i", ("Xml.cpp",))
    references_after_escaping(prog, chk, "C16.j")
    lookahead_rewound(prog, chk, "C16.l")
    from .server_common import block_reads_on_cursor
    block_reads_on_cursor(prog, chk, "C16.m", "Xml::Private", "Xml.cpp")
    reference_terminator_window(prog, chk, "C16.n")
    from .server_common import cursor_stores_not_null
    cursor_stores_not_null(prog, chk, "C16.o", "Xml::Private", "Xml.cpp")
    from .. import balance
    balance.check(prog, chk, "C16.k", [f for f in prog.functions.values() if f.file.endswith("Xml.cpp") and (f.cls or "").startswith("Xml::Private")], "Xml::Private")
    chk.rule("C16.h", "MPT: every cursor / line field the tokenizer advances is set again in Private::parse before the first tokenizer call (a Parser is reused across documents)", floor=2)
    from .server_common import parser_entry_resets
    parser_entry_resets(prog, chk, "C16.h", "Xml::Private", "Xml.cpp")
    for f, nm in ((rt, "readToken"), (sk, "skipSpace"), (pt, "parseText"), (pa, "parse")):
        ca = CursorAnalysis(f, ["this->pos.pos", "end"], summ, "this->pos")
        extra = set()
        if nm == "parse":
            # `pos.pos = end + 1` / `end + 2` are advances; found by the analysis.  skipSpace() inside the loop does not count.
            pass
        report_cursor(chk, "C16.a", "C16.b", f, ca, nm, progress=True, extra_adv=extra)
    content_loop_progress(chk, pe, summ)
    # summary used above: parseText's result is exactly the bytes between its entry position and its final position
    st0 = [n for n in pt.nodes if n["k"] == "DeclStmt" and any(d["n"] == "start" and "init" in d and q.no_casts(pt.r(d["init"])) == "this->pos.pos" for d in n["decls"])]
    def _is_cursor_at(c, x):
        """does expression x equal the cursor this->pos.pos where call c is evaluated: the cursor itself, or the value of the one
        store `pos.pos = x` that reaches c with neither side stored again in between"""
        kx = q.no_casts(pt.r(x))
        if kx == "this->pos.pos":
            return True
        cp = pt.node_pos(c)
        all_st = [s_ for s_ in q.stores(pt) if q.no_casts(pt.r(s_.lhs)) in ("this->pos.pos", kx)]
        for s_ in all_st:
            if q.no_casts(pt.r(s_.lhs)) != "this->pos.pos" or s_.op != "=" or s_.rhs is None or q.no_casts(pt.r(s_.rhs)) != kx:
                continue
            sp = pt.node_pos(s_.node)
            if sp is None or not pt.dominates_pos(sp, cp):
                continue
            if not any(o.node != s_.node and pt.node_pos(o.node) is not None and pt.find_path(sp, {pt.node_pos(o.node)}) is not None and
                       pt.find_path(pt.node_pos(o.node), {cp}, avoid={sp}) is not None for o in all_st):
                return True
        return False

    def _consumed_bytes(c):
        a_ = q.call_args(pt, c)
        if len(a_) != 2 or q.no_casts(pt.r(a_[0])) != "start":
            return False
        n_ = pt.nodes[pt.strip(a_[1])]
        while n_["k"] == "ParenExpr":
            n_ = pt.nodes[pt.strip(n_["c"][0])]
        return n_["k"] == "BinaryOperator" and n_.get("op") == "-" and q.no_casts(pt.r(n_["c"][1])) == "start" and _is_cursor_at(c, n_["c"][0])
    att = [c for c in q.calls(pt) if pt.nodes[c].get("callee") == "String::attach" and _consumed_bytes(c)]
    asg = [s for s in q.stores(pt) if q.no_casts(pt.r(s.lhs)) == "text" and "unescapeString" in pt.r(s.rhs)]
    if st0 and att and asg and not [s for s in q.stores(pt) if q.no_casts(pt.r(s.lhs)) == "start"]:
        chk.ok("C16.b", pt, "parseText: text = unescape(bytes[start, pos)), start = entry position (non-empty text => input consumed)", "%s:%s" % (pt.file, pt.line), "shape of the result construction", evals=3)
    else:
        chk.bad("C16.b", pt, "parsetext-result-not-from-consumed-bytes", "%s:%s" % (pt.file, pt.line), "parseText must build its result from exactly the bytes between its entry position and where it stops (the content loop's progress argument relies on it)")
    # ------------------------------------------------------------------ c
    esc = xfn(prog, X + "escapeString")
    ts = [f for f in prog.functions.values() if f.name == "Xml::Element::toString"]
    if not ts:
        raise AnalysisBroken("Xml::Element::toString not found")
    ts = ts[0]
    # reader: attribute value stop set from readToken's endChars literal
    # (a char array initialised from a literal whose first byte is overwritten with the quote, or from a brace list `{quote, '\r', '\n', 0}`)
    stopc = None
    for n_ in rt.nodes:
        if n_["k"] != "DeclStmt":
            continue
        for d_ in n_["decls"]:
            if not re.search(r"char ?\[\d+\]$", (d_.get("t") or "").replace("const ", "")) or d_.get("init") is None:
                continue
            consts = set()
            for x in [rt.strip(d_["init"])] + list(rt.desc(d_["init"])):
                nx = rt.nodes[x]
                if nx["k"] == "StringLiteral" and nx.get("bytes"):
                    consts |= set(nx["bytes"][1:])          # the first byte is a placeholder for the quote
                elif nx["k"] in ("CharacterLiteral", "IntegerLiteral"):
                    v_ = fin.eval_expr(rt, x, {})
                    if isinstance(v_, int) and v_:
                        consts.add(v_)
            if {10, 13} <= consts and len(consts) <= 4:
                stopc = consts
    lit = [stopc] if stopc else []
    attr_special = set(stopc) | {34, 39, 38} if stopc else set()
    if not lit:
        raise AnalysisBroken("readToken: attribute stop set literal not found")
    # writer: escapeChars global + the replace() calls in toString for attributes
    gc = prog.globals.get("Xml::Private::escapeChars")
    gs = prog.globals.get("Xml::Private::escapeStrings")
    if gc is None or gs is None or not gc["strings"]:
        raise AnalysisBroken("escape tables Xml::Private::escapeChars / escapeStrings not found")
    chars = set(gc["strings"][0])
    nstr = gs.get("init_count") or len(gs["strings"])
    # each entity name must be the one unescapeString maps back to the same character: positions correspond
    order_chars = list(gc["strings"][0])
    names = [bytes(x).decode("latin1") for x in gs["strings"]]
    std = {39: "apos", 34: "quot", 38: "amp", 60: "lt", 62: "gt"}
    rep = set()
    for c in q.calls(ts):
        if ts.nodes[c].get("callee") == "String::replace":
            a = q.call_args(ts, c)
            for x in ts.desc(a[0]):
                if ts.nodes[x]["k"] == "StringLiteral" and ts.nodes[x].get("bytes"):
                    rep.add(ts.nodes[x]["bytes"][0])
    attr_writer = chars | rep
    miss = sorted(attr_special - attr_writer)
    if miss:
        chk.bad("C16.c", ts, "attribute-byte-not-escaped:" + ",".join(str(b) for b in miss), "%s:%s" % (ts.file, ts.line),
                "the tokenizer ends or rejects a quoted attribute value at the bytes %s, but the writer emits %s raw inside attribute values: such an "
                "element cannot be parsed back" % (sorted(attr_special), miss))
    else:
        chk.ok("C16.c", ts, "attribute values: reader-special bytes %s all escaped by the writer" % sorted(attr_special), "%s:%s" % (ts.file, ts.line), "stop set vs escapeChars + replace()", evals=len(attr_special))
    text_special = {60, 38}
    stop_t = [n for n in pt.nodes if n["k"] == "StringLiteral" and n.get("bytes") and 60 in n["bytes"]]
    if stop_t and text_special <= chars:
        chk.ok("C16.c", esc, "text nodes: '<' and '&' are escaped by the writer", "%s:%s" % (esc.file, esc.line), "escapeChars", evals=2)
    else:
        chk.bad("C16.c", esc, "text-byte-not-escaped", "%s:%s" % (esc.file, esc.line), "text nodes end at '<' and entities start at '&' in the reader; the writer must escape both")
    if nstr is not None and nstr == len(order_chars) and gs.get("array_size") == nstr and all(std.get(c) == n for c, n in zip(order_chars, names)):
        chk.ok("C16.c", esc, "escapeChars and escapeStrings have %d entries each, position by position the predefined XML entity" % nstr, "%s:%s" % (esc.file, esc.line), "table contents from the initialisers", evals=nstr)
    elif nstr is not None and nstr == len(order_chars):
        wrong = [(chr(c), n) for c, n in zip(order_chars, names) if std.get(c) != n]
        chk.bad("C16.c", esc, "escape-tables-misaligned", "%s:%s" % (esc.file, esc.line), "escapeChars[i] and escapeStrings[i] do not name the same entity: %s" % wrong[:3])
    else:
        chk.bad("C16.c", esc, "escape-tables-differ-in-length", "%s:%s" % (esc.file, esc.line), "escapeChars has %d entries, escapeStrings %s: escapeStrings[escapeChar - escapeChars] indexes out of range / the wrong entity" % (len(chars), nstr))
    escape_table_reached(prog, chk, "C16.p", esc, sorted(chars))
    numeric_references_translated(prog, chk, "C16.q", ts)
    # every text/attribute value written goes through escapeString
    raw = []
    for c in q.calls(ts):
        if ts.nodes[c].get("callee") == "String::append":
            a = q.call_args(ts, c)
            t = q.no_casts(ts.r(a[0]))
            if re.search(r"toString\(\)$|^\*i$|operator\*\(\)$", t) and "escapeString" not in t and "toElement" not in t:
                raw.append(c)
    if raw:
        chk.bad("C16.c", ts, "value-written-unescaped", ts.where(raw[0]), "`%s` writes a text/attribute value without escapeString()" % ts.r(raw[0])[:60])
    else:
        chk.ok("C16.c", ts, "all attribute and text values pass through escapeString()", "%s:%s" % (ts.file, ts.line), "append() arguments", evals=3)
    # ------------------------------------------------------------------ d
    stale_pointers(prog, chk, "C16.d", ("Xml.cpp",))
    un = xfn(prog, X + "unescapeString")
    chk.rule("C16.d2", "VSA: unescapeString allocates str.length() bytes and writes at most one byte per consumed source byte outside numeric references (which consume >= 4 and produce <= 4)", floor=1)
    res = [n for n in un.nodes if n["k"] == "DeclStmt" and any(d["n"] == "result" for d in n["decls"])]
    wr = [s for s in q.stores(un) if re.match(r"^\*dest\+\+$", q.no_casts(un.r(s.lhs)))]
    res_init = [d["init"] for n in res for d in n["decls"] if d["n"] == "result" and d.get("init") is not None]
    sized = bool(res) and ("str.length()" in un.r(res[0]["i"]) or any("str.length()" in q.no_casts(q.xr(un, x)) for i_ in res_init for x in [i_] + list(un.desc(i_))))
    if sized and wr:
        chk.ok("C16.d2", un, "result(str.length()); %d single-byte writes" % len(wr), "%s:%s" % (un.file, un.line), "allocation and store shapes", evals=len(wr))
    else:
        chk.bad("C16.d2", un, "unescape-buffer", "%s:%s" % (un.file, un.line), "unescapeString must size its buffer by the source length and write byte-wise")
    # ------------------------------------------------------------------ e
    R.release_idiom(prog, chk, "C16.e1", ("Xml::Variant",), floor=1)
    R.share_idiom(prog, chk, "C16.e2", ("Xml::Variant",), floor=2)
    R.handle_rule_of_three(prog, chk, "C16.e3", ("Xml::Variant",))
    R.clone_into_fresh(prog, chk, "C16.e4", ("Xml::Variant",), floor=3)
    R.exclusive_guard(prog, chk, "C16.e5", ("Xml::Variant",), floor=2)
    R.tag_casts(prog, chk, "C16.e6", ("Xml::Variant",), floor=4)
    R.acquire_before_release(prog, chk, "C16.e7", ("Xml::Variant",), floor=1)
    R.own_payload_after_release(prog, chk, "C16.e8", fams=("Xml::Variant",), floor=1)
    R.argument_after_release(prog, chk, "C16.e9", fams=("Xml::Variant",), floor=1)
    # ------------------------------------------------------------------ f
    for f in (rt, sk, pt, pa):
        for s in q.stores(f):
            if q.no_casts(f.r(s.lhs)) != "this->pos.line" or s.op == "=" and fin.eval_expr(f, s.rhs, {}) == 1:
                continue
            ls = [x.node for x in q.stores(f) if q.no_casts(f.r(x.lhs)) == "this->pos.lineStart"]
            if ls and C.paths_all_pass(f, f.node_pos(s.node), q.pos_of(f, ls)):
                chk.ok("C16.f", f, "line increment at line %s paired with lineStart" % f.nodes[s.node]["l"], f.where(s.node), "PAIRF", evals=2)
            else:
                chk.bad("C16.f", f, "line-without-linestart", f.where(s.node), "pos.line is incremented without re-seating pos.lineStart: the reported column counts from the previous line")
    # a rewind of the cursor restores the line accounting with it
    chk.rule("C16.f2", "PAIRF: wherever the cursor is rewound to a saved position after calls that may count line breaks, the line number and line "
                       "start are restored with it (whole-position assignment, or all three fields)", floor=1)
    counters = set()
    for g in prog.functions.values():
        if g.file.endswith("Xml.cpp") and any(q.no_casts(g.r(s.lhs)) == "this->pos.line" and s.op != "=" for s in q.stores(g)):
            counters.add(g.gname)
    for f in [pe, pa, pt, rt]:
        defs = q.local_defs(f)
        snaps = {}   # decl id -> (name, what) for locals initialised from this->pos or this->pos.pos
        for n in f.nodes:
            if n["k"] != "DeclStmt":
                continue
            for d in n["decls"]:
                if "init" not in d:
                    continue
                ini = f.strip(d["init"])
                if f.nodes[ini]["k"] == "CXXConstructExpr" and f.nodes[ini].get("copyctor") and f.nodes[ini]["c"]:
                    ini = f.strip(f.nodes[ini]["c"][0])
                t = q.no_casts(f.r(ini))
                if t in ("this->pos", "this->pos.pos"):
                    snaps[d["id"]] = (d["n"], t, n["i"])
        for sid, (nm, what, dnode) in snaps.items():
            # rewinds from this snapshot
            rew = []
            for s in q.stores(f):
                lt = q.no_casts(f.r(s.lhs))
                rt_ = q.no_casts(f.r(s.rhs)) if s.rhs is not None else ""
                if lt == "this->pos" and rt_ == nm:
                    rew.append((s, "whole"))
                elif lt == "this->pos.pos" and rt_ in (nm, nm + ".pos"):
                    rew.append((s, "pointer"))
            for s, kind in rew:
                between = [c for c in q.calls(f) if f.nodes[c].get("callee", "") in counters or any(f.nodes[c].get("callee", "").endswith(x.split("::")[-1]) and "Xml" in f.nodes[c].get("callee", "") for x in counters)]
                between = [c for c in between if q.reaches(f, dnode, c) and q.reaches(f, c, s.node)]
                if kind == "whole" or not between:
                    chk.ok("C16.f2", f, "rewind to `%s` restores the whole position" % nm, f.where(s.node), "struct assignment" if kind == "whole" else "no line-counting call in between", evals=2)
                    continue
                ln = [x.node for x in q.stores(f) if q.no_casts(f.r(x.lhs)) == "this->pos.line" and x.op == "="]
                ls = [x.node for x in q.stores(f) if q.no_casts(f.r(x.lhs)) == "this->pos.lineStart" and x.op == "="]
                if ln and ls and C.paths_all_pass(f, f.node_pos(s.node), q.pos_of(f, ln)) and C.paths_all_pass(f, f.node_pos(s.node), q.pos_of(f, ls)):
                    chk.ok("C16.f2", f, "rewind of pos.pos paired with line and lineStart", f.where(s.node), "PAIRF", evals=3)
                else:
                    chk.bad("C16.f2", f, "cursor-rewound-without-line-accounting", f.where(s.node),
                            "the cursor is set back to the saved `%s` after `%s` may have counted line breaks, but pos.line / pos.lineStart keep their advanced values: "
                            "the same line breaks are counted again and reported lines lie beyond the end of the text" % (nm, f.r(between[0])[:30]))
    # line breaks skipped without accounting (the processing-instruction loop): findOneOf stops at \r \n and steps over them
    for f in (pa,):
        fo = [c for c in q.calls(f) if f.nodes[c].get("callee") == "String::findOneOf"]
        for c in fo:
            a = q.call_args(f, c)
            st = CursorAnalysis(f, []).set_of(a[1]) or set()
            if {10, 13} & st:
                lines = [s for s in q.stores(f) if q.no_casts(f.r(s.lhs)) == "this->pos.line" and s.op != "="]
                skips = [x for x in q.calls(f) if f.nodes[x].get("callee", "").endswith("skipSpace") and q.reaches(f, c, x)]
                if lines:
                    chk.ok("C16.f", f, "line breaks found by the scan are counted", f.where(c), "pos.line updated", evals=1)
                else:
                    chk.bad("C16.f", f, "line-break-skipped-uncounted", f.where(c),
                            "the scan stops at CR/LF and steps over the byte (pos.pos = end + 1) without updating pos.line/pos.lineStart: error columns after a "
                            "multi-line processing instruction can exceed the line")


def prolog_token_start(chk, rid, pa):
    """typestate: the test that recognises a processing instruction in the prolog (`*pos.pos == '<' && pos.pos[1] == '?'`) is only
    evaluated at a token start, i.e. white space has been skipped since the cursor was last moved (and since the entry)"""
    chk.rule(rid, "MPT/typestate: every path from the entry or from a cursor assignment to the evaluation of the prolog's processing-instruction "
                  "test passes skipSpace() (white space, line breaks and comments between two processing instructions are allowed)", floor=2)
    conds = []
    for b in pa.blocks.values():
        c = b.get("cond")
        if c is None:
            continue
        cn_ = pa.nodes[pa.strip(c)]
        # `*pos.pos == '<'` / `pos.pos[1] == '?'` in either polarity and operand order
        if cn_["k"] == "BinaryOperator" and cn_.get("op") in ("==", "!=") and len(cn_["c"]) == 2:
            vals_ = [fin.eval_expr(pa, x_, {}) for x_ in cn_["c"]]
            txt_ = [q.no_casts(pa.r(x_)) for x_ in cn_["c"]]
            for k_ in (0, 1):
                if (vals_[k_] == 60 and txt_[1 - k_] == "*this->pos.pos") or (vals_[k_] == 63 and txt_[1 - k_] == "this->pos.pos[1]"):
                    conds.append(b["id"])
    if not conds:
        raise AnalysisBroken("Xml::Private::parse: the processing-instruction test of the prolog was not found")
    head = max(conds)          # the first-evaluated operand of the loop condition (clang numbers blocks from the end)
    sk = [c for c in q.calls(pa) if pa.nodes[c].get("callee", "").endswith("::skipSpace")]
    skp = q.pos_of(pa, sk)
    # where the test starts to be evaluated (the block may begin with other statements - a skipSpace() call at the loop top)
    hc_ = pa.blocks[head]["cond"]
    hp_ = [pa.node_pos(x_) for x_ in [pa.strip(hc_)] + list(pa.desc(hc_)) if pa.node_pos(x_) is not None and pa.node_pos(x_)[0] == head]
    target = {min(hp_)} if hp_ else {(head, 0)}
    where = "%s:%s" % (pa.file, pa.line)
    p0 = pa.find_path(pa.entry_pos(), target, avoid=skp, after_src=False)
    if p0 is None:
        chk.ok(rid, pa, "leading white space skipped before the first test", where, "MPT from the entry", evals=1)
    else:
        chk.bad(rid, pa, "prolog-test-before-skipspace:entry", where, "the prolog test is reached from the entry without skipSpace(): leading white space "
                "or a comment in front of `<?xml` makes the document fail", pa.path_lines(p0))
    moves = [s for s in q.stores(pa) if q.no_casts(pa.r(s.lhs)) == "this->pos.pos"]
    moves = [s for s in moves if pa.node_pos(s.node) is not None and pa.find_path(pa.node_pos(s.node), target) is not None]
    for s in moves:
        p = pa.find_path(pa.node_pos(s.node), target, avoid=skp)
        if p is None:
            chk.ok(rid, pa, "skipSpace between `%s` and the next prolog test" % pa.r(s.node)[:40], pa.where(s.node), "MPT", evals=1)
        else:
            chk.bad(rid, pa, "prolog-test-before-skipspace:" + q.no_casts(pa.r(s.rhs))[:30], pa.where(s.node),
                    "after `%s` the processing-instruction test is evaluated again without skipSpace(): white space, a line break or a comment "
                    "between two processing instructions ends the prolog early and the second `<?...?>` is parsed as the root element" % pa.r(s.node)[:40],
                    pa.path_lines(p))


def look_behind(prog, chk, rid, files=("Xml.cpp", "Json.cpp")):
    """CUR: a scan result `p = findOneOf(origin, ...)` satisfies p >= origin and nothing more; reading p[-n] looks at bytes in front of
    the scan origin (already consumed as part of another token, e.g. the `<!--` opener) unless a dominating test establishes
    p - origin >= n"""
    chk.rule(rid, "CUR: no look-behind past the scan origin: p[-n] on a pointer returned by a forward search from `origin` needs a dominating "
                  "test that p lies at least n bytes behind `origin`", floor=0)
    n_sites = 0
    for f in [f for f in prog.functions.values() if any(f.file.endswith(x) for x in files)]:
        defs = q.local_defs(f)
        for i, n in enumerate(f.nodes):
            if n["k"] != "ArraySubscriptExpr" or f.node_pos(i) is None:
                continue
            idx = fin.eval_expr(f, n["c"][1], {})
            if idx is None or idx >= 0:
                continue
            b = f.nodes[f.strip(n["c"][0])]
            if b["k"] != "DeclRefExpr" or b["ref"].get("dk") != "local":
                continue
            rd = q.reaching_def(f, b["ref"]["id"], i, defs) or q.single_def(f, b["ref"]["id"], defs)
            if rd is None:
                continue
            cn = f.nodes[f.strip(rd)]
            if cn["k"] != "CallExpr" or not re.search(r"find", cn.get("callee", "")) or not q.call_args(f, f.strip(rd)):
                continue
            n_sites += 1
            origin = q.no_casts(f.r(q.call_args(f, f.strip(rd))[0]))
            p = b["ref"]["n"]
            rel = fin.relations(f, f.node_pos(i), render=lambda x: q.no_casts(f.r(x)))
            need = -idx
            ok = any((l == "(%s + %d)" % (origin, k) and r == p and ((op == "<=" and k >= need) or (op == "<" and k >= need - 1))) or
                     (r == "(%s - %s)" % (p, origin) and op in ("<=", "<") and fin_const(l) is not None and fin_const(l) + (1 if op == "<" else 0) >= need)
                     for (l, op, r) in rel for k in range(0, 8))
            if ok:
                chk.ok(rid, f, "%s[%d] with %s - %s >= %d established" % (p, idx, p, origin, need), f.where(i), "dominating comparison", evals=2)
            else:
                chk.bad(rid, f, "look-behind-past-scan-origin:%s[%d]" % (p, idx), f.where(i),
                        "`%s` was found by a forward search from `%s`; `%s[%d]` may lie in front of that origin (bytes already consumed, e.g. the "
                        "dashes of a `<!--` opener are taken for the dashes of `-->`)" % (p, origin, p, idx))
    chk.extra["look_behind_sites"] = n_sites


def fin_const(t):
    try:
        return int(t)
    except Exception:
        return None


def references_after_escaping(prog, chk, rid):
    """The writer produces numeric character references (`&#10;`) for bytes the entity table does not cover.  escapeString turns every
    `&` into `&amp;`: a value may be handed to it only while it holds raw text, and references are put in only afterwards."""
    chk.rule(rid, "ORD (typestate raw -> escaped -> with references): a replace() that introduces `&...;` references is applied only to the "
                  "result of escapeString, and no escapeString call takes a value after such a replace", floor=1)      # (the vacuous case counts as one instance)
    n = 0
    for f in [f for f in prog.functions.values() if f.file.endswith("Xml.cpp") and f.blocks]:
        defs = q.local_defs(f)
        for c in q.calls(f):
            nd = f.nodes[c]
            if nd["k"] != "CXXMemberCallExpr" or not (nd.get("callee") or "").endswith("String::replace"):
                continue
            args = q.call_args(f, c)
            if len(args) < 2:
                continue
            lits = [f.nodes[x] for x in [f.strip(args[1])] + list(f.desc(args[1])) if f.nodes[x]["k"] == "StringLiteral"]
            if not lits or not (lits[0].get("bytes") or [0])[0] == 38:      # replacement starts with '&'
                continue
            o = q.call_object(f, c)
            on = f.nodes[f.strip(o)] if o is not None else None
            if on is None or on["k"] != "DeclRefExpr" or on["ref"].get("dk") != "local":
                continue
            n += 1
            vid, vn = on["ref"]["id"], on["ref"]["n"]
            rd = q.reaching_def(f, vid, c, defs)
            from_escape = rd is not None and any((f.nodes[x].get("callee") or "").endswith("::escapeString") for x in [f.strip(rd)] + list(f.desc(rd)))
            later = [e for e in q.calls(f) if (f.nodes[e].get("callee") or "").endswith("::escapeString") and q.reaches(f, c, e) and
                     any(f.nodes[x]["k"] == "DeclRefExpr" and f.nodes[x]["ref"].get("id") == vid for a in q.call_args(f, e) for x in [f.strip(a)] + list(f.desc(a)))]
            if later:
                chk.bad(rid, f, "reference-escaped-again:" + vn, f.where(later[0]),
                        "`%s` received the reference %s and is passed to escapeString afterwards: its `&` is escaped once more, the parser "
                        "reads the literal text of the reference instead of the byte" % (vn, bytes(lits[0].get("bytes") or []).decode("latin1")), evals=2)
            elif not from_escape:
                chk.bad(rid, f, "reference-into-unescaped-value:" + vn, f.where(c),
                        "`%s` receives a character reference but does not come from escapeString: raw `&`, `<`, quotes in it stay unescaped "
                        "(or are escaped after the reference was inserted)" % vn, evals=2)
            else:
                chk.ok(rid, f, "reference %s inserted into the escaped value `%s`" % (bytes(lits[0].get("bytes") or []).decode("latin1"), vn), f.where(c), "reaching definition is escapeString(..), no later escaping", evals=2)
    if not n:
        # whether the writer needs references at all is rule C16.c's business (bytes that break a value in the reader must be escaped):
        # without any this rule has nothing to order
        chk.ok(rid, "Xml.cpp", "no replace() introduces a character reference", "", "nothing to order; C16.c decides whether the writer needs one", nontrivial=False)


def lookahead_rewound(prog, chk, rid):
    """parseElement looks ahead with readToken() to tell a tag from text.  readToken() skips white space (and may fail on text such as
    " /x"): whatever the look-ahead did, the text has to be read from the saved position - on every outcome, not only the successful one"""
    chk.rule(rid, "MPT: in the content loop of parseElement every path from the look-ahead readToken() to parseText() passes the store that "
                  "puts the cursor back to the position saved before the look-ahead", floor=1)
    f = xfn(prog, X + "parseElement")
    def saved_what(d):
        t = q.no_casts(f.r(d["init"])).replace("copy(", "").rstrip(")")
        return t if t in ("this->pos", "this->pos.pos") else None
    saves = [(n["i"], d) for n in f.nodes if n["k"] == "DeclStmt" for d in n["decls"] if d.get("init") is not None and
             saved_what(d) and C.loop_blocks(f, n["i"])]
    texts = [c for c in q.calls(f) if (f.nodes[c].get("callee") or "").endswith("::parseText")]
    if not texts:
        raise AnalysisBroken("parseElement: parseText call not found")
    if not saves:
        chk.bad(rid, f, "lookahead-position-not-saved", "%s:%s" % (f.file, f.line),
                "the content loop does not save the cursor before its look-ahead: text cannot be read from where the look-ahead started")
        return
    for decl, d in saves:
        looks = [c for c in q.calls(f) if (f.nodes[c].get("callee") or "").endswith("::readToken") and f.dominates_pos(f.node_pos(decl), f.node_pos(c)) and
                 C.loop_blocks(f, c) and f.find_path(f.node_pos(decl), {f.node_pos(c)}, avoid=q.pos_of(f, texts)) is not None]
        looks = [c for c in looks if not any(o != c and o in looks and f.dominates_pos(f.node_pos(o), f.node_pos(c)) for o in looks)][:1]
        restores = [st.node for st in q.stores(f) if q.no_casts(f.r(st.lhs)) == saved_what(d) and st.rhs is not None and
                    q.no_casts(f.r(st.rhs)).replace("copy(", "").rstrip(")") == d["n"]]
        for c in looks:
            for t in texts:
                pth = f.find_path(f.node_pos(c), {f.node_pos(t)}, avoid=q.pos_of(f, restores) | {f.node_pos(decl)})
                if pth is not None:
                    chk.bad(rid, f, "text-read-after-unrewound-lookahead", f.where(t),
                            "a path (lines %s) reaches parseText() after the look-ahead readToken() without `this->pos = %s`: when the "
                            "look-ahead fails (text like \" /x\" - a '/' that does not start '/>') the white space it skipped is lost from "
                            "the text node" % (f.path_lines(pth)[:8], d["n"]), evals=2)
                else:
                    chk.ok(rid, f, "text is read from the position saved before the look-ahead", f.where(t), "MPT through `this->pos = %s`" % d["n"], evals=2)


def reference_terminator_window(prog, chk, rid):
    """unescapeString looks for the `;` that ends a reference and falls back to a literal `&` when there is none.  Evaluated over
    positions of the found `;`: none at all must fall back (the pointer is used otherwise); every position inside the value - up to
    its very last byte - must be taken as a reference (the writer ends a value with `&quot;` whenever the text ends with a quote)."""
    chk.rule(rid, "FIN: the guards between `sequenceEnd = find(src, ';')` and its first use, evaluated for sequenceEnd = null and for every "
                  "offset inside the value: null falls back to a literal `&`, every offset inside the value reaches the translation", floor=1)
    f = xfn(prog, X + "unescapeString")
    where = "%s:%s" % (f.file, f.line)
    finds = []
    for n in f.nodes:
        if n["k"] == "DeclStmt":
            for d in n["decls"]:
                if d.get("init") is not None and C.loop_blocks(f, n["i"]):
                    ini = f.nodes[f.strip(d["init"])]
                    a = q.call_args(f, ini["i"]) if ini["k"] == "CallExpr" and (ini.get("callee") or "").startswith("String::find") else []
                    if len(a) == 2 and fin.eval_expr(f, a[1], {}) == 59:
                        finds.append((n["i"], d))
    ends = [d for n in f.nodes if n["k"] == "DeclStmt" for d in n["decls"] if d.get("init") is not None and re.search(r"\+ ?str\.length\(\)", q.no_casts(q.xr(f, d["init"])))]      # the length may sit in a local
    if not finds or not ends:
        raise AnalysisBroken("unescapeString: the search for ';' or the end-of-value pointer was not found")
    dn, d = finds[0]
    fname, ename = d["n"], ends[0]["n"]
    cur = q.no_casts(f.r(q.call_args(f, f.strip(d["init"]))[0]))
    uses = [c for c in q.calls(f) if (f.nodes[c].get("callee") or "").endswith("String::attach") and
            (fname in f.r(c) or any(fname in q.no_casts(q.xr(f, a_)) or _init_mentions(f, a_, fname) for a_ in q.call_args(f, c)))]      # the length may sit in a local
    lits = [s_.node for s_ in q.stores(f) if s_.rhs is not None and fin.eval_expr(f, s_.rhs, {}) == 38 and "dest" in f.r(s_.lhs)]
    if not uses or not lits:
        raise AnalysisBroken("unescapeString: translation (attach) or the literal fall-back store not found")
    blk = f.node_pos(dn)[0]
    SRC, END = 1000, 1010
    bad = None
    n_ev = 0
    for x in [0] + list(range(SRC + 1, END)):
        val = {cur: SRC, ename: END, fname: x}
        seen, end, fv = fin.walk_vals(f, blk, val, limit=60)
        n_ev += 1
        first = next((e for e in seen if e in uses or e in lits), None)
        # the walk starts at the top of the block: `++src` before the search has been applied to SRC already
        if first is None:
            bad = ("x", "for `%s` = %s the guards depend on something else (%s)" % (fname, x, end))
            break
        if x == 0 and first in uses:
            bad = ("null", "when no `;` follows, `%s` is null and is used all the same (`%s`)" % (fname, q.no_casts(f.r(first))[:50]))
            break
        if x != 0 and first in lits:
            bad = ("inside", "a reference whose `;` is byte %d of a %d-byte value is taken for unterminated and copied literally" % (x - SRC, END - SRC))
            break
    if bad:
        chk.bad(rid, f, "reference-terminator-" + bad[0], where,
                "unescapeString: %s - `v=\"x&gt;\"` (what the writer emits for the text `x>`) parses as the literal text `x&gt;`: writing and "
                "parsing is no longer the identity" % bad[1], evals=n_ev)
    else:
        chk.ok(rid, f, "null falls back, every `;` inside the value ends a reference", where, "%d positions of the found `;` evaluated" % n_ev, evals=n_ev)


def escape_table_reached(prog, chk, rid, esc, chars):
    """the writer consults its escape table only for bytes that a cheap range test lets through: each character of the table has to be
    one of them, otherwise it is copied raw although the table lists it"""
    chk.rule(rid, "FIN: for every character of Xml::Private::escapeChars the tests that dominate the table lookup in escapeString evaluate "
                  "to the edge leading to the lookup (the fast path that copies a byte unescaped does not take it)", floor=5)
    look = [c for c in q.calls(esc) if (esc.nodes[c].get("callee") or "") in ("String::find", "strchr", "String::findOneOf") and
            "escapeChars" in q.no_casts(esc.r(c))]
    if not look:
        raise AnalysisBroken("escapeString: the lookup in escapeChars was not found")
    c = look[0]
    args = q.call_args(esc, c)
    byte = args[-1]
    keys = {fin.key(esc, byte), q.no_casts(q.xr(esc, byte))}
    atoms = [a for a in fin.dominating_atoms(esc, esc.node_pos(c)) if a[0] != "case"]
    for v in chars:
        val = {k: v for k in keys}
        off = None
        for nd, truth in atoms:
            x = fin.eval_expr(esc, nd, val)
            if x is not None and bool(x) != bool(truth):
                off = nd
                break
        if off is None:
            chk.ok(rid, esc, "%r reaches the escape table" % chr(v), esc.where(c), "%d dominating test(s) evaluated for the byte" % len(atoms), evals=len(atoms) + 1)
        else:
            chk.bad(rid, esc, "escape-char-bypasses-table:%d" % v, esc.where(off),
                    "for the byte %r the test `%s` sends escapeString down the path that copies it raw: the table lists it but is never "
                    "consulted - a text node containing it is written unescaped and the output does not parse back to the same tree" % (
                        chr(v), q.no_casts(esc.r(esc.strip(off)))[:60]), evals=len(atoms) + 1)


def numeric_references_translated(prog, chk, rid, ts):
    """the writer spells some bytes of an attribute value as numeric character references (`&#13;`, `&#10;`): the reader is the only
    place that turns them back, so its numeric branch has to translate at least every reference the writer emits"""
    chk.rule(rid, "TBL: for every numeric character reference `&#N;` that Element::toString writes, the tests between the successful scan of "
                  "the number in unescapeString and the translation `Unicode::toString(value)` evaluate, for value = N, to the edge that translates", floor=1)
    un = xfn(prog, X + "unescapeString")
    emitted = set()
    for f in (ts, xfn(prog, X + "escapeString")):
        for n in f.nodes:
            if n["k"] == "StringLiteral" and n.get("bytes"):
                for m in re.finditer(r"&#(\d+);", bytes(b & 0xFF for b in n["bytes"]).decode("latin1")):
                    emitted.add(int(m.group(1)))
    if not emitted:
        raise AnalysisBroken("Element::toString: no numeric character reference literal found (the writer's `&#13;` / `&#10;` expected)")
    tr = [c for c in q.calls(un) if (un.nodes[c].get("callee") or "").startswith("Unicode::toString") or (un.nodes[c].get("callee") or "") == "Unicode::append"]
    sc = [c for c in q.calls(un) if (un.nodes[c].get("callee") or "").endswith("scanf") or (un.nodes[c].get("callee") or "") in ("strtoul", "strtol", "String::toUInt")]
    if not tr or not sc:
        raise AnalysisBroken("unescapeString: the scan of the number or its translation through Unicode was not found")
    a0 = q.call_args(un, tr[0])
    vkey = fin.key(un, a0[0])
    sb = un.node_pos(sc[0])[0]
    for N in sorted(emitted):
        val = {vkey: N, q.no_casts(q.xr(un, a0[0])): N, fin.key(un, sc[0]): 1}
        seen, end, _fv = fin.walk_vals(un, sb, val, limit=60, stop_at=tr[0], stop_at_loop_back=True)
        if end == "stop":
            chk.ok(rid, un, "&#%d; written by toString is translated by the reader" % N, un.where(tr[0]), "guards between the scan and the translation evaluated for the value", evals=len(seen) + 1)
        elif isinstance(end, str) and end.startswith("undetermined"):
            raise AnalysisBroken("unescapeString: a test between the scan of the number and its translation could not be evaluated for %d (%s)" % (N, end))
        else:
            conds = [e for e in seen if un.nodes[e]["k"] == "BinaryOperator" and un.nodes[e].get("op") in ("<", "<=", ">", ">=", "==", "!=") and vkey in fin.key(un, e)]
            chk.bad(rid, un, "numeric-reference-not-translated:%d" % N, un.where(conds[-1]) if conds else un.where(sc[0]),
                    "Element::toString writes the byte %d of an attribute value as `&#%d;`, but for that value the tests after the scan (%s) keep "
                    "unescapeString from translating it: the value comes back with the six characters of the reference instead of the byte" % (
                        N, N, ", ".join(q.no_casts(un.r(e))[:30] for e in conds[-3:]) or "-"), evals=len(seen) + 1)


def _init_mentions(f, node, name):
    """is `node` a local whose one definition mentions `name`?"""
    n = f.nodes[f.strip(node)]
    if n["k"] != "DeclRefExpr" or n["ref"].get("dk") != "local":
        return False
    ini = q.single_def(f, n["ref"]["id"], q.local_defs(f))
    return ini is not None and name in q.no_casts(f.r(ini))
