"""C11 — Mutex, Semaphore, Signal, Monitor and Thread keep their contracts (POSIX branch)."""
import re
from .. import q, fin
from .. import containers as C
from ..facts import AnalysisBroken

EXPLANATION = (
    "Protocol-shape rules on the POSIX implementation (the compiled branch; the _WIN32 branch is outside the parsed program): "
    "(a) lock/unlock pairing by a lock-state dataflow over every path of Signal::set/reset/wait/wait(timeout) and Monitor::set, "
    "condition waits only with the lock held; (b) every access of the `signaled` flag lies inside the critical section (Monitor::wait*: "
    "caller holds the monitor); (c) every pthread_cond_(timed)wait is inside a loop, `return true` only on the true edge of a flag test made "
    "after the last wait, Monitor consumes the flag there; (d) set() stores the flag under the lock and then notifies (broadcast for "
    "Signal, signal for Monitor); (e) `return false` of the timed waits is control-dependent only on the timed primitive failing, and "
    "the absolute deadline is computed with consistent time units (dimension typing), normalised tv_nsec (interval analysis) and carry "
    "taken before the modulo; (f) the mutex is initialised recursive and tryLock maps to pthread_mutex_trylock; (g) Thread stores the "
    "handle only on successful creation, join returns the joined thread's value and clears the handle, the destructor joins, storage "
    "for the pthread objects is large enough; (h) Semaphore maps 1:1 to sem_post/sem_wait/sem_trywait. Not decided: the contracts "
    "under all interleavings as such, fairness, the behaviour of the pthread primitives.")


def fn(prog, name, nparams=None):
    c = [f for f in prog.functions.values() if f.name == name and (nparams is None or len(f.params) == nparams) and f.file.endswith(".cpp")]
    if not c:
        raise AnalysisBroken("anchor function not found: %s/%s" % (name, nparams))
    return c[0]


def callsn(f, name):
    return [i for i in q.calls(f) if f.nodes[i].get("callee") == name]


_WRAPPERS = {}      # csig -> "lock" / "unlock": members that do nothing to the mutex but take (release) it on every path


def lock_wrappers(prog, cls, mtext):
    """members of `cls` whose whole effect on the mutex is one acquisition (or one release) on every path: calling them on `this` is
    taking (releasing) the lock (Monitor::lock / Monitor::unlock used by a sibling member instead of the raw pthread call)"""
    out = {}
    for g in prog.functions.values():
        if g.clsq != cls or not g.blocks or not g.file.endswith(".cpp"):
            continue
        if not (callsn(g, "pthread_mutex_lock") or callsn(g, "pthread_mutex_unlock")) or callsn(g, "pthread_cond_wait") or callsn(g, "pthread_cond_timedwait"):
            continue
        for init, kind, want in ((0, "lock", 1), (1, "unlock", 0)):
            sin, sat = lock_state(g, mtext, init, use_wrappers=False)
            if not any(isinstance(v, str) for v in sat.values()) and sin.get(g.exit) == want:
                out[g.sig] = kind
    return out


def lock_state(f, mtext, init, use_wrappers=True):
    """forward dataflow: number of times the mutex named by argument text is held (0/1/'bad')"""
    def tr(st, e):
        if not isinstance(e, int):
            return st
        n = f.nodes[e]
        if use_wrappers and n["k"] == "CXXMemberCallExpr" and _WRAPPERS.get(n.get("csig")) and q.call_object(f, e) is not None and \
           f.nodes[f.strip(q.call_object(f, e))]["k"] == "CXXThisExpr":
            if _WRAPPERS[n["csig"]] == "lock":
                return "bad:lock-while-held" if st == 1 else (1 if st == 0 else st)
            return "bad:unlock-while-free" if st == 0 else (0 if st == 1 else st)
        if n["k"] == "CallExpr" and n.get("callee") in ("pthread_mutex_lock", "pthread_mutex_unlock"):
            if mtext in q.no_casts(f.r(e)) or any(mtext in q.no_casts(q.xr(f, a_)) for a_ in q.call_args(f, e)):     # mutex pointer kept in a local
                if n["callee"] == "pthread_mutex_lock":
                    return "bad:lock-while-held" if st == 1 else (1 if st == 0 else st)
                return "bad:unlock-while-free" if st == 0 else (0 if st == 1 else st)
        return st

    def join(a, b):
        return a if a == b else "bad:paths-disagree"
    return q.forward(f, init, tr, None, join)


def wait_outcomes(f, prims, fail_v, flag="this->signaled"):
    """typestate dataflow over a wait member: for every return statement the set of abstract situations in which it can return
    each value.  state components: T = the flag was seen set and no wait primitive ran since; P = the last wait primitive reported
    failure (timeout); K = the flag was cleared since T became true; plus the constant values of bool locals (so `return result;`
    is resolved per path).  returns [(return node, value True/False/None, T, P, K)]"""
    flags = sorted(d["n"] for n in f.nodes if n["k"] == "DeclStmt" for d in n["decls"] if (d.get("t") or "").replace("const ", "").strip() == "bool")
    primset = set(prims)
    pk = {x: fin.key(f, x) for x in prims}
    # non-bool locals that receive the primitive's return value as it is
    result_locals = set()
    for did_, dl_ in q.local_defs(f).items():
        for kind_, nd_, init_ in dl_:
            if init_ is not None and f.strip(init_) in primset:
                nm_ = next((n_["ref"]["n"] for n_ in f.nodes if n_["k"] == "DeclRefExpr" and n_["ref"].get("id") == did_), None)
                if nm_ and nm_ not in flags:
                    result_locals.add(nm_)

    def setflag(fl, name, v):
        return tuple((v if nm == name else x) for nm, x in zip(flags, fl))

    def outcome_link(expr):
        """("P", pol) when `expr` is true exactly for one outcome of the wait primitive it contains: pol = its truth value on failure"""
        inside = [x for x in prims if x in f.desc(expr) or x == f.strip(expr)]
        if not inside:
            return None
        vf = fin.eval_expr(f, expr, {pk[x]: fail_v for x in inside})
        vs = fin.eval_expr(f, expr, {pk[x]: 0 for x in inside})
        if vf is not None and vs is not None and bool(vf) != bool(vs):
            return ("P", bool(vf))
        return None

    def transfer(st, e):
        if not isinstance(e, int):
            return st
        n = f.nodes[e]
        out = set()
        for (T, P, K, fl) in st:
            if e in primset:
                T, P, K = False, None, False      # outcome decided by the branch that tests it
            elif n["k"] == "BinaryOperator" and n["op"] == "=":
                lt = q.no_casts(f.r(n["c"][0]))
                if lt == flag and q.is_zero(f, n["c"][1]):
                    K = True
                elif lt in flags:
                    v = fin.eval_expr(f, n["c"][1], {})
                    fl = setflag(fl, lt, (outcome_link(n["c"][1]) if v is None else bool(v)))
            elif n["k"] == "DeclStmt":
                for d in n["decls"]:
                    if d["n"] in flags and d.get("init") is not None:
                        v = fin.eval_expr(f, d["init"], {})
                        fl = setflag(fl, d["n"], (outcome_link(d["init"]) if v is None else bool(v)))
            out.add((T, P, K, fl))
        return frozenset(out)

    def refine(st, blk, k):
        c = blk.get("cond")
        if c is None or len(blk["succ"]) != 2 or blk.get("tk") == "SwitchStmt":
            return st
        res = set(st)
        for a, truth in q.cond_atoms(f, c, k == 0):
            t = q.no_casts(f.r(a))
            if t == flag:
                res = set((True, P, False, fl) if truth else (T, P, K, fl) for (T, P, K, fl) in res)
            elif t in flags:
                i = flags.index(t)
                nxt = set()
                for x in res:
                    v = x[3][i]
                    if isinstance(v, tuple):        # the flag names an outcome of the primitive: this edge decides it
                        nxt.add((x[0], truth == v[1], x[2], setflag(x[3], t, truth)))
                    elif v is None or v == truth:
                        nxt.add(x)
                res = nxt
            else:
                inside = [x for x in prims if x in f.desc(a)]
                held = [nm for nm in result_locals if any(f.nodes[x]["k"] == "DeclRefExpr" and f.nodes[x]["ref"]["n"] == nm for x in [f.strip(a)] + list(f.desc(a)))]
                if inside or held:
                    # the primitive's result tested directly, or through the integer local that received it (`const int err = prim(..)`)
                    vf = fin.eval_expr(f, a, dict({pk[x]: fail_v for x in inside}, **{nm: fail_v for nm in held}))
                    vs = fin.eval_expr(f, a, dict({pk[x]: 0 for x in inside}, **{nm: 0 for nm in held}))
                    if vf is not None and vs is not None and bool(vf) != bool(vs):
                        failed = bool(vf) == truth
                        res = set((T, failed, K, fl) for (T, P, K, fl) in res)
        return frozenset(res) if res else None

    init = frozenset({(False, False, False, tuple(None for _ in flags))})
    sin, sat = q.forward(f, init, transfer, refine, lambda a, b: a | b)
    out = []
    for i, n in enumerate(f.nodes):
        if n["k"] != "ReturnStmt" or not n["c"]:
            continue
        st = sat.get(f.node_pos(i))
        if st is None:
            continue
        for (T, P, K, fl) in st:
            v = fin.eval_expr(f, n["c"][0], {nm: int(x) for nm, x in zip(flags, fl) if isinstance(x, bool)})
            out.append((i, None if v is None else bool(v), T, P, K))
    return out


def run(prog, chk):
    chk.extra["explanation"] = EXPLANATION
    chk.extra["not_analysed"] = "_WIN32 branches (not part of the parsed program on this target)"
    chk.rule("C11.a", "CNT (lock-state dataflow): exactly one lock and one unlock on every path, no condition wait without the lock, lock state at every exit as specified", floor=6)
    chk.rule("C11.b", "DOM: every access of the `signaled` flag outside constructors happens with the object's mutex held", floor=8)
    chk.rule("C11.c", "MPT: waits loop; `return true` only on the true edge of a flag test made after the last wait; Monitor consumes the flag", floor=4)
    chk.rule("C11.d", "ORD: set() stores the flag inside the critical section and notifies afterwards on every path", floor=2)
    chk.rule("C11.e", "DOM + units + intervals: timed waits fail only through the timed primitive; deadline units consistent, tv_nsec normalised, carry before modulo", floor=9)
    chk.rule("C11.f", "DOM: recursive mutex attribute reaches pthread_mutex_init; lock/tryLock/unlock map to the pthread calls", floor=4)
    chk.rule("C11.g", "MPT/AST: Thread handle stored only after successful creation; join returns the joined value and clears the handle; destructor joins; storage fits", floor=5)
    chk.rule("C11.h", "AST: Semaphore is a thin mapping onto sem_post / sem_wait / sem_trywait / sem_timedwait", floor=4)

    spec = [  # (function, nparams, held at entry, held at exit)
        ("Signal::set", 0, 0, 0), ("Signal::reset", 0, 0, 0), ("Signal::wait", 0, 0, 0), ("Signal::wait", 1, 0, 0),
        ("Monitor::set", 0, 0, 0), ("Monitor::wait", 0, 1, 1), ("Monitor::wait", 1, 1, 1),
    ]
    _WRAPPERS.clear()
    for cls_ in ("Signal", "Monitor"):
        _WRAPPERS.update(lock_wrappers(prog, cls_, "this->mdata"))
    for name, npar, h_in, h_out in spec:
        f = fn(prog, name, npar)
        where = "%s:%s" % (f.file, f.line)
        sin, sat = lock_state(f, "this->mdata", h_in)
        # ---- C11.a
        bad = None
        for p, st in sat.items():
            if isinstance(st, str):
                bad = (p, st)
                break
        st_exit = sin.get(f.exit)
        for i in callsn(f, "pthread_cond_wait") + callsn(f, "pthread_cond_timedwait"):
            if sat.get(f.node_pos(i)) != 1:
                bad = (f.node_pos(i), "bad:cond-wait-without-lock")
        if bad:
            chk.bad("C11.a", f, bad[1].replace("bad:", ""), where, "lock discipline broken on a path of %s: %s" % (name, bad[1]))
        elif st_exit != h_out:
            chk.bad("C11.a", f, "lock-state-at-exit", where, "%s returns with the mutex %s on some path" % (name, "held" if st_exit == 1 else "in a path-dependent state"))
        else:
            chk.ok("C11.a", f, "lock state %d -> %d on every path" % (h_in, h_out), where, "lock-state dataflow over %d blocks" % len(f.blocks), evals=len(f.blocks))
        # ---- C11.b
        for i, n in enumerate(f.nodes):
            if n["k"] == "MemberExpr" and n["m"] == "signaled":
                p = f.node_pos(i)
                if p is None:
                    continue      # not evaluated here (an lvalue bound to a reference parameter of an inlined helper)
                if sat.get(p) == 1:
                    chk.ok("C11.b", f, "access of signaled at line %s under the lock" % n["l"], f.where(i), "lock state 1")
                else:
                    chk.bad("C11.b", f, "flag-access-outside-critical-section", f.where(i),
                            "`signaled` is accessed without holding the mutex: a waiter that has tested the flag but not yet blocked can miss this update (lost wake-up)")
    # ---- C11.c
    for name, npar, prim in (("Signal::wait", 0, "pthread_cond_wait"), ("Signal::wait", 1, "pthread_cond_timedwait"),
                             ("Monitor::wait", 0, "pthread_cond_wait"), ("Monitor::wait", 1, "pthread_cond_timedwait")):
        f = fn(prog, name, npar)
        where = "%s:%s" % (f.file, f.line)
        waits = callsn(f, prim)
        if not waits:
            chk.bad("C11.c", f, "no-wait-primitive", where, "%s does not call %s" % (name, prim))
            continue
        in_loop = all(C.loop_blocks(f, w) for w in waits)
        outs = wait_outcomes(f, waits, 110)
        can_true = [o for o in outs if o[1] is not False]
        ok = in_loop and bool(can_true)
        msg = ""
        if not in_loop:
            msg = "the condition wait is not inside a loop: a spurious wake-up returns without the flag being set"
        for (r, v, T, P, K) in can_true:
            if not T:
                ok, msg = False, ("a successful return is reachable without a successful test of the flag after the last wait "
                                  "(spurious wake-up, or the flag may have been reset meanwhile)")
            elif name.startswith("Monitor") and not K:
                ok, msg = False, "Monitor::wait returns true without consuming the flag (successful waits can outnumber set() calls)"
        if ok:
            chk.ok("C11.c", f, "%s: wait in loop, success only after a flag test%s" % (name, ", flag consumed" if name.startswith("Monitor") else ""), where, "dominating atoms + path search", evals=3)
        else:
            chk.bad("C11.c", f, "wait-recheck", where, msg or "wait loop shape broken")
    # ---- C11.i: the flag is consumed, never discarded
    chk.rule("C11.i", "DOM: inside the wait functions `signaled = false` is stored only on the true edge of a test of `signaled` (the waiter "
                      "consumes a set() it has seen); nothing else in a wait may clear the flag", floor=2)
    for name, npar in (("Signal::wait", 0), ("Signal::wait", 1), ("Monitor::wait", 0), ("Monitor::wait", 1)):
        f = fn(prog, name, npar)
        where = "%s:%s" % (f.file, f.line)
        clears = [s_ for s_ in q.stores(f) if q.no_casts(f.r(s_.lhs)) == "this->signaled" and (s_.rhs is None or fin.eval_expr(f, s_.rhs, {}) != 1)]
        if not clears:
            chk.ok("C11.i", f, "%s(%s) never clears the flag" % (name, "timeout" if npar else ""), where, "no store to signaled", nontrivial=False)
        for s_ in clears:
            atoms = fin.dominating_atoms(f, f.node_pos(s_.node))
            seen_set = any(a[0] != "case" and a[1] and fin.key(f, a[0]) == "this->signaled" for a in atoms)
            if seen_set:
                chk.ok("C11.i", f, "flag cleared after it was seen set", f.where(s_.node), "true edge of the flag test dominates the store", evals=len(atoms) or 1)
            else:
                chk.bad("C11.i", f, "flag-discarded-unseen", f.where(s_.node),
                        "`%s` clears the flag without having seen it set: a set() that another waiter was just woken for (it has not "
                        "re-taken the mutex yet) is erased - that waiter finds the flag clear and sleeps again, the set() released nobody" % f.r(s_.node), evals=len(atoms) or 1)
    # ---- C11.d
    for name, notify in (("Signal::set", "pthread_cond_broadcast"), ("Monitor::set", "pthread_cond_signal")):
        f = fn(prog, name, 0)
        where = "%s:%s" % (f.file, f.line)
        st = [s.node for s in q.stores(f) if f.r(s.lhs) == "this->signaled" and s.rhs is not None and fin.eval_expr(f, s.rhs, {}) == 1]
        nt = callsn(f, notify)
        if st and nt and q.must_pass_from_entry(f, st) is None and all(C.after_all_pass(f, f.node_pos(s), q.pos_of(f, nt))[0] for s in st):
            chk.ok("C11.d", f, "%s sets the flag then calls %s" % (name, notify), where, "MPT", evals=2)
        else:
            other = "pthread_cond_signal" if notify == "pthread_cond_broadcast" else "pthread_cond_broadcast"
            chk.bad("C11.d", f, "set-without-%s" % notify.replace("pthread_cond_", ""), where,
                    "%s must store signaled = true and afterwards call %s on every path%s" % (
                        name, notify, " (it calls %s: only one of several waiters is released)" % other if callsn(f, other) and name == "Signal::set" else ""))
    # ---- C11.e
    deadlines = {}
    for name, prim, failtest in (("Signal::wait", "pthread_cond_timedwait", "!= 0"), ("Monitor::wait", "pthread_cond_timedwait", "!= 0"),
                                 ("Semaphore::wait", "sem_timedwait", "== -1")):
        f = fn(prog, name, 1)
        where = "%s:%s" % (f.file, f.line)
        prims = callsn(f, prim)
        fail_v = -1 if prim == "sem_timedwait" else 110          # what the primitive returns on a timeout
        outs = wait_outcomes(f, prims, fail_v)
        can_false = [o for o in outs if o[1] is not True]
        rets_false = sorted(set(o[0] for o in can_false))
        okf = bool(prims) and bool(can_false)
        for (r, v, T, P, K) in can_false:
            good = P is True
            if not good and name == "Semaphore::wait":
                # fallback loop for ENOSYS: `return false` after the polling loop ran out
                atoms = fin.dominating_atoms(f, f.node_pos(r))
                if any(fin.key(f, a[0]).startswith("(i < timeout)") and not a[1] for a in atoms if a[0] != "case"):
                    good = True
            okf = okf and good
        if okf:
            chk.ok("C11.e", f, "%s(timeout) returns false only when %s failed" % (name, prim), where, "every `return false` is dominated by the failing outcome of the primitive", evals=len(rets_false) + 1)
        else:
            chk.bad("C11.e", f, "timeout-failure-not-from-primitive", where,
                    "%s(timeout) can return false on a path that is not the failure of %s (a timed wait must not fail before the timeout expired)" % (name, prim))
        if name == "Semaphore::wait":
            # EINTR is retried, not reported as a timeout
            retry = False
            defs_ = q.local_defs(f)

            def is_errno(k, cnode):
                if "__errno_location" in k:
                    return True
                for x in [f.strip(cnode)] + list(f.desc(cnode)):
                    nx = f.nodes[x]
                    if nx["k"] == "DeclRefExpr" and nx["ref"].get("dk") == "local" and nx["ref"]["n"] == k:
                        init = q.single_def(f, nx["ref"]["id"], defs_)      # `const int error = errno;` taken right after the failed call
                        if init is None or "__errno_location" not in f.r(init):
                            continue
                        ip = f.node_pos(init)
                        # no other call between the failed primitive and the snapshot (it could overwrite errno)
                        between = [c2 for c2 in q.calls(f) if c2 not in prims and f.nodes[c2].get("callee") != "__errno_location" and
                                   f.node_pos(c2) is not None and any(q.reaches(f, p_, c2) for p_ in prims) and
                                   f.find_path(f.node_pos(c2), {ip}, avoid=q.pos_of(f, prims)) is not None]
                        if not between:
                            return True
                return False
            for b in f.blocks.values():
                c_ = b.get("cond")
                if c_ is None or len(b["succ"]) != 2 or b.get("tk") == "SwitchStmt" or None in b["succ"]:
                    continue
                cn = fin._canon(f, c_, True)
                if cn[0] == "val" or cn[1] not in ("==", "!=") or "4" not in (cn[0], cn[2]):
                    continue
                other = cn[2] if cn[0] == "4" else cn[0]
                if not is_errno(q.no_casts(other), c_):
                    continue
                eq_edge = b["succ"][0] if cn[1] == "==" else b["succ"][1]
                # from the EINTR edge the primitive is called again before the function can return
                if prims and f.find_path((eq_edge, 0), {f.exit_pos()}, avoid=q.pos_of(f, prims), after_src=False) is None:
                    retry = True
            if retry:
                chk.ok("C11.e", f, "EINTR is retried", where, "errno == EINTR leads back to sem_timedwait", nontrivial=False)
            else:
                chk.bad("C11.e", f, "eintr-not-retried", where, "sem_timedwait interrupted by a signal (EINTR) must be retried, not reported as an expired timeout")
        deadlines[name] = deadline_check(prog, chk, f, prim)
    # sibling agreement of the three deadline computations (thorough adds nothing here: it is cheap)
    norm = {k: v for k, v in deadlines.items() if v}
    if len(set(norm.values())) > 1:
        odd = sorted(norm.items(), key=lambda kv: list(norm.values()).count(kv[1]))[0]
        chk.bad("C11.e", odd[0], "deadline-differs-from-siblings", "", "the deadline computation of %s(timeout) differs from its two siblings: %s" % (odd[0], odd[1][:120]))
    elif norm:
        chk.ok("C11.e", "deadline", "three deadline computations agree", "", list(norm.values())[0][:100], evals=3)
    # ---- C11.f
    f = fn(prog, "Mutex::Mutex", 0)
    where = "%s:%s" % (f.file, f.line)
    st = callsn(f, "pthread_mutexattr_settype")
    ini = callsn(f, "pthread_mutex_init")
    ok = bool(st) and bool(ini)
    if ok:
        a = q.call_args(f, st[0])
        ok = fin.eval_expr(f, a[1], {}) == 1 and q.precedes_always(f, st, ini[0]) and q.no_casts(f.r(a[0])) == q.no_casts(f.r(q.call_args(f, ini[0])[1]))
        ok = ok and bool(callsn(f, "pthread_mutexattr_init")) and q.precedes_always(f, callsn(f, "pthread_mutexattr_init"), st[0])
    if ok:
        chk.ok("C11.f", f, "mutex initialised with a PTHREAD_MUTEX_RECURSIVE attribute", where, "attr init -> settype(RECURSIVE) -> mutex_init(&attr) in this order on every path", evals=3)
    else:
        chk.bad("C11.f", f, "mutex-not-recursive", where, "pthread_mutex_init does not receive an attribute object set to PTHREAD_MUTEX_RECURSIVE on every path: re-locking by the owner deadlocks")
    for name, prim, shape in (("Mutex::lock", "pthread_mutex_lock", None), ("Mutex::unlock", "pthread_mutex_unlock", None), ("Mutex::tryLock", "pthread_mutex_trylock", "== 0")):
        f = fn(prog, name, 0)
        cs = callsn(f, prim)
        others = [i for i in q.calls(f) if f.nodes[i].get("callee", "").startswith("pthread_") and i not in cs]
        ok = len(cs) == 1 and not others and "this->data" in q.no_casts(q.xr(f, q.call_args(f, cs[0])[0]))
        if ok and q.must_pass_from_entry(f, cs) is not None:
            ok = False      # a path around the primitive
        if ok and shape:
            # decision table over the primitive's outcome: true exactly when it returned 0 (whatever statements carry the value)
            kp = fin.key(f, cs[0])
            for outcome, want in ((0, 1), (16, 0)):
                _seen, r_, v_ = fin.walk_vals(f, f.entry, {kp: outcome})
                got = fin.eval_expr(f, f.nodes[r_]["c"][0], v_) if isinstance(r_, int) and f.nodes[r_]["c"] else None
                if got is None or bool(got) != bool(want):
                    ok = False
        if ok:
            chk.ok("C11.f", f, "%s maps to %s" % (name, prim), "%s:%s" % (f.file, f.line), f.r(cs[0])[:60], nontrivial=False)
        else:
            chk.bad("C11.f", f, "mutex-mapping", "%s:%s" % (f.file, f.line), "%s must be exactly one %s on the object's mutex%s" % (name, prim, " compared == 0" if shape else ""))
    thread_start_publishes_first(prog, chk, "C11.j")
    # ---- C11.g
    f = fn(prog, "Thread::start", 2)
    where = "%s:%s" % (f.file, f.line)
    cr = callsn(f, "pthread_create")
    hs = [s for s in q.stores(f) if f.r(s.lhs) == "this->thread"]
    ok = bool(cr) and bool(hs)
    if ok:
        for s in hs:
            atoms = fin.dominating_atoms(f, f.node_pos(s.node))
            # an edge taken when pthread_create returned 0 and not when it failed (the result may sit in a const local)
            kc = fin.key(f, cr[0])
            succ = any(a[0] != "case" and fin.eval_expr(f, a[0], {kc: 0}) is not None and fin.eval_expr(f, a[0], {kc: 11}) is not None and
                       bool(fin.eval_expr(f, a[0], {kc: 0})) == a[1] and bool(fin.eval_expr(f, a[0], {kc: 11})) != a[1] for a in atoms)
            free = any(a[0] != "case" and fin.key(f, a[0]) == "this->thread" and not a[1] for a in atoms)
            ok = ok and succ and free
    if ok:
        chk.ok("C11.g", f, "handle stored only when pthread_create succeeded and no thread was running", where, "dominating atoms", evals=2)
    else:
        chk.bad("C11.g", f, "thread-start-handle", where, "Thread::start must refuse when a handle is present and store the handle only on the success edge of pthread_create")
    f = fn(prog, "Thread::join", 0)
    where = "%s:%s" % (f.file, f.line)
    pj = callsn(f, "pthread_join")
    clr = [s.node for s in q.stores(f) if f.r(s.lhs) == "this->thread" and s.rhs is not None and q.is_zero(f, s.rhs)]
    rets = [i for i, n in enumerate(f.nodes) if n["k"] == "ReturnStmt" and n["c"] and any(q.reaches(f, p, i) for p in pj)]
    ok = bool(pj) and bool(clr) and bool(rets) and all(C.after_all_pass(f, f.node_pos(p), q.pos_of(f, clr))[0] for p in pj)
    if ok:
        out_arg = q.no_casts(f.r(q.call_args(f, pj[0])[1])).lstrip("&")
        ok = all(re.search(r"\b%s\b" % re.escape(out_arg), q.xr(f, f.nodes[r]["c"][0])) for r in rets)     # through a local copy as well
    if ok:
        chk.ok("C11.g", f, "join returns the value delivered by pthread_join and clears the handle", where, "MPT + data flow of the out-parameter", evals=3)
    else:
        chk.bad("C11.g", f, "thread-join-result", where, "Thread::join must return what pthread_join delivered for this thread and clear the handle on that path")
    f = fn(prog, "Thread::~Thread", 0)
    j = [i for i in q.calls(f) if f.nodes[i].get("callee") == "Thread::join"]
    if j:
        chk.ok("C11.g", f, "destructor joins a running thread", "%s:%s" % (f.file, f.line), "call to join()", nontrivial=False)
    else:
        chk.bad("C11.g", f, "destructor-does-not-join", "%s:%s" % (f.file, f.line), "~Thread must join a started thread (otherwise the thread outlives the objects it uses)")
    sizes = {"pthread_mutex_t": 40, "pthread_cond_t": 48, "sem_t": 32}   # glibc x86-64 ABI
    for rec, fld, need in (("Signal", "cdata", "pthread_cond_t"), ("Signal", "mdata", "pthread_mutex_t"), ("Monitor", "cdata", "pthread_cond_t"),
                           ("Monitor", "mdata", "pthread_mutex_t"), ("Mutex", "data", "pthread_mutex_t"), ("Semaphore", "data", "sem_t")):
        r = prog.records.get(rec)
        if r is None:
            raise AnalysisBroken("record %s not found" % rec)
        fl = [x for x in r["fields"] if x["n"] == fld]
        if not fl:
            chk.bad("C11.g", rec, "storage-field-missing:" + fld, "%s:%s" % (r["file"], r["line"]), "%s::%s not found" % (rec, fld))
            continue
        m = re.match(r".*\[(\d+)\]$", fl[0]["t"])
        elem = 8 if "long" in fl[0]["t"] else (1 if "char" in fl[0]["t"] else 4)
        size = int(m.group(1)) * elem if m else 0
        if size >= sizes[need]:
            chk.ok("C11.g", rec, "%s::%s (%d bytes) holds a %s (%d bytes)" % (rec, fld, size, need, sizes[need]), "%s:%s" % (r["file"], r["line"]), fl[0]["t"], nontrivial=False)
        else:
            chk.bad("C11.g", rec, "storage-too-small:" + fld, "%s:%s" % (r["file"], r["line"]), "%s::%s has %d bytes, %s needs %d: the primitive overwrites its neighbours" % (rec, fld, size, need, sizes[need]))
    # ---- C11.h
    for name, npar, prim, shape in (("Semaphore::signal", 0, "sem_post", None), ("Semaphore::wait", 0, "sem_wait", "!= -1"), ("Semaphore::tryWait", 0, "sem_trywait", "!= -1")):
        f = fn(prog, name, npar)
        cs = callsn(f, prim)
        others = [i for i in q.calls(f) if f.nodes[i].get("callee", "").startswith("sem_") and i not in cs]
        ok = len(cs) == 1 and not others
        if ok and shape:
            # decision table over the primitive's outcome: failure (-1) must come back as false, success (0) as true
            ck = fin.key(f, cs[0])
            for outcome, want in ((-1, 0), (0, 1)):
                _seen, r_, v_ = fin.walk_vals(f, f.entry, {ck: outcome})
                got = fin.eval_expr(f, f.nodes[r_]["c"][0], v_) if isinstance(r_, int) and f.nodes[r_]["c"] else None
                if got is None or bool(got) != bool(want) or cs[0] not in set(x for e in _seen for x in f.desc(e)):
                    ok = False
        if ok:
            chk.ok("C11.h", f, "%s maps to %s" % (name, prim), "%s:%s" % (f.file, f.line), f.r(cs[0])[:50], nontrivial=False)
        else:
            chk.bad("C11.h", f, "semaphore-mapping", "%s:%s" % (f.file, f.line), "%s must be exactly one %s%s" % (name, prim, " whose result is compared != -1" if shape else ""))
    f = fn(prog, "Semaphore::Semaphore", 1)
    si = callsn(f, "sem_init")
    if si and q.no_casts(f.r(q.call_args(f, si[0])[2])) == f.params[0]["n"]:
        chk.ok("C11.h", f, "initial count handed to sem_init", "%s:%s" % (f.file, f.line), f.r(si[0])[:60], nontrivial=False)
    else:
        chk.bad("C11.h", f, "semaphore-initial-count", "%s:%s" % (f.file, f.line), "the constructor must pass its value to sem_init (the count starts at the given value)")


# ----------------------------------------------------------------------------- deadline: units, intervals, order

def deadline_check(prog, chk, f, prim, ts_name="ts", tpar_name=None):
    """returns a normalised text of the deadline computation (for the sibling comparison)"""
    where = "%s:%s" % (f.file, f.line)
    tpar = tpar_name or f.params[0]["n"]
    TS = ts_name
    sts = []
    for b in sorted(f.blocks, reverse=True):
        for e in f.blocks[b]["el"]:
            if isinstance(e, int) and f.nodes[e]["k"] in ("CompoundAssignOperator", "BinaryOperator") and f.nodes[e].get("op") in ("+=", "%=", "=", "-=", "*=", "/="):
                lt = f.r(f.nodes[e]["c"][0])
                if lt in (TS + ".tv_nsec", TS + ".tv_sec") or lt in (TS + "->tv_nsec", TS + "->tv_sec"):
                    sts.append(e)
    if not sts:
        # the computation may live in a helper that receives the timespec and the timeout
        for c in q.calls(f):
            sig = f.nodes[c].get("csig")
            g = prog.functions.get(sig)
            if g is None or g is f or not any("timespec" in p_["t"] for p_ in g.params):
                continue
            ti = [k for k, a in enumerate(q.call_args(f, c)) if q.no_casts(f.r(a)) == tpar]
            tsi = [k for k, p_ in enumerate(g.params) if "timespec" in p_["t"]]
            if ti and tsi:
                return deadline_check(prog, chk, g, prim, ts_name=g.params[tsi[0]]["n"], tpar_name=g.params[ti[0]]["n"])
    if not (callsn(f, "clock_gettime")) or not sts:
        chk.bad("C11.e", f, "deadline-computation-missing", where, "no absolute deadline is computed from clock_gettime for the timed primitive")
        return ""
    # ---- units: exponent k of 10^-k seconds; timeout is in milliseconds (k = 3)
    def unit(i):
        i = f.strip(i)
        n = f.nodes[i]
        if n["k"] == "DeclRefExpr" and n["ref"]["n"] == tpar:
            return 3
        t = f.r(i)
        if t in (TS + ".tv_nsec", TS + "->tv_nsec"):
            return 9
        if t in (TS + ".tv_sec", TS + "->tv_sec"):
            return 0
        if "cv" in n or n["k"] == "IntegerLiteral":
            return None  # pure number
        if n["k"] in ("CStyleCastExpr", "CXXStaticCastExpr") and n["c"]:
            return unit(n["c"][0])
        if n["k"] == "BinaryOperator":
            a, b = n["c"]
            ua, ub = unit(a), unit(b)
            cb = fin.eval_expr(f, b, {})
            ca = fin.eval_expr(f, a, {})
            p10 = lambda v: {1: 0, 10: 1, 100: 2, 1000: 3, 1000000: 6, 1000000000: 9}.get(v)
            if n["op"] == "*":
                if ua is not None and cb is not None and p10(cb) is not None:
                    return ua + p10(cb)
                if ub is not None and ca is not None and p10(ca) is not None:
                    return ub + p10(ca)
                return "bad"
            if n["op"] == "/":
                if ua is not None and cb is not None and p10(cb) is not None:
                    return ua - p10(cb)
                return "bad"
            if n["op"] == "%":
                return ua
            if n["op"] in ("+", "-"):
                if ua == ub:
                    return ua
                return "bad"
        return "bad"
    unit_ok = True
    for e in sts:
        n = f.nodes[e]
        lt = f.r(n["c"][0])
        want = 9 if lt.endswith("tv_nsec") else 0
        if n["op"] in ("+=", "-=", "="):
            u = unit(n["c"][1])
            if u != want:
                unit_ok = False
                chk.bad("C11.e", f, "deadline-unit-mismatch:" + lt, f.where(e),
                        "`%s`: the right side is in 10^-%s seconds but %s counts 10^-%d seconds (timeout is in milliseconds): the deadline lies at the wrong time" % (f.r(e)[:70], u, lt, want))
    if unit_ok:
        chk.ok("C11.e", f, "deadline arithmetic is unit-consistent (ms -> ns / s)", where, "dimension typing of %d statements" % len(sts), evals=len(sts))
    # ---- intervals
    env = {TS + ".tv_nsec": (0, 999999999), TS + ".tv_sec": (0, 1 << 40), TS + "->tv_nsec": (0, 999999999), TS + "->tv_sec": (0, 1 << 40), tpar: (0, 1 << 40)}

    def iv(i):
        i = f.strip(i)
        n = f.nodes[i]
        t = f.r(i)
        if t in env:
            return env[t]
        if n["k"] == "DeclRefExpr" and n["ref"]["n"] in env:
            return env[n["ref"]["n"]]
        v = fin.eval_expr(f, i, {})
        if v is not None:
            return (v, v)
        if n["k"] in ("CStyleCastExpr", "CXXStaticCastExpr") and n["c"]:
            return iv(n["c"][0])
        if n["k"] == "BinaryOperator":
            (a0, a1), (b0, b1) = iv(n["c"][0]), iv(n["c"][1])
            op = n["op"]
            if op == "+":
                return (a0 + b0, a1 + b1)
            if op == "-":
                return (a0 - b1, a1 - b0)
            if op == "*":
                c = [a0 * b0, a0 * b1, a1 * b0, a1 * b1]
                return (min(c), max(c))
            if op == "/" and b0 == b1 and b0 > 0 and a0 >= 0:
                return (a0 // b0, a1 // b0)
            if op == "%" and b0 == b1 and b0 > 0 and a0 >= 0:
                return (0, min(a1, b0 - 1))
        return (-(1 << 62), 1 << 62)
    carry_seen = False
    for e in sts:
        n = f.nodes[e]
        lt = f.r(n["c"][0])
        r = iv(n["c"][1])
        cur = env[lt]
        if n["op"] == "+=":
            if lt.endswith("tv_sec") and "tv_nsec" in f.r(n["c"][1]) and max(env[TS + ".tv_nsec"][1], env[TS + "->tv_nsec"][1]) > 999999999:
                carry_seen = True
            env[lt] = (cur[0] + r[0], cur[1] + r[1])
        elif n["op"] == "%=":
            env[lt] = (0, min(cur[1], r[1] - 1)) if r[0] == r[1] and r[0] > 0 and cur[0] >= 0 else (-(1 << 62), 1 << 62)
        elif n["op"] == "=":
            env[lt] = r
        else:
            env[lt] = (-(1 << 62), 1 << 62)
    ns = env[TS + ".tv_nsec"] if env[TS + ".tv_nsec"] != (0, 999999999) or not any(f.r(f.nodes[e]["c"][0]).startswith(TS + "->") for e in sts) else env[TS + "->tv_nsec"]
    if 0 <= ns[0] and ns[1] <= 999999999:
        chk.ok("C11.e", f, "tv_nsec of the deadline in [0, 999999999]", where, "interval evaluation gives [%d, %d]" % ns, evals=len(sts))
    else:
        chk.bad("C11.e", f, "deadline-tv_nsec-not-normalised", where,
                "the deadline's tv_nsec ranges over [%d, %d]: an out-of-range timespec makes the timed primitive fail at once (before the timeout)" % ns)
    if carry_seen:
        chk.ok("C11.e", f, "carry into tv_sec taken while tv_nsec still holds the overflow", where, "statement order", nontrivial=False)
    else:
        chk.bad("C11.e", f, "deadline-carry-lost", where, "tv_sec does not receive tv_nsec / 1000000000 before tv_nsec is reduced: up to one second of the timeout is lost")
    return " ; ".join(q.no_casts(f.r(e)).replace(tpar, "$T").replace(TS + ".", "ts.").replace(TS + "->", "ts.") for e in sts)


def thread_start_publishes_first(prog, chk, rid):
    """the member-function overload of Thread::start hands the new thread the address of `this->func`; the thread reads it as soon as it
    runs.  The record has to be written before the thread is created - afterwards the thread may already have called what `func` held
    before (the previous start's function on a re-used Thread, garbage on a fresh one)."""
    chk.rule(rid, "ORD: in Thread::start(X&, uint (X::*)()) the store to `this->func` lies on every path to the call that creates the thread "
                  "with `&this->func`", floor=1)
    fs = [f for f in prog.functions.values() if f.name == "Thread::start" and f.file.endswith("Thread.hpp") and f.blocks]
    if not fs:
        raise AnalysisBroken("Thread::start(X&, member function) is not instantiated")
    for f in sorted(fs, key=lambda g: g.sig):
        creates = [c for c in q.calls(f) if (f.nodes[c].get("callee") or "").endswith("Thread::start") and
                   any("this->func" in q.no_casts(f.r(a)) for a in q.call_args(f, c))]
        pubs = [s.node for s in q.stores(f) if q.no_casts(f.r(s.lhs)) == "this->func"]
        pubs += [i for i, n in enumerate(f.nodes) if n["k"] == "CXXOperatorCallExpr" and n.get("oop") == "=" and len(n["c"]) >= 2 and
                 q.no_casts(f.r(n["c"][1])) == "this->func"]
        pubs += [c for c in q.calls(f) if (f.nodes[c].get("callee") or "") in ("memcpy", "Memory::copy") and q.call_args(f, c) and
                 "this->func" in q.no_casts(f.r(q.call_args(f, c)[0]))]
        if not creates:
            raise AnalysisBroken("%s: the call that creates the thread with &this->func was not found" % f.sig)
        bad = None
        for c in creates:
            if f.node_pos(c) is None:
                continue
            if not pubs or f.find_path(f.entry_pos(), {f.node_pos(c)}, avoid=q.pos_of(f, pubs), after_src=False) is not None:
                bad = c
        if bad is None:
            chk.ok(rid, f, "`func` is written before the thread that reads it is created", f.where(creates[0]), "no path to the creating call avoids the store", evals=len(creates) + len(pubs))
        else:
            chk.bad(rid, f, "thread-created-before-its-record", f.where(bad),
                    "`%s` creates the thread, which reads `this->func` at once, on a path where `this->func` has not been written yet: the thread "
                    "calls the previous start's function (join() returns that function's result, the started one never runs) or a wild pointer" % (
                        q.no_casts(f.r(bad))[:50]), evals=len(creates) + len(pubs))
