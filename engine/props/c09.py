"""C09 — shared payloads are released exactly once, after their last handle."""
from .. import refcount as R

EXPLANATION = (
    "The standard reference-counting argument reduced to code-shape facts, checked on String, Variant, Xml::Variant and "
    "RefCount::Ptr<>: (a) the counter is written only by Atomic::increment/decrement (one __sync_add_and_fetch each) after constant "
    "initialisation; (b) every delete of a shared block / payload destructor is control-dependent on `Atomic::decrement(x->ref) == 0` "
    "evaluated in that condition and guarded by the owned test, and no decrement result is discarded; (c) every share has an "
    "increment on all paths and every overwrite is preceded by the release test; (d) assignment operators acquire before they "
    "release; (e) Ptr's refObj/obj are written together; (f) rule of three; (g) clones are constructed in the fresh block; (h) in-place "
    "modification only for count exactly one (finite valuations of the guards). If (a)-(h) hold no interleaving of threads that own "
    "distinct handles frees twice, frees early or mutates under another holder. Not decided: weak-memory effects beyond the full "
    "barrier of __sync_*, misuse of one handle by two threads.")


def run(prog, chk):
    chk.extra["explanation"] = EXPLANATION
    R.atomic_only(prog, chk, "C09.a")
    R.release_idiom(prog, chk, "C09.b")
    R.share_idiom(prog, chk, "C09.c")
    R.acquire_before_release(prog, chk, "C09.d")
    R.paired_ptr_fields(prog, chk, "C09.e")
    R.handle_rule_of_three(prog, chk, "C09.f")
    R.clone_into_fresh(prog, chk, "C09.g")
    R.exclusive_guard(prog, chk, "C09.h")
    R.own_payload_after_release(prog, chk, "C09.j")
    R.argument_after_release(prog, chk, "C09.k")
    R.increment_is_kept(prog, chk, "C09.l")
    # (h) for every String member, not just detach/clear: no in-place write to the text block of a possibly shared payload
    from . import c06

    class Only:
        """forwards the events of one rule of another property's module under a new rule id"""
        def __init__(self, chk, src, dst):
            self.chk, self.src, self.dst = chk, src, dst
            self.extra, self.assumptions = {}, []
        def rule(self, rid, text, floor=1):
            if rid == self.src:
                self.chk.rule(self.dst, text, floor)
        def ok(self, rid, *a, **k):
            if rid == self.src:
                self.chk.ok(self.dst, *a, **k)
        def bad(self, rid, *a, **k):
            if rid == self.src:
                self.chk.bad(self.dst, *a, **k)
        def note(self, t):
            pass
        def broke(self, t):
            self.chk.broke(t)
    c06.run(prog, Only(chk, "C06.a", "C09.i"))
